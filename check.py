#!/opt/veriftools/pyvenv/bin/python
"""check.py Cnn [--tier quick|thorough]   -- run the contract check of one property.

exit 0: every obligation proved (known findings printed as KNOWN-FINDING lines)
exit 1: VIOLATION property=<id> replay=<path> ...
exit 2: undecided (unknown / unsupported construct)        exit 3: engine error"""
import argparse
import importlib
import os
import sys
import traceback

HERE = os.path.dirname(os.path.abspath(__file__))
sys.path.insert(0, HERE)


def last_resort(run, pid, seed):
    from pyvc.report import native
    S = {'seed': seed}
    LAST = {'C01': [dict(S, kind='kd_buf_search')], 'C11': [dict(S, kind='flags_search'), {'kind': 'ioctl_search'}],
            'C02': [dict(S, kind='v2_search', budget=300, known=['first-record-leading-zero'])],
            'C03': [dict(S, kind='v3_blocks_search', budget=300)],
            'C04': [dict(S, kind='pairing_search', budget=4000, depth=4)],
            'C05': [dict(S, kind='interleaving_search', budget=300), dict(S, kind='pairing_search', budget=4000, depth=4)],
            'C06': [dict(S, kind='truncation_search', budget=40), {'kind': 'seek_search'}],
            'C08': [dict(S, kind='lookup_search', budget=500)],
            'C12': [{'kind': 'filters_search'}], 'C13': [{'kind': 'traces_filters_search'}, {'kind': 'filters_search'}],
            'C14': [dict(S, kind='format_search', budget=300)],
            'C15': [dict(S, kind='callstack_search', budget=300)],
            'C16': [dict(S, kind='log_search', budget=300)],
            'C18': [{'kind': 'darwin_names_search'}],
            'C19': [dict(S, kind='codes_search', budget=400), {'kind': 'supplied_table_case'}]}
    und = [u[0] for u in run.undecided]
    if pid in ('C07', 'C20', 'C15'):
        comp = [n for n in ('PERF_Event', 'MACH_vmfault', 'DBG_DYLD_TIMING_LAUNCH_EXECUTABLE') if any(n in u for u in und) or run.engine_errors
                or (pid == 'C15' and n == 'PERF_Event') or (pid == 'C20' and n != 'PERF_Event')]
        LAST[pid] = LAST.get(pid, []) + [{'kind': 'composite_search', 'name': n, 'budget': 1500, 'seed': seed} for n in comp]
    names = sorted(set(u.split('/')[1].split('.', 1)[-1] for u in und if u.count('/') >= 2 and u.split('/')[1].split('.', 1)[0] in
                       ('bsd', 'mach', 'trace', 'perf', 'dyld', 'turnstile', 'corestorage', 'network', 'vfs', 'fsystem')))
    if pid == 'C09':
        LAST['C09'] = [{'kind': 'arg_fidelity_search', 'decoders': names}]
    if pid in ('C07', 'C10', 'C11', 'C17', 'C18', 'C20') and names:
        LAST[pid] = LAST.get(pid, []) + [{'kind': 'decoder_property_search', 'property': pid, 'decoders': names[:80], 'seed': seed}]
    out = {}
    for rq in LAST.get(pid, []) + [{'kind': 'api_history_case'}]:
        out = native(rq, timeout=900)
        run.bounded.append({'what': 'native %s after an undecided run (refute mode only)' % rq['kind'], 'found': bool(out.get('violates'))})
        if out.get('violates'):
            f = out.get('found') if isinstance(out.get('found'), dict) else out
            out = dict(f, violates=True, request=f.get('request', rq))
            break
    if out.get('violates'):
        ob = '%s/bounded/refute-search' % pid
        run.add(ob, 'refuted', 'native bounded search', 0, None, out.get('what', '')[:300])
        run.violation(ob, {'request': out.get('request', {'kind': 'api_history_case'}), 'native': out,
                           'solver_output': 'undecided obligations: %s; engine errors: %s' % ([u[0] for u in run.undecided][:10], run.engine_errors[:2])},
                      True, what=out.get('what', ''))


def main():
    ap = argparse.ArgumentParser()
    ap.add_argument('pid')
    ap.add_argument('--tier', default=os.environ.get('VERIF_TIER', 'quick'))
    a = ap.parse_args()
    seed = int(os.environ.get('VERIF_SEED', '0') or 0)
    from pyvc.report import Run
    pid = a.pid.upper()
    tier = a.tier if a.tier in ('quick', 'thorough') else 'quick'
    run = Run(pid, tier, seed)
    try:
        mod = importlib.import_module('checks.' + pid.lower())
        mod.run_check(run, tier)
    except Exception as ex:
        from pyvc.values import Unsupported
        if isinstance(ex, Unsupported):
            # a construct outside the verifier's subset: undecided, never a violation and not an engine failure
            run.add('%s/supported' % pid, 'unsupported', '', 0, None, str(ex))
            run.undecide('%s/supported' % pid, 'construct outside the verified subset: %s' % ex)
        else:
            run.engine_error('check crashed: ' + traceback.format_exc()[-1500:].replace('\n', ' | '))
    try:
        from checks import common
        common.run_generic(run, tier)
    except Exception:
        run.engine_error('generic frame obligations crashed: ' + traceback.format_exc()[-1200:].replace('\n', ' | '))
    try:
        run.extraction_obligation()
    except Exception:
        pass
    if (run.undecided or run.engine_errors) and not any(v[2] for v in run.violations):
        # last resort before reporting "undecided" (or an engine failure): the property's native searches and the generic
        # history search (bounded refute mode).  A failing input found here is replayed on the real code, so it stands
        # whatever stopped the deductive part.
        try:
            last_resort(run, pid, seed)
        except Exception:
            pass
    code = run.finish()
    sys.exit(code)


if __name__ == '__main__':
    main()
