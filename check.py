#!/opt/veriftools/pyvenv/bin/python
"""check.py Cnn [--tier quick|thorough]   -- run the contract check of one property.

exit 0: every obligation proved (known findings printed as KNOWN-FINDING lines)
exit 1: VIOLATION property=<id> replay=<path> ...
exit 2: undecided (unknown / unsupported construct)        exit 3: engine error"""
import argparse
import importlib
import os
import sys
import traceback

HERE = os.path.dirname(os.path.abspath(__file__))
sys.path.insert(0, HERE)


def main():
    ap = argparse.ArgumentParser()
    ap.add_argument('pid')
    ap.add_argument('--tier', default=os.environ.get('VERIF_TIER', 'quick'))
    a = ap.parse_args()
    seed = int(os.environ.get('VERIF_SEED', '0') or 0)
    from pyvc.report import Run
    pid = a.pid.upper()
    tier = a.tier if a.tier in ('quick', 'thorough') else 'quick'
    run = Run(pid, tier, seed)
    try:
        mod = importlib.import_module('checks.' + pid.lower())
        mod.run_check(run, tier)
    except Exception as ex:
        from pyvc.values import Unsupported
        if isinstance(ex, Unsupported):
            # a construct outside the verifier's subset: undecided, never a violation and not an engine failure
            run.add('%s/supported' % pid, 'unsupported', '', 0, None, str(ex))
            run.undecide('%s/supported' % pid, 'construct outside the verified subset: %s' % ex)
        else:
            run.engine_error('check crashed: ' + traceback.format_exc()[-1500:].replace('\n', ' | '))
    try:
        from checks import common
        common.run_generic(run, tier)
    except Exception:
        run.engine_error('generic frame obligations crashed: ' + traceback.format_exc()[-1200:].replace('\n', ' | '))
    if run.undecided and not run.violations and not run.engine_errors:
        # last resort before reporting "undecided": the generic native history search (bounded refute mode)
        try:
            from pyvc.report import native
            out = native({'kind': 'api_history_case'}, timeout=900)
            run.bounded.append({'what': 'native API-history search after an undecided run (refute mode only)', 'found': bool(out.get('violates'))})
            if out.get('violates'):
                ob = '%s/bounded/api-history' % pid
                run.add(ob, 'refuted', 'native bounded search', 0, None, out.get('what', '')[:300])
                run.violation(ob, {'request': {'kind': 'api_history_case'}, 'native': out,
                                   'solver_output': 'undecided obligations: %s' % [u[0] for u in run.undecided][:10]}, True, what=out.get('what', ''))
        except Exception:
            pass
    code = run.finish()
    sys.exit(code)


if __name__ == '__main__':
    main()
