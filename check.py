#!/opt/veriftools/pyvenv/bin/python
"""check.py Cnn [--tier quick|thorough]   -- run the contract check of one property.

exit 0: every obligation proved (known findings printed as KNOWN-FINDING lines)
exit 1: VIOLATION property=<id> replay=<path> ...
exit 2: undecided (unknown / unsupported construct)        exit 3: engine error"""
import argparse
import importlib
import os
import sys
import traceback

HERE = os.path.dirname(os.path.abspath(__file__))
sys.path.insert(0, HERE)


def main():
    ap = argparse.ArgumentParser()
    ap.add_argument('pid')
    ap.add_argument('--tier', default=os.environ.get('VERIF_TIER', 'quick'))
    a = ap.parse_args()
    seed = int(os.environ.get('VERIF_SEED', '0') or 0)
    from pyvc.report import Run
    pid = a.pid.upper()
    tier = a.tier if a.tier in ('quick', 'thorough') else 'quick'
    run = Run(pid, tier, seed)
    try:
        mod = importlib.import_module('checks.' + pid.lower())
        mod.run_check(run, tier)
    except Exception as ex:
        from pyvc.values import Unsupported
        if isinstance(ex, Unsupported):
            # a construct outside the verifier's subset: undecided, never a violation and not an engine failure
            run.add('%s/supported' % pid, 'unsupported', '', 0, None, str(ex))
            run.undecide('%s/supported' % pid, 'construct outside the verified subset: %s' % ex)
        else:
            run.engine_error('check crashed: ' + traceback.format_exc()[-1500:].replace('\n', ' | '))
    try:
        from checks import common
        common.run_generic(run, tier)
    except Exception:
        run.engine_error('generic frame obligations crashed: ' + traceback.format_exc()[-1200:].replace('\n', ' | '))
    if run.undecided and not run.violations and not run.engine_errors:
        # last resort before reporting "undecided": the generic native history search (bounded refute mode)
        try:
            from pyvc.report import native
            LAST = {'C01': [{'kind': 'kd_buf_search', 'seed': seed}], 'C11': [{'kind': 'flags_search', 'seed': seed}],
                    'C02': [{'kind': 'v2_search', 'seed': seed, 'budget': 300, 'known': ['first-record-leading-zero']}],
                    'C03': [{'kind': 'v3_blocks_search', 'seed': seed, 'budget': 300}], 'C19': [{'kind': 'codes_search', 'seed': seed, 'budget': 400},
                                                                                              {'kind': 'supplied_table_case'}],
                    'C12': [{'kind': 'filters_search'}], 'C05': [{'kind': 'interleaving_search', 'seed': seed, 'budget': 300}]}
            und = [u[0] for u in run.undecided]
            if pid in ('C07', 'C20', 'C15'):
                comp = [n for n in ('PERF_Event', 'MACH_vmfault', 'DBG_DYLD_TIMING_LAUNCH_EXECUTABLE') if any(n in u for u in und)]
                LAST[pid] = [{'kind': 'composite_search', 'name': n, 'budget': 1500, 'seed': seed} for n in comp]
            if pid == 'C09':
                names = sorted(set(u.split('/')[1].split('.', 1)[-1] for u in und if u.count('/') >= 2))
                LAST['C09'] = [{'kind': 'arg_fidelity_search', 'decoders': names}]
            out = {}
            for rq in LAST.get(pid, []) + [{'kind': 'api_history_case'}]:
                out = native(rq, timeout=900)
                run.bounded.append({'what': 'native %s after an undecided run (refute mode only)' % rq['kind'], 'found': bool(out.get('violates'))})
                if out.get('violates'):
                    f = out.get('found') if isinstance(out.get('found'), dict) else out
                    out = dict(f, violates=True, request=f.get('request', rq))
                    break
            if out.get('violates'):
                ob = '%s/bounded/refute-search' % pid
                run.add(ob, 'refuted', 'native bounded search', 0, None, out.get('what', '')[:300])
                run.violation(ob, {'request': out.get('request', {'kind': 'api_history_case'}), 'native': out,
                                   'solver_output': 'undecided obligations: %s' % [u[0] for u in run.undecided][:10]}, True, what=out.get('what', ''))
        except Exception:
            pass
    code = run.finish()
    sys.exit(code)


if __name__ == '__main__':
    main()
