"""C01 - every 64-byte kd_buf record decodes exactly and totally.

Loop-free, full-domain proof: the record is 64 symbolic bytes, the real from_kd_buf is symbolically
executed (struct.unpack by its assumed contract), each postcondition of contracts/kevent.py is one
obligation; non-interference is a two-copy obligation per output field."""
import z3

from pyvc.harness import Session, fresh_bytes, model_bytes, discharge
from pyvc.report import native
from pyvc import solve
from pyvc.values import PyExc
from contracts import kevent as C

FN = C.FUNCTION


def _replay_call(kd, clause):
    return {'kind': 'call', 'module': 'pykdebugparser.kevent', 'func': 'from_kd_buf',
            'args': [{'$b': kd.hex()}], 'names': ['kd_buf'], 'clause': clause, 'spec': C.SPEC}


def run_check(run, tier):
    sess = Session()
    f = sess.func(FN)
    run.hashes.update(sess.repo.hashes)
    run.trusted += ['pyvc interpreter + VC generation', 'z3 5.1 / cvc5 1.0.3',
                    'assumed contract of struct.unpack/calcsize (sampled natively in thorough tier)',
                    'spec/kdebug.py (kd_buf layout, written from XNU bsd/sys/kdebug.h)']
    run.assumptions += ['Python ints unbounded -> SMT Int (exact); x & mask, x | y encoded with floor div/mod',
                        'struct.unpack(fmt, buf): raises struct.error iff len(buf) != calcsize(fmt); fields are '
                        'little/big-endian sums of the bytes at the offsets given by fmt (standard sizes)',
                        'namedtuple construction/field access as in CPython']

    def thunk(ctx):
        kd = fresh_bytes(ctx, 'kd_buf', 64)
        result = sess.it.call(f, [kd], {})
        fr = sess.spec_frame(*C.SPEC, kd_buf=kd, result=result)
        for name, expr in C.ENSURES.items():
            ctx.oblige('C01/from_kd_buf/post.' + name, sess.clause(expr, fr), info={'clause': expr})
        return result

    paths = sess.explore(thunk)
    # cover: the precondition (64 arbitrary bytes) is satisfiable, a canary must be refuted
    r, _ = solve.satisfiable(paths[0].pc if paths else [z3.BoolVal(False)])
    if r != z3.sat:
        run.engine_error('C01 cover: precondition unsatisfiable')
    else:
        cv = solve.prove(paths[0].pc, z3.BoolVal(False), 5000)
        if cv.status != 'refuted':
            run.engine_error('C01 canary was not refuted (contradictory hypotheses)')
    # totality: no path may end in an exception
    total_ok = True
    for p in paths:
        if p.outcome == 'raise':
            total_ok = False
            r, m = solve.satisfiable(p.pc)
            kd = model_bytes(m, 'kd_buf', 64) if m is not None else bytes(64)
            req = _replay_call(kd, 'raised is None')
            out = native(req)
            rep = out.get('raised') is not None
            run.add('C01/from_kd_buf/noraise', 'refuted', 'z3-5.1', 0, FN, '%s at %s' % (p.exc.cls_name, p.exc.site))
            run.violation('C01/from_kd_buf/noraise', {'request': req, 'native': out,
                                                      'solver_output': '%s raised at %s' % (p.exc.cls_name, p.exc.site)}, rep,
                          what='from_kd_buf raises %s on a 64-byte record' % p.exc.cls_name)
    if total_ok:
        n_sites = sum(len(p.discharged_sites) for p in paths)
        run.add('C01/from_kd_buf/noraise', 'proved', 'symbolic execution (no feasible raise site; %d sites discharged)' % n_sites,
                0, FN, kind='noraise')
    for p in paths:
        if p.outcome != 'return':
            continue
        for ob in p.obligations:
            v = discharge(run, ob.name, ob.pc, ob.goal, FN, tier)
            if v.status == 'refuted':
                kd = model_bytes(v.model, 'kd_buf', 64) if v.model is not None else bytes(64)
                req = _replay_call(kd, ob.info['clause'])
                out = native(req)
                rep = out.get('clause_holds') is False
                run.add(ob.name, 'refuted', v.backend, v.ms, FN, 'counterexample kd_buf=%s' % kd.hex())
                run.violation(ob.name, {'request': req, 'native': out, 'clause': ob.info['clause'],
                                        'solver_output': 'sat; kd_buf=' + kd.hex()}, rep,
                              what='clause %r fails' % ob.info['clause'])
    run.samples.append({'obligation': 'C01/from_kd_buf/post.eventid', 'clause': C.ENSURES['eventid'],
                        'input': 'kd_buf: 64 symbolic bytes (Int consts in 0..255)'})

    # non-interference, one two-copy obligation per output field
    def thunk2(ctx):
        a = fresh_bytes(ctx, 'a', 64)
        b = fresh_bytes(ctx, 'b', 64)
        ra = sess.it.call(f, [a], {})
        rb = sess.it.call(f, [b], {})
        for field, (lo, hi) in C.FIELD_RANGES.items():
            fr = sess.spec_frame(a=a, b=b, ra=ra, rb=rb)
            hyp = sess.clause('a[%d:%d] == b[%d:%d]' % (lo, hi, lo, hi), fr)
            goal = sess.clause('ra.%s == rb.%s' % (field, field), fr)
            ctx.oblige('C01/from_kd_buf/nonint.' + field, z3.Implies(hyp, goal),
                       info={'clause': '(a[%d:%d] != b[%d:%d]) or (ra.%s == rb.%s)' % (lo, hi, lo, hi, field, field)})
        return None

    for p in sess.explore(thunk2):
        if p.outcome != 'return':
            continue   # totality already reported above
        for ob in p.obligations:
            v = discharge(run, ob.name, ob.pc, ob.goal, FN, tier, kind='lemma')
            if v.status == 'refuted':
                a = model_bytes(v.model, 'a', 64)
                b = model_bytes(v.model, 'b', 64)
                req = {'kind': 'call2', 'module': 'pykdebugparser.kevent', 'func': 'from_kd_buf',
                       'args_a': [{'$b': a.hex()}], 'args_b': [{'$b': b.hex()}], 'clause': ob.info['clause'], 'spec': C.SPEC}
                out = native(req)
                rep = out.get('clause_holds') is False
                run.add(ob.name, 'refuted', v.backend, v.ms, FN, 'a=%s b=%s' % (a.hex(), b.hex()))
                run.violation(ob.name, {'request': req, 'native': out, 'clause': ob.info['clause'],
                                        'solver_output': 'sat'}, rep, what='field depends on bytes outside its own field')
    if tier == 'thorough':
        conformance_struct(run)


def conformance_struct(run):
    """sampled (not proved): the assumed contract of struct.unpack for the two formats used."""
    out = native({'kind': 'conf_struct', 'n': 20000, 'seed': run.seed})
    run.bounded.append({'what': 'assumed contract of struct.unpack sampled against CPython', 'result': out})
    if out.get('mismatches'):
        run.engine_error('struct.unpack assumed contract disagrees with CPython: %s' % out['mismatches'][:3])
