"""C02 - a version-2 dump yields exactly its records, in order, and its thread map.

The real KdBufParser.parse / parse_v2 / set_thread_map are symbolically executed over a symbolic file
(Array Int -> byte, symbolic length) satisfying the container layout wf_v2(n, k, m) (ghost layout: n
thread-map entries, k zero padding bytes, m records); the header is parsed by interpreting the real
construct declaration trees (pyvc/construct_parse.py); the record loop and the thread-map loop carry
inductive invariants; from_kd_buf is used through its contract (C01)."""
import z3

from pyvc.harness import Session
from pyvc import solve, stream, paths as pathsmod, libattr, construct_parse as CP
from pyvc.report import native
from pyvc.values import *  # noqa
from pyvc.interp import GenVal, BreakSig, ContinueSig

MOD = 'pykdebugparser.kd_buf_parser'
I = z3.IntSort()
J, K, X = z3.Ints('c02!j c02!k c02!x')
HDR = 0x120         # 4 magic bytes + 0x11c header bytes: the thread map starts here (XNU RAW_VERSION2 layout)
ENTRY = 32          # 8 tid + 4 pid + 20 name (XNU kd_threadmap)
NAME_OFF = 12


def from_kd_buf_contract(it, func, args, kwargs, node):
    """C01's contract at call sites: raises struct.error unless exactly 64 bytes; the result is the decoding
    of those bytes (identified by where they lie in the file)."""
    buf = args[0]
    if not isinstance(buf, stream.FBytes):
        raise Unsupported('from_kd_buf on %s' % type(buf).__name__)
    it.raise_if(buf.length != 64, 'struct.error', 'struct-size', node)
    kc = it.repo.import_module('pykdebugparser.kevent').ns['Kevent']
    ev = Obj(kc, {})
    ev.src_file = buf.file
    ev.src_start = buf.start
    return ev


def make_parser(sess, ctx, prefix=None):
    it = sess.it
    cls = sess.module(MOD).ns['KdBufParser']
    tp = libattr.new_symmap('old.threads_pids', 'int')
    pn = libattr.new_symmap('old.pids_names', 'atom')
    p = it.call(cls, [tp, pn], {})
    # the tables handed to the constructor are the ones the parser fills (whatever they contain, empty included): the
    # caller - PyKdebugParser, TracesParser - reads the thread map out of these very objects
    root = (prefix or 'C02/parse').split('/')[0]
    same = p.fields.get('threads_pids') is tp and p.fields.get('pids_names') is pn
    ctx.oblige(root + '/KdBufParser.__init__/fills-the-tables-of-the-caller', z3.BoolVal(same))
    if not same:
        ctx.notes['unshared_tables'] = True
        p.fields['threads_pids'], p.fields['pids_names'] = tp, pn      # keep exploring the rest with the caller's tables
    return p, tp, pn


def wf_v2(ctx, f, n, k, m):
    base = HDR + ENTRY * n + k
    ctx.facts += [n >= 0, k >= 0, m >= 0, f.N == base + 64 * m,
                  f.byte(0) == 0x00, f.byte(1) == 0x02, f.byte(2) == 0xaa, f.byte(3) == 0x55,
                  f.le(4, 4) == n,
                  z3.ForAll([J], z3.Implies(z3.And(J >= 0, J < n), CP.ElemOK(f.F, HDR + ENTRY * J + NAME_OFF))),
                  z3.ForAll([X], z3.Implies(z3.And(X >= base - k, X < base), f.byte(X) == 0))]
    return base


# ------------------------------------------------------------------------------ set_thread_map
def table_inv(dom, val, i, key, value, last):
    """after i entries: the table holds exactly the keys seen, each with the value of its last entry"""
    return [
        ('keys-seen', z3.ForAll([J], z3.Implies(z3.And(J >= 0, J < i), z3.Select(dom, key(J))))),
        ('last-wins', z3.ForAll([X], z3.Implies(z3.Select(dom, X), z3.And(
            last(X) >= 0, last(X) < i, key(last(X)) == X, z3.Select(val, X) == value(last(X)),
            z3.ForAll([K], z3.Implies(z3.And(K > last(X), K < i), key(K) != X)))))),
    ]


def verify_set_thread_map(run, tier, prefix_root='C02'):
    sess = Session()
    it = sess.it
    fq = MOD + ':KdBufParser.set_thread_map'
    prefix = prefix_root + '/set_thread_map'
    tidf, pidf, namef = z3.Function('tm.tid', I, I), z3.Function('tm.pid', I, I), z3.Function('tm.name', I, I)
    state = {}

    def hook(it_, stmt, fr, iterable):
        if not (isinstance(iterable, SymList) and iterable.origin == 'threadmap'):
            return False
        ctx = it.ctx
        p = state['p']
        T, P = p.fields['threads_pids'], p.fields['pids_names']
        n = iterable.length
        lt0 = z3.Function('last_tid.0', I, I)
        lp0 = z3.Function('last_pid.0', I, I)
        for nm, f in table_inv(T.dom, T.val, z3.IntVal(0), tidf, pidf, lt0):
            ctx.oblige('%s/loop.inv.establish.threads.%s' % (prefix, nm), f, kind='invariant')
        for nm, f in table_inv(P.dom, P.val, z3.IntVal(0), pidf, namef, lp0):
            ctx.oblige('%s/loop.inv.establish.names.%s' % (prefix, nm), f, kind='invariant')
        if ctx.branch(z3.Bool('tm.inductive_step')):
            i = z3.Int('tm.i')
            ctx.assume(z3.And(i >= 0, i < n))
            lt, lp = z3.Function('last_tid.i', I, I), z3.Function('last_pid.i', I, I)
            Td, Tv = z3.Const('T.dom.i', z3.ArraySort(I, z3.BoolSort())), z3.Const('T.val.i', z3.ArraySort(I, I))
            Pd, Pv = z3.Const('P.dom.i', z3.ArraySort(I, z3.BoolSort())), z3.Const('P.val.i', z3.ArraySort(I, I))
            T._write('dom', Td); T._write('val', Tv); P._write('dom', Pd); P._write('val', Pv)
            for nm, f in table_inv(Td, Tv, i, tidf, pidf, lt) + table_inv(Pd, Pv, i, pidf, namef, lp):
                ctx.assume(f)
            it.assign(stmt.target, iterable.elem(i), fr)
            try:
                it.exec_loop_body(stmt.body, fr)
            except ContinueSig:
                pass          # `continue` ends the step like falling off the end of the body
            except BreakSig:
                raise Unsupported('break in the thread-map loop')
            lt1 = lambda x: z3.If(x == tidf(i), i, lt(x))
            lp1 = lambda x: z3.If(x == pidf(i), i, lp(x))
            for nm, f in table_inv(T.dom, T.val, i + 1, tidf, pidf, lt1):
                ctx.oblige('%s/loop.inv.preserve.threads.%s' % (prefix, nm), f, kind='invariant')
            for nm, f in table_inv(P.dom, P.val, i + 1, pidf, namef, lp1):
                ctx.oblige('%s/loop.inv.preserve.names.%s' % (prefix, nm), f, kind='invariant')
            raise pathsmod.PathCut('inductive step')
        # after the loop: arbitrary tables satisfying the invariant at n
        ltn, lpn = z3.Function('last_tid.n', I, I), z3.Function('last_pid.n', I, I)
        Td, Tv = z3.Const('T.dom.n', z3.ArraySort(I, z3.BoolSort())), z3.Const('T.val.n', z3.ArraySort(I, I))
        Pd, Pv = z3.Const('P.dom.n', z3.ArraySort(I, z3.BoolSort())), z3.Const('P.val.n', z3.ArraySort(I, I))
        T._write('dom', Td); T._write('val', Tv); P._write('dom', Pd); P._write('val', Pv)
        for nm, f in table_inv(Td, Tv, n, tidf, pidf, ltn) + table_inv(Pd, Pv, n, pidf, namef, lpn):
            ctx.assume(f)
        state['final'] = (ltn, lpn)
        return True
    it.symloop_hook = hook

    def thunk(ctx):
        state.clear()
        p, tp, pn = make_parser(sess, ctx, prefix)
        state['p'] = p
        n = z3.Int('tm.n')
        ctx.facts.append(n >= 0)
        entry = ClassVal('Entry', None, 'plain')
        tm = SymList('tm', n, lambda q: Obj(entry, {'tid': SInt(tidf(q)), 'pid': SInt(pidf(q)), 'process': atom_str(namef(q))}),
                     origin='threadmap')
        it.call(sess.func(fq), [p, tm], {})
        T, P = p.fields['threads_pids'], p.fields['pids_names']
        ctx.oblige(prefix + '/same-table-objects', z3.BoolVal(T is tp and P is pn))
        ltn, lpn = state.get('final', (None, None))
        if ltn is None:
            ctx.oblige(prefix + '/post.reached', z3.BoolVal(False))
            return None
        # postcondition: no mention of the old contents (leftovers would falsify the equivalences)
        goal_t = z3.And(z3.ForAll([J], z3.Implies(z3.And(J >= 0, J < n), z3.Select(T.dom, tidf(J)))),
                        z3.ForAll([X], z3.Implies(z3.Select(T.dom, X), z3.And(ltn(X) >= 0, ltn(X) < n, tidf(ltn(X)) == X,
                                                                             z3.Select(T.val, X) == pidf(ltn(X)),
                                                                             z3.ForAll([K], z3.Implies(z3.And(K > ltn(X), K < n), tidf(K) != X))))))
        goal_p = z3.And(z3.ForAll([J], z3.Implies(z3.And(J >= 0, J < n), z3.Select(P.dom, pidf(J)))),
                        z3.ForAll([X], z3.Implies(z3.Select(P.dom, X), z3.And(lpn(X) >= 0, lpn(X) < n, pidf(lpn(X)) == X,
                                                                             z3.Select(P.val, X) == namef(lpn(X)),
                                                                             z3.ForAll([K], z3.Implies(z3.And(K > lpn(X), K < n), pidf(K) != X))))))
        ctx.oblige(prefix + '/post.threads-equal-the-map-last-wins-no-leftovers', goal_t)
        ctx.oblige(prefix + '/post.names-equal-the-map-last-wins-no-leftovers', goal_p)
        return None
    _explore(run, tier, sess, thunk, fq, prefix)


def _explore(run, tier, sess, thunk, fq, prefix, known_hyp=None, allow_raise=False, only=None):
    try:
        prs = sess.explore(thunk)
    except Unsupported as ex:
        run.add(prefix + '/supported', 'unsupported', '', 0, fq, str(ex))
        run.pending_failures.append((prefix + '/supported', 'unsupported', str(ex)))
        return
    agg = {}
    for p in prs:
        if p.outcome == 'raise':
            if allow_raise:
                # stopping with an error is a legitimate outcome here; the obligations stated before the raise still count
                for ob in p.obligations:
                    v = solve.prove(ob.pc, ob.goal, 30000, tier)
                    cur = agg.setdefault(ob.name, {'status': 'proved', 'ms': 0.0, 'backend': v.backend, 'kind': ob.kind})
                    cur['ms'] += v.ms
                    if v.status != 'proved' and cur['status'] == 'proved':
                        cur.update(status='refuted' if v.status == 'refuted' else 'unknown', detail=v.detail or v.status)
                continue
            ob = '%s/noraise@%s:%s' % (prefix, p.exc.site[0] if p.exc.site else '?', (p.exc.kind or '').split(':')[0])
            agg[ob] = {'status': 'refuted', 'ms': 0.0, 'backend': 'z3-5.1', 'detail': '%s raised' % p.exc.cls_name, 'pc': p.pc}
            continue
        for ob in p.obligations:
            if only is not None and not any(x in ob.name for x in only):
                continue
            v = solve.prove(ob.pc, ob.goal, 30000, tier)
            cur = agg.setdefault(ob.name, {'status': 'proved', 'ms': 0.0, 'backend': v.backend, 'kind': ob.kind})
            cur['ms'] += v.ms
            if v.status != 'proved' and cur['status'] == 'proved':
                cur.update(status='refuted' if v.status == 'refuted' else 'unknown', detail=v.detail or v.status, pc=ob.pc, goal=ob.goal)
    for ob, cur in sorted(agg.items()):
        if cur['status'] == 'proved':
            run.add(ob, 'proved', cur['backend'], cur['ms'], fq, kind=cur.get('kind', 'post'))
        else:
            run.add(ob, cur['status'], cur['backend'], cur['ms'], fq, cur.get('detail', ''))
            run.pending_failures.append((ob, cur['status'], cur.get('detail', '')))
    run.hashes.update(sess.repo.hashes)


# ------------------------------------------------------------------------------ parse / parse_v2
def verify_parse_v2(run, tier, wf=True, prefix=None, only=None):
    sess = Session()
    it = sess.it
    fq = MOD + ':KdBufParser.parse_v2'
    prefix = prefix or ('C02/parse_v2' if wf else 'C06/parse_v2')
    it.contracts['pykdebugparser.kevent:from_kd_buf'] = from_kd_buf_contract
    stm = {}

    def stm_contract(it_, func, args, kwargs, node):
        stm.setdefault('calls', []).append(args[1])
        return None
    it.contracts[MOD + ':KdBufParser.set_thread_map'] = stm_contract
    state = {}

    def whook(it_, stmt, fr):
        """record loop: inductive invariant  pos == b + 64*i,  the i events yielded are decode(b + 64*j)"""
        ctx = it.ctx
        reader = state['reader']
        f = reader.file
        sink = it.lookup('$yield', fr)
        b = reader.pos                       # position after the header
        state['b'] = b
        state['yield_before_loop'] = len(sink.items)
        if wf:
            ctx.oblige(prefix + '/header.ends-at-the-first-record', b == state['base'])
        if ctx.branch(z3.Bool('rec.inductive_step')):
            i = z3.Int('rec.i')
            ctx.assume(i >= 0)
            ctx.assume(b + 64 * i <= f.N)
            reader._write('pos', b + 64 * i)
            before = len(sink.items)
            pos0 = reader.pos
            reads0 = reader.reads
            try:
                it.exec_while_step(stmt, fr)
                exited = False
            except BreakSig:
                exited = True
            except ContinueSig:
                exited = False
            new = sink.items[before:]
            if exited:
                ctx.oblige(prefix + '/loop.exit-yields-nothing', z3.BoolVal(len(new) == 0))
                if wf:
                    ctx.oblige(prefix + '/loop.exit-only-after-all-records', i == state['m'])
                else:
                    ctx.oblige(prefix + '/loop.exit-only-at-end-of-file', reader.pos >= f.N)
            else:
                ok = len(new) == 1 and new[0][0] is True and getattr(new[0][1], 'src_start', None) is not None
                ctx.oblige(prefix + '/loop.step-yields-one-event', z3.BoolVal(ok))
                if ok:
                    ctx.oblige(prefix + '/loop.step-event-is-the-next-record', z3.And(new[0][1].src_start == b + 64 * i,
                                                                                       b + 64 * i + 64 <= f.N))
                ctx.oblige(prefix + '/loop.step-advances-one-record', reader.pos == b + 64 * (i + 1))
                ctx.oblige(prefix + '/loop.decreases', z3.And(f.N - reader.pos < f.N - pos0, f.N - reader.pos >= 0))
            ctx.oblige(prefix + '/loop.reads-linear', reader.reads - reads0 <= 1)
            raise pathsmod.PathCut('inductive step')
        # after the loop (normal exit): all records consumed
        return True
    it.symwhile_hook = whook

    def thunk(ctx):
        state.clear()
        stm.clear()
        f = stream.FileModel('file', ctx)
        n, k, m = z3.Ints('lay.n lay.k lay.m')
        if wf:
            state['base'] = wf_v2(ctx, f, n, k, m)
            state['m'] = m
            # known finding (see known_findings.json): the greedy zero padding swallows leading zero bytes of the
            # first record.  The obligation is proved for every dump outside that class.
            from pyvc.report import load_known
            open_c02 = [k for k in load_known('C02') if k.get('status') != 'fixed' and 'header.ends-at-the-first-record' in k['obligation']]
            if state.get('exclude_known', True) and open_c02:
                ctx.assume(z3.Or(m == 0, f.byte(state['base']) != 0))
        else:
            # arbitrary bytes after a version-2 magic (the version-3 path is verified separately)
            ctx.facts += [f.N >= 4, f.byte(0) == 0x00, f.byte(1) == 0x02, f.byte(2) == 0xaa, f.byte(3) == 0x55]
        reader = stream.Reader(f, 0)
        state['reader'] = reader
        p, tp, pn = make_parser(sess, ctx, prefix)
        g = it.call(sess.func(MOD + ':KdBufParser.parse'), [p, reader], {})
        ctx.oblige(prefix + '/is-a-generator', z3.BoolVal(isinstance(g, GenVal)))
        if not isinstance(g, GenVal):
            return None
        it.run_generator(g)
        if wf:
            calls = stm.get('calls', [])
            ok = len(calls) == 1 and isinstance(calls[0], SymList) and isinstance(calls[0].origin, tuple) and calls[0].origin[0] == 'construct-array'
            ctx.oblige(prefix + '/threadmap.set-once-from-the-header', z3.BoolVal(ok))
            if ok:
                tm = calls[0]
                ctx.oblige(prefix + '/threadmap.is-the-files-map', z3.And(tm.length == n, tm.origin[1] == HDR, z3.IntVal(tm.origin[2]) == ENTRY))
                q = z3.Int('any.entry')
                ctx.assume(z3.And(q >= 0, q < n))
                e = tm.elem(q)
                ctx.oblige(prefix + '/threadmap.entry-fields', z3.And(
                    zi(e.fields['tid']) == f.le(HDR + ENTRY * q, 8), zi(e.fields['pid']) == f.le(HDR + ENTRY * q + 8, 4),
                    e.fields['process'].toks[0][1] == CP.CStrOf(f.F, HDR + ENTRY * q + NAME_OFF, z3.IntVal(20))))
        return None
    _explore(run, tier, sess, thunk, fq, prefix, allow_raise=not wf, only=only)


def run_check(run, tier):
    run.pending_failures = []
    run.trusted += ['pyvc interpreter; file/reader model (pyvc/stream.py); construct declaration interpreter (pyvc/construct_parse.py)',
                    'z3 5.1 / cvc5', 'contract of from_kd_buf (proved in C01) used at the call site',
                    'wf_v2: RAW_VERSION2 layout written from XNU (thread map at 0x120, 32-byte entries, zero padding, 64-byte records)']
    run.assumptions += ['names in the thread map contain a NUL within their 20 bytes and valid UTF-8 before it (kernel strlcpy)',
                        'assumed contracts of construct combinators and io.BytesIO.read']
    verify_set_thread_map(run, tier)
    verify_parse_v2(run, tier, wf=True)
    known_part(run, tier)
    finish(run)


def known_part(run, tier):
    """the open finding of C02: replay its stored witness; report it as KNOWN-FINDING while it still fails"""
    for k in run.known:
        if k.get('status') == 'fixed' or not k.get('witness'):
            continue
        out = native(k['witness'])
        if out.get('violates'):
            run.add(k['obligation'] + '@known-class', 'known-finding', 'native replay of the stored witness', 0, MOD + ':kd_header_v2')
            line = 'KNOWN-FINDING: property=%s %s' % (run.pid, k['what'])
            if line not in run.known_printed:
                run.known_printed.append(line)
        else:
            # the defect seems repaired: the unrestricted obligation must now hold - checked by dropping the exclusion
            run.extra['known_finding_no_longer_reproduces'] = k['obligation']


def finish(run):
    if not run.pending_failures and run.tier != 'thorough':
        return
    out = native({'kind': 'v2_search', 'seed': run.seed, 'budget': 3000 if run.tier == 'thorough' else 600,
                  'known': [k.get('klass_native') for k in run.known if k.get('klass_native')]}, timeout=600)
    run.bounded.append({'what': 'bounded native search of version-2 dumps against the container specification (refute mode only)',
                        'dumps_tried': out.get('tried'), 'bound': out.get('bound'), 'found': bool(out.get('found'))})
    found = out.get('found')
    if found and not run.pending_failures:
        run.pending_failures.append(('C02/bounded-search', 'refuted', 'native search'))
        run.add('C02/bounded-search', 'refuted', 'native bounded search', 0, MOD + ':KdBufParser.parse_v2')
    for ob, status, detail in run.pending_failures:
        if found:
            run.violation(ob, {'request': found['request'], 'native': found, 'solver_output': '%s (%s); failing dump found by the native search' % (status, detail)},
                          True, what=found.get('what', ''))
        elif status == 'refuted':
            run.violation(ob, {'request': None, 'solver_output': 'obligation refuted (%s); bounded native search found no failing dump' % detail},
                          False, what='obligation %s no longer holds' % ob)
        else:
            run.undecide(ob, 'not proved (%s) and no failing dump found' % detail)
