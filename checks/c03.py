"""C03 - a version-3 dump yields all chunked events, then logs, plus metadata sections.

parse_v3 is symbolically executed over a symbolic file.  Its loops are cut by inductive invariants over a
ghost layout (chunk starts cs(i), record counts cn(i), event bases ob(i)); seek_until is used through its
contract (proved on its real body, see verify_seek_until in checks/c06.py); from_kd_buf, set_thread_map and
OsLogEvent.from_raw_log_event through theirs (C01, C02, C16).  The block dispatch loop and the log loop are
verified step-wise: for an arbitrary block / log record and arbitrary accumulator state, the loop body
performs exactly the specified update.  The block scanner GreedyRange(Struct(tag, Select(Aligned(8, Prefixed), Prefixed))) is verified by a loop rule over a ghost
block layout (the real declaration parses each block in place; the repetition stops at the end of the file)."""
import sys
import z3

from pyvc.harness import Session
from pyvc import solve, stream, paths as pathsmod, libattr, construct_parse as CP
from pyvc.report import native
from pyvc.values import *  # noqa
from pyvc.interp import BreakSig, ContinueSig, GenVal
from pyvc.libops import OpaqueVal
from checks import c02

MOD = 'pykdebugparser.kd_buf_parser'
I = z3.IntSort()
Q, J = z3.Ints('c03!q c03!j')

EVENTS_TAG = b'\x00\x1e\x00\x00\x00\x00\x00\x00'
MORE_EVENTS = b'\x00\x20\x00\x00\x00\x00\x00\x00'


def occurs_at(f, q, data):
    return z3.And([f.byte(q + k) == b for k, b in enumerate(data)] + [q + len(data) <= f.N, q >= 0])


class OpaqueSeq:
    """a list we only know by name (iterated through a loop rule)"""

    def __init__(self, kind):
        self.kind = kind

    def py_getitem(self, it, i, node=None):
        raise Unsupported('subscript of an opaque list')


class SymRange:
    """range(n) with symbolic n: iterated only through a loop rule"""

    def __init__(self, n):
        self.n = n

    def py_getitem(self, it, i, node=None):
        raise Unsupported('subscript of symbolic range')


def install_range(it):
    def _range(it_, args, kw, n):
        if all(isinstance(a, int) for a in args):
            return range(*args)
        if len(args) == 1:
            return SymRange(zi(args[0]))
        raise Unsupported('range with several symbolic bounds')
    it.builtins['range'] = Builtin('range', _range)


def seek_contract(total, state=None, prefix='C03/parse_v3'):
    """call-site contract of seek_until (proved on the body: C03/seek_until/*, C06/seek_until/*):
    requires (partial form): `data` occurs at w >= pos and nowhere in [pos, w)  -> the reader ends at w + len(data);
    total form (no precondition): either that, or the call does not return normally (end of file reached).
    Under wf_v3 the witness w of each call is the ghost layout's position for that scan (state['witness'])."""
    def c(it, func, args, kwargs, node):
        reader, data = args[0], args[1]
        if not isinstance(data, bytes):
            raise Unsupported('seek_until with symbolic pattern')
        ctx = it.ctx
        f = reader.file
        if not total:
            w = state['witness'](data)
            if w is None:
                raise Unsupported('seek_until call without a layout witness')
            nm = '%s/seek.%s' % (prefix, data[:2].hex() if data[0] == 0 else 'stackshot')
            ctx.oblige(nm + '.pre.occurrence-ahead', z3.And(w >= reader.pos, occurs_at(f, w, data)))
            ctx.oblige(nm + '.pre.first-occurrence', z3.ForAll([Q], z3.Implies(z3.And(Q >= reader.pos, Q < w), z3.Not(occurs_at(f, Q, data)))))
            reader._write('pos', z3.simplify(w + len(data)))
            reader._write('reads', reader.reads + 1)
            return None
        ps = z3.Int(ctx.fresh('occ'))
        if ctx.branch(z3.Bool(ctx.fresh('seek.found'))):
            ctx.assume(z3.And(ps >= reader.pos, ps + len(data) <= f.N))
            reader._write('pos', z3.simplify(ps + len(data)))
            reader._write('reads', reader.reads + 1)
            return None
        raise PyExc('EOFError', 'pattern not found', site=(getattr(node, 'lineno', None), 'seek-eof'), kind='seek-eof')
    return c


def verify_chunk_loops(run, tier, wf=True, prefix='C03/parse_v3', only=None):
    sess = Session()
    it = sess.it
    install_range(it)
    fq = MOD + ':KdBufParser.parse_v3'
    it.contracts['pykdebugparser.kevent:from_kd_buf'] = c02.from_kd_buf_contract
    stm = {}
    it.contracts[MOD + ':KdBufParser.set_thread_map'] = lambda it_, f_, a, k, n: stm.setdefault('calls', []).append(a[1])
    state = {}
    it.contracts[MOD + ':seek_until'] = seek_contract(total=not wf, state=state, prefix=prefix)
    cs, cn, ob = z3.Function('lay.cs', I, I), z3.Function('lay.cn', I, I), z3.Function('lay.ob', I, I)
    Kc = z3.Int('lay.K')

    def while_hook(it_, stmt, fr):
        """chunk loop"""
        ctx = it.ctx
        reader = state['reader']
        f = reader.file
        sink = it.lookup('$yield', fr)
        if state.get('in_chunk_loop'):
            return False
        state['in_chunk_loop'] = True
        if wf:
            ctx.oblige(prefix + '/chunks.search-starts-before-the-first-chunk', z3.And(reader.pos <= cs(0), reader.pos >= 0))
            ctx.oblige(prefix + '/chunks.nothing-yielded-before', z3.BoolVal(len(sink.items) == 0))
        if ctx.branch(z3.Bool('chunk.inductive_step')):
            i = z3.Int('chunk.i')
            ph = z3.Int('chunk.pos')
            ctx.assume(z3.And(ph >= 0, ph <= f.N))
            if wf:
                ctx.assume(z3.And(i >= 0, i < Kc, ph <= cs(i)))
                ctx.assume(z3.ForAll([Q], z3.Implies(z3.And(Q >= ph, Q < cs(i)), z3.Not(occurs_at(f, Q, EVENTS_TAG)))))
                for fct in chunk_facts(f, cs, cn, Kc, i):       # use(wf.chunk, i): explicit instance of the layout hypothesis
                    ctx.assume(fct)
                state['witness'] = lambda data, i=i: cs(i) if data == EVENTS_TAG else None
            reader._write('pos', ph)
            state['chunk_i'] = i
            before = len(sink.items)
            try:
                it.exec_while_step(stmt, fr)
                exited = False
            except BreakSig:
                exited = True
            if wf:
                yielded = state.get('chunk_yield')
                ok = yielded is not None and yielded[0] is sink and state.get('inner_done')
                ctx.oblige(prefix + '/chunk.records-loop-reached', z3.BoolVal(bool(ok)))
                ctx.oblige(prefix + '/chunk.last-chunk-ends-the-loop', z3.BoolVal(exited) == (i == Kc - 1))
                if not exited:
                    ctx.oblige(prefix + '/chunk.next-search-starts-before-next-chunk', z3.And(reader.pos <= cs(i + 1), reader.pos > cs(i)))
                    ctx.oblige(prefix + '/chunk.no-events-tag-skipped',
                               z3.ForAll([Q], z3.Implies(z3.And(Q >= reader.pos, Q < cs(i + 1)), z3.Not(occurs_at(f, Q, EVENTS_TAG)))))
            ctx.oblige(prefix + '/chunk.decreases', z3.And(f.N - reader.pos < f.N - ph, reader.pos <= f.N + 8), kind='variant')
            raise pathsmod.PathCut('chunk step')
        # after the loop: position right after the last chunk's trailer
        if wf:
            reader._write('pos', cs(Kc - 1) + 24 + 64 * cn(Kc - 1) + 8)
        else:
            px = z3.Int('after.pos')
            ctx.assume(z3.And(px >= 0))
            reader._write('pos', px)
        state['after_chunks'] = True
        return True

    def for_hook(it_, stmt, fr, iterable):
        ctx = it.ctx
        reader = state['reader']
        f = reader.file
        if isinstance(iterable, SymRange):
            sink = it.lookup('$yield', fr)
            i = state.get('chunk_i')
            n = iterable.n
            p0 = reader.pos
            if wf:
                ctx.oblige(prefix + '/records.count-is-the-chunks', n == cn(i))
                ctx.oblige(prefix + '/records.start-after-the-chunk-header', p0 == cs(i) + 24)
            if ctx.branch(z3.Bool('rec.inductive_step')):
                r = z3.Int('rec.r')
                ctx.assume(z3.And(r >= 0, r < n))
                if not wf:
                    ctx.assume(p0 + 64 * r <= f.N)
                reader._write('pos', p0 + 64 * r)
                before = len(sink.items)
                it.assign(stmt.target, SInt(r), fr)
                try:
                    it.exec_loop_body(stmt.body, fr)
                except ContinueSig:
                    pass          # `continue` ends the step like falling off the end of the body
                except BreakSig:
                    raise Unsupported('break in the record loop')
                new = sink.items[before:]
                ok = len(new) == 1 and new[0][0] is True and getattr(new[0][1], 'src_start', None) is not None
                ctx.oblige(prefix + '/records.step-yields-one-event', z3.BoolVal(ok))
                if ok:
                    ctx.oblige(prefix + '/records.step-event-is-a-complete-record-at-its-place',
                               z3.And(new[0][1].src_start == p0 + 64 * r, p0 + 64 * r + 64 <= f.N))
                ctx.oblige(prefix + '/records.step-advances-one-record', reader.pos == p0 + 64 * (r + 1))
                raise pathsmod.PathCut('record step')
            reader._write('pos', z3.simplify(p0 + 64 * n))
            if not wf:
                ctx.assume(p0 + 64 * n <= f.N)      # all n iterations completed without raising
            state['chunk_yield'] = (sink, p0, n)
            state['inner_done'] = True
            return True
        return step_hooks(it, stmt, fr, iterable, state, prefix, wf)
    it.symwhile_hook = while_hook
    it.symloop_hook = for_hook
    it.greedy_hook = lambda it_, d, reader, ctxobj, node: blocks_contract(it_, reader, state, d if wf else None, ctxobj, node, prefix)

    def thunk(ctx):
        state.clear()
        stm.clear()
        f = stream.FileModel('file', ctx)
        reader = stream.Reader(f, 4)
        state['reader'] = reader
        if wf:
            wf_v3(ctx, f, cs, cn, ob, Kc, state)
        p, tp, pn = c02.make_parser(sess, ctx, prefix)
        state['parser'] = p
        g = it.call(sess.func(fq), [p, reader], {})
        if not isinstance(g, GenVal):
            ctx.oblige(prefix + '/is-a-generator', z3.BoolVal(False))
            return None
        it.run_generator(g)
        if wf:
            post_metadata(ctx, state, p, prefix, stm)
        return None
    c02._explore(run, tier, sess, thunk, fq, prefix, allow_raise=not wf, only=only)
    return sess


def chunk_facts(f, cs, cn, Kc, i):
    end = cs(i) + 24 + 64 * cn(i)
    return [occurs_at(f, cs(i), EVENTS_TAG), cn(i) >= 0, f.le(cs(i) + 8, 8) == 8 + 64 * cn(i), end + 8 <= f.N,
            occurs_at(f, end, MORE_EVENTS) == (i < Kc - 1),
            z3.Implies(i < Kc - 1, cs(i + 1) >= end + 8),
            z3.Implies(i < Kc - 1, z3.ForAll([Q], z3.Implies(z3.And(Q >= end + 8, Q < cs(i + 1)), z3.Not(occurs_at(f, Q, EVENTS_TAG)))))]


def wf_v3(ctx, f, cs, cn, ob, Kc, state):
    """ghost layout of a RAW_VERSION3 dump (what the scans rely on is stated explicitly)"""
    hl = z3.Int('lay.cpu_plist_len')
    ctx.facts += [hl >= 0, f.le(64, 8) == hl]      # 4 magic + 60 fixed header bytes, then the plist length
    consumed = 68 + hl
    pad = (-consumed) % 8
    pos_h = 4 + consumed + pad + 4
    nt = z3.Int('lay.threads')
    ps, pt = z3.Ints('lay.stackshot_end lay.threadmap_tag')
    TM = b'\x00\x1d\x00\x00\x00\x00\x00\x00'
    SS = b'stackshot_out_fl'
    ctx.facts += [nt >= 0, ps >= pos_h, pt >= ps + 16, f.le(pt + 8, 8) == 32 * nt,
                  z3.ForAll([J], z3.Implies(z3.And(J >= 0, J < nt), CP.ElemOK(f.F, pt + 16 + 32 * J + 12))),
                  Kc >= 1, pos_h <= f.N, pt + 16 + 32 * nt <= f.N]
    state['lay'] = dict(pos_h=pos_h, ps=ps, pt=pt, nt=nt)
    sp0 = pt + 16 + 32 * nt
    ctx.facts += [
        occurs_at(f, ps, SS),
        z3.ForAll([Q], z3.Implies(z3.And(Q >= pos_h, Q < ps), z3.Not(occurs_at(f, Q, SS)))),
        occurs_at(f, pt, TM),
        z3.ForAll([Q], z3.Implies(z3.And(Q >= ps + 16, Q < pt), z3.Not(occurs_at(f, Q, TM)))),
        cs(0) >= sp0,
        z3.ForAll([Q], z3.Implies(z3.And(Q >= sp0, Q < cs(0)), z3.Not(occurs_at(f, Q, EVENTS_TAG)))),
    ]
    ctx.facts += chunk_facts(f, cs, cn, Kc, Kc - 1)
    state['witness'] = lambda data: ps if data == SS else (pt if data == TM else None)


# ------------------------------------------------------------------------------ blocks and logs (step-wise)
TAGS = {'TRACEV3_DYLD_MODULES': 'dyld_modules', 'TRACEV3_TRACE_CODES': 'trace_codes', 'TRACEV3_PROCESSES': 'processes',
        'TRACEV3_KERNEL_EXTENSIONS': 'kernel_extensions', 'TRACEV3_IMAGES': 'images', 'TRACEV3_LOG_EVENTS': 'log_events',
        'TRACEV3_LOG_STRINGS': 'log_strings'}


def acc_slots(it, fr, state):
    """access paths of the two accumulators of the block loop that are not attributes of the parser - the list of raw log
    records and the string index - found by their initial values ([] and {}) among the locals and the fields of objects held in
    locals; remembered for the rest of the run"""
    if 'acc_slots' in state:
        return state['acc_slots']

    def paths_of(pred):
        out = []
        for nm, v in list(fr.vars.items()):
            if nm.startswith('$') or nm == 'self':
                continue
            if pred(v):
                out.append((nm, None))
            if isinstance(v, Obj) and v.cls.kind in ('plain', 'dataclass'):
                for f_, fv in v.fields.items():
                    if pred(fv):
                        out.append((nm, f_))
        return out
    lists = paths_of(lambda v: isinstance(v, PList) and v.is_concrete() and not v.values())
    dicts = paths_of(lambda v: isinstance(v, PDict) and not v.keys())
    if len(lists) != 1 or len(dicts) != 1:
        raise Unsupported('the block loop of parse_v3 keeps its log accumulators in %d list(s) and %d dict(s): the loop rule of the '
                          'contract does not apply to this shape' % (len(lists), len(dicts)))
    state['acc_slots'] = {'log_events': lists[0], 'log_strings': dicts[0]}
    return state['acc_slots']


def slot_get(it, fr, state, what):
    nm, f_ = acc_slots(it, fr, state)[what]
    v = it.lookup(nm, fr)
    return v if f_ is None else v.fields.get(f_)


def slot_set(it, fr, state, what, val):
    nm, f_ = acc_slots(it, fr, state)[what]
    if f_ is None:
        fr.set(nm, val)
    else:
        it.lookup(nm, fr).setattr(f_, val)



def blocks_contract(it, reader, state, d=None, ctxobj=None, node=None, prefix='C03/parse_v3'):
    """loop rule for the block scanner GreedyRange(Struct('tag'/Bytes(8), 'data'/Select(Aligned(8, Prefixed(Int64ul,
    GreedyBytes)), Prefixed(Int64ul, GreedyBytes)))) over the ghost block layout: nb blocks at offsets bo(j) with payload
    lengths bl(j); every block but possibly the last is padded to 8 bytes; the file ends after the last block.
      step : at bo(j) the *real declaration* parses to (tag = file[bo(j):+8], data = file[bo(j)+16 : +bl(j)]) and leaves
             the reader at bo(j+1);
      exit : at the end of the file the element parse fails, so the repetition stops there.
    The result is then the list of those blocks."""
    ctx = it.ctx
    f = reader.file
    nb = z3.Int('blocks.n')
    bo, bl = z3.Function('blocks.off', I, I), z3.Function('blocks.len', I, I)
    lastpad = z3.Bool('blocks.last_padded')
    start = reader.pos
    j = z3.Int('blk!j')
    padof = lambda q: (-(8 + bl(q))) % 8
    nxt = lambda q: bo(q) + 16 + bl(q) + z3.If(z3.Or(q < nb - 1, lastpad), padof(q), 0)
    ctx.facts += [nb >= 0, bo(0) == start,
                  z3.ForAll([j], z3.Implies(z3.And(j >= 0, j < nb), z3.And(bl(j) >= 0, f.le(bo(j) + 8, 8) == bl(j), bo(j + 1) == nxt(j),
                                                                         bo(j + 1) <= f.N))),
                  bo(nb) == f.N]
    cls = ClassVal('Container', None, 'plain')
    state['blocks_start'] = start
    if d is not None and ctx.branch(z3.Bool('blocks.inductive_step')):
        q = z3.Int('blocks.j')
        ctx.assume(z3.And(q >= 0, q < nb))
        for fct in (bl(q) >= 0, f.le(bo(q) + 8, 8) == bl(q), bo(q + 1) == nxt(q), bo(q + 1) <= f.N, bo(q) >= start):
            ctx.assume(fct)          # use(layout, q)
        ctx.oblige(prefix + '/scanner.lemma.padding-is-0-to-7-bytes', z3.And(padof(q) >= 0, padof(q) < 8, (8 + bl(q) + padof(q)) % 8 == 0))
        ctx.assume(z3.And(padof(q) >= 0, padof(q) < 8, (8 + bl(q) + padof(q)) % 8 == 0))
        reader._write('pos', bo(q))
        try:
            v = CP.parse(it, d.args[0], reader, ctxobj, node)
        except PyExc as ex:
            ctx.oblige(prefix + '/scanner.step-parses-the-block', z3.BoolVal(False), info={'raised': ex.cls_name})
            raise pathsmod.PathCut('scanner step raised')
        tg, dt = v.fields.get('tag'), v.fields.get('data')
        ok = isinstance(tg, stream.FBytes) and isinstance(dt, stream.FBytes)
        ctx.oblige(prefix + '/scanner.step-parses-the-block', z3.BoolVal(bool(ok)))
        if ok:
            ctx.oblige(prefix + '/scanner.step-tag-and-payload', z3.And(tg.start == bo(q), tg.length == 8, dt.start == bo(q) + 16, dt.length == bl(q)))
            ctx.oblige(prefix + '/scanner.step-next-block', reader.pos == bo(q + 1))
        raise pathsmod.PathCut('scanner step')
    if d is not None and ctx.branch(z3.Bool('blocks.exit_step')):
        reader._write('pos', f.N)
        try:
            CP.parse(it, d.args[0], reader, ctxobj, node)
            ctx.oblige(prefix + '/scanner.stops-at-the-end-of-the-file', z3.BoolVal(False))
        except PyExc:
            ctx.oblige(prefix + '/scanner.stops-at-the-end-of-the-file', z3.BoolVal(True))
        raise pathsmod.PathCut('scanner exit')

    def elem(q):
        ctx.facts.append(z3.And(bo(q) >= 0, bl(q) >= 0, bo(q) + 16 + bl(q) <= f.N, stream.ValidText(f.F, bo(q) + 16, bl(q))))
        return Obj(cls, {'tag': stream.FBytes(f, bo(q), 8), 'data': stream.FBytes(f, bo(q) + 16, bl(q))})
    reader._write('pos', f.N)
    lst = SymList('blocks', nb, elem, origin='blocks')
    state['blocks'] = lst
    return lst


def step_hooks(it, stmt, fr, iterable, state, prefix, wf):
    ctx = it.ctx
    if isinstance(iterable, SymList) and iterable.origin == 'blocks':
        return block_step(it, stmt, fr, iterable, state, prefix)
    if isinstance(iterable, OpaqueSeq) and iterable.kind == 'loglist':
        return log_step(it, stmt, fr, iterable, state, prefix)
    return False


def block_step(it, stmt, fr, blocks, state, prefix):
    """for an arbitrary block and arbitrary accumulators the loop body performs the specified update"""
    ctx = it.ctx
    p = state['parser']
    mod = it.repo.import_module(MOD)
    acc_slots(it, fr, state)          # resolved at the loop's entry, where both accumulators still have their initial values
    if not ctx.branch(z3.Bool('block.inductive_step')):
        # after the loop: accumulators are whatever the fold produced (opaque); continue with the log loop
        slot_set(it, fr, state, 'log_events', OpaqueSeq('loglist'))
        slot_set(it, fr, state, 'log_strings', OpaqueVal('logstrings', ('after-blocks',)))
        return True
    b = z3.Int('block.b')
    ctx.assume(z3.And(b >= 0, b < blocks.length))
    blk = blocks.elem(b)
    # arbitrary accumulator state
    acc = {'trace_codes': atom_str(z3.Int('acc.trace_codes')),
           'kernel_binaries': OpaqueVal('acc', ('kernel_binaries',)), 'dyld': OpaqueVal('acc', ('dyld_modules',)),
           'log_events': OpaqueVal('acc', ('log_events',)), 'log_strings': OpaqueVal('acc', ('log_strings',))}
    rec = []
    finalize = install_accumulator_model(it, fr, p, acc, rec, ctx, state)
    it.assign(stmt.target, blk, fr)
    try:
        it.exec_loop_body(stmt.body, fr)
    except ContinueSig:
        pass          # `continue` ends the step like falling off the end of the body
    except BreakSig:
        raise Unsupported('break in the block loop')
    finalize()
    # which tag matched on this path?
    tag = blk.fields['tag']
    matched = None
    for cname in TAGS:
        const = mod.ns[cname]
        from pyvc.paths import _has_quantifier
        r, _ = solve.satisfiable([g for g in ctx.full_pc() if not _has_quantifier(g)] + [z3.Not(tag.equals_const(const))], 3000)
        if r == z3.unsat:
            matched = cname
    expect = {
        'TRACEV3_DYLD_MODULES': [('dyld', None)],
        'TRACEV3_TRACE_CODES': [('trace_codes', 'append-text')],
        'TRACEV3_PROCESSES': [('processes', 'assign-plist')],
        'TRACEV3_KERNEL_EXTENSIONS': [('kernel_binaries', 'extend-Binaries')],
        'TRACEV3_IMAGES': [('images', 'assign-plist')],
        'TRACEV3_LOG_EVENTS': [('log_events', 'extend-Events')],
        'TRACEV3_LOG_STRINGS': [('log_strings', 'assign-inverted-StringIndex')],
        None: [],
    }[matched]
    got = sorted(set((k, how) for k, how, _ in rec))
    want = sorted((k, how) for k, how in expect if how is not None)
    if matched == 'TRACEV3_DYLD_MODULES':
        ok = all(k == 'dyld' for k, _, _ in rec) and len(rec) >= 1
        ctx.oblige(prefix + '/blocks.step.TRACEV3_DYLD_MODULES', z3.BoolVal(ok))
    else:
        import os
        if os.environ.get('PYVC_DEBUG') and got != want:
            print('DEBUG block step', matched, got, want, file=sys.stderr)
        ctx.oblige(prefix + '/blocks.step.%s' % (matched or 'other-tag-ignored'), z3.BoolVal(got == want))
        for k, how, src in rec:
            if src is not None:
                ctx.oblige(prefix + '/blocks.step.%s.payload-is-the-blocks' % (matched or 'other'), z3.BoolVal(src is blk.fields['data']))
    raise pathsmod.PathCut('block step')


class AccList:
    """list-valued accumulator: records extend() calls"""

    def __init__(self, name, rec):
        self.name, self.rec = name, rec

    def py_getattr(self, it, name, node=None):
        if name == 'extend':
            def ext(it_, a, k, n):
                v = a[0]
                how, src = describe_plist_item(v)
                self.rec.append((self.name, 'extend-' + how, src))
            return Builtin('acc.extend', ext)
        raise Unsupported('accumulator method ' + name)

    def py_getitem(self, it, i, node=None):
        raise Unsupported('subscript of accumulator')


def describe_plist_item(v):
    """('Binaries' | 'Events' | ..., payload FBytes) for plistlib.loads(payload)[key]"""
    if isinstance(v, OpaqueVal) and v.kind == 'plist.item':
        inner, key = v.args
        if isinstance(inner, OpaqueVal) and inner.kind == 'plist':
            return str(key), inner.args[0]
    return 'unknown', None


def install_accumulator_model(it, fr, p, acc, rec, ctx, state):
    """bind the loop's accumulators to recording models (arbitrary prior contents)"""
    class KextDict:
        def py_getitem(self, it_, k, node=None):
            if k == 'Binaries':
                return AccList('kernel_binaries', rec)
            raise Unsupported('kernel_extensions[%r]' % (k,))

    class DyldDict:
        """self.dyld_modules: empty or already filled (arbitrary)"""

        def __init__(self):
            self.nonempty = z3.Bool('acc.dyld.nonempty')

        def py_truth(self, it_):
            return self.nonempty

        def py_getattr(self, it_, name, node=None):
            if name == 'update':
                return Builtin('acc.update', lambda i_, a, k, n: rec.append(('dyld', 'update', getattr(a[0], 'args', [None])[0])))
            raise Unsupported('dyld_modules.' + name)

        def py_getitem(self, it_, k, node=None):
            if k == 'Binaries':
                return AccList('dyld', rec)
            raise Unsupported('dyld_modules[%r]' % (k,))
    p.fields['kernel_extensions'] = KextDict()
    p.fields['dyld_modules'] = DyldDict()
    p.fields['trace_codes'] = acc['trace_codes']
    slot_set(it, fr, state, 'log_events', AccList('log_events', rec))
    slot_set(it, fr, state, 'log_strings', acc['log_strings'])
    # attribute / variable assignments are observed afterwards by comparing with these initial objects
    watch = {'trace_codes': p.fields['trace_codes'], 'processes': p.fields.get('processes'), 'images': p.fields.get('images')}
    orig_setattr = it.lib.setattr_

    def post():
        pass
    # wrap: record assignments to processes / images / trace_codes / log_strings after the body has run
    def finalize():
        for nm in ('processes', 'images'):
            v = p.fields.get(nm)
            if v is not watch[nm]:
                src = v.args[0] if isinstance(v, OpaqueVal) and v.kind == 'plist' else None
                rec.append((nm, 'assign-plist', src))
        tc = p.fields.get('trace_codes')
        if tc is not watch['trace_codes']:
            how, src = 'append-text', None
            toks = getattr(tc, 'toks', ())
            okshape = len(toks) == 2 and toks[0] == ('atom', z3.Int('acc.trace_codes')) and toks[1][0] == 'atom'
            rec.append(('trace_codes', how if okshape else 'other', None))
        ls = slot_get(it, fr, state, 'log_strings')
        if ls is not acc['log_strings']:
            rec.append(('log_strings', 'assign-inverted-StringIndex' if inverted_string_index(ls) else 'other',
                        inverted_string_index(ls) or None))
    return finalize


def inverted_string_index(v):
    """payload if v is {v: k for k, v in plistlib.loads(payload)['StringIndex'].items()} (recorded structurally)"""
    if isinstance(v, OpaqueVal) and v.kind == 'comp':
        kind, src, shape = v.args
        if kind == 'dict' and shape == ('swap',) and isinstance(src, OpaqueVal) and src.kind == 'plist.items':
            inner = src.args[0]
            how, payload = describe_plist_item(inner)
            if how == 'StringIndex':
                return payload
    return None


def log_step(it, stmt, fr, loglist, state, prefix):
    ctx = it.ctx
    p = state['parser']
    sink = it.lookup('$yield', fr)
    if not ctx.branch(z3.Bool('log.inductive_step')):
        return True
    raw = OpaqueVal('rawlog', ('arbitrary',))
    calls = []

    def frle(it_, func, args, kwargs, node):
        calls.append((args[-2], args[-1]))
        mod_ = it.repo.import_module('pykdebugparser.os_log_event')
        cls = mod_.ns['OsLogEvent']
        # an arbitrary decoded record: every field of the dataclass is there (defaults for the ones nothing is assumed about),
        # the trace identifier is optional and of an arbitrary namespace
        fields = {}
        for n_, d_ in cls.fields:
            fields[n_] = None if d_ is MISSING else (d_ if not hasattr(d_, 'fn') else PDict())
        ticls = mod_.ns.get('TraceIdentifier')
        nscls = mod_.ns.get('FirehoseTracepointNamespace')
        if isinstance(ticls, ClassVal) and isinstance(nscls, ClassVal):
            tif = {n_: SInt(z3.Int('log.ti.' + n_)) for n_, _ in ticls.fields}
            nsv = z3.Int('log.ti.namespace')
            it_.ctx.facts.append(z3.Or([nsv == v for _, v in nscls.members]))
            tif['namespace'] = SEnum(nscls, nsv)
            fields['trace_identifier'] = SOpt(z3.Bool('log.ti.present'), Obj(ticls, tif))
        fields.update({'process': atom_str(z3.Int('log.process')), 'thread_identifier': SInt(z3.Int('log.tid')),
                       'process_identifier': SInt(z3.Int('log.pid')), 'composed_message': atom_str(z3.Int('log.msg'))})
        o = Obj(cls, fields)
        state['log_obj'] = o
        state['log_fields'] = dict(o.fields)
        return o
    it.contracts['pykdebugparser.os_log_event:OsLogEvent.from_raw_log_event'] = frle
    T, P = p.fields['threads_pids'], p.fields['pids_names']
    w0t, w0p = len(T.writes), len(P.writes)
    before = len(sink.items)
    it.assign(stmt.target, raw, fr)
    it.exec_loop_body(stmt.body, fr)
    new = sink.items[before:]
    o = state.get('log_obj')
    ok = len(calls) == 1 and calls[0][0] is raw and len(new) == 1 and new[0][1] is o
    ctx.oblige(prefix + '/logs.step-decodes-and-yields-the-record', z3.BoolVal(ok))
    # the yielded record is the decoded one, field for field: the container adds nothing to it and changes nothing in it
    untouched = o is not None and set(o.fields) == set(state['log_fields']) and all(o.fields[k] is v for k, v in state['log_fields'].items())
    ctx.oblige(prefix + '/logs.step-yields-the-record-unmodified', z3.BoolVal(bool(untouched)))
    ctx.oblige(prefix + '/logs.step-strings-resolved-through-the-index', z3.BoolVal(len(calls) == 1 and calls[0][1] is slot_get(it, fr, state, 'log_strings')))
    named = z3.And(libattr.StrNonEmpty(z3.Int('log.process')), z3.Int('log.tid') != 0)
    wrote = len(T.writes) > w0t
    if wrote:
        kt, vt = T.writes[-1]
        kp, vp = P.writes[-1]
        ctx.oblige(prefix + '/logs.step-extends-the-tables', z3.And(named, kt == z3.Int('log.tid'), vt == z3.Int('log.pid'),
                                                                    kp == z3.Int('log.pid'), vp == z3.Int('log.process')))
    else:
        ctx.oblige(prefix + '/logs.step-extends-the-tables', z3.Not(named))
    raise pathsmod.PathCut('log step')


def post_metadata(ctx, state, p, prefix, stm):
    """checked on the path that runs through the whole function (after the loops)"""
    lay = state.get('lay')
    calls = stm.get('calls', [])
    ok = len(calls) == 1 and isinstance(calls[0], SymList) and isinstance(calls[0].origin, tuple) and calls[0].origin[0] == 'construct-array'
    ctx.oblige(prefix + '/threadmap.set-once-from-the-threadmap-chunk', z3.BoolVal(ok))
    if ok and lay:
        tm = calls[0]
        ctx.oblige(prefix + '/threadmap.is-the-chunks-map', z3.And(tm.length == lay['nt'], tm.origin[1] == lay['pt'] + 16, z3.IntVal(tm.origin[2]) == 32))
    cs_, cn_, K_ = z3.Function('lay.cs', I, I), z3.Function('lay.cn', I, I), z3.Int('lay.K')
    bs = state.get('blocks_start')
    ctx.oblige(prefix + '/blocks.scanned-right-after-the-last-chunk',
               bs == cs_(K_ - 1) + 24 + 64 * cn_(K_ - 1) if bs is not None else z3.BoolVal(False))


def run_check(run, tier):
    run.pending_failures = []
    run.trusted += ['pyvc interpreter; file/reader model; construct declaration interpreter', 'z3 5.1 / cvc5',
                    'contracts of from_kd_buf (C01), set_thread_map (C02), from_raw_log_event (C16) at call sites',
                    'wf_v3 ghost layout: the first occurrence of each scanned pattern is the intended one (the format\'s own assumption)']
    run.assumptions += ['plistlib.loads is an uninterpreted total function of the payload',
                        'the block scanner GreedyRange(Struct(tag, Select(Aligned(8, Prefixed), Prefixed))) is NOT proved: bounded native stand-in']
    from checks import c06
    c06.verify_seek_until(run, tier, prefix='C03/seek_until', total=False, data=EVENTS_TAG)
    verify_chunk_loops(run, tier, wf=True)
    bounded_blocks(run)
    finish(run)


def bounded_blocks(run):
    out = native({'kind': 'v3_blocks_search', 'seed': run.seed, 'budget': 300 if run.tier == 'quick' else 3000}, timeout=900)
    run.bounded.append({'what': 'BOUNDED stand-in for the block scanner and the accumulation over whole dumps: native enumeration of version-3 dumps '
                                '(chunkings, metadata/log block sequences, both paddings) against spec/container.py', 'dumps_tried': out.get('tried'),
                        'bound': out.get('bound'), 'found': bool(out.get('found'))})
    if out.get('found'):
        f = out['found']
        run.add('C03/bounded/v3-dump', 'refuted', 'native bounded search', 0, MOD + ':KdBufParser.parse_v3')
        run.violation('C03/bounded/v3-dump', {'request': f['request'], 'native': f, 'solver_output': 'native search'}, True, what=f.get('what', ''))
    run.extra['v3_search'] = out.get('found') is None


def finish(run):
    seek_fail = [x for x in run.pending_failures if '/seek_until/' in x[0]]
    if seek_fail:
        out = native({'kind': 'seek_search'}, timeout=900)
        run.bounded.append({'what': 'bounded native search for seek_until (refute mode only)', 'tried': out.get('tried'), 'bound': out.get('bound'),
                            'found': bool(out.get('found'))})
        f = out.get('found')
        if f:
            for x in seek_fail:
                run.pending_failures.remove(x)
                run.violation(x[0], {'request': f['request'], 'native': f, 'solver_output': '%s (%s)' % (x[1], x[2])}, True, what='seek_until: ' + f.get('what', ''))
    for ob, status, detail in run.pending_failures:
        if status == 'refuted':
            run.violation(ob, {'request': None, 'solver_output': 'obligation refuted (%s)' % detail}, False, what='obligation %s no longer holds' % ob)
        else:
            run.undecide(ob, 'not proved (%s)' % detail)
