"""C04 - START/END pairing delivers exactly each operation's per-thread event window.

Code level: the real _feed_start_event / _feed_end_event / _feed_single_event / feed / parse_event_list /
feed_generator are symbolically executed over an arbitrary pairing table (nested-array heap model) and
proved against the operation contracts of contracts/traces_parser.py; the key loops use the generic loop
rule with the invariant `inv_append_all` over an arbitrary duplicate-free key enumeration.
History level: checks/c04_history.py proves the window invariant from those operation contracts."""
import z3

from pyvc.harness import Session
from pyvc import solve, heap, paths as pathsmod, libattr
from pyvc.report import native
from pyvc.values import *  # noqa
from pyvc.interp import GenVal
from contracts import traces_parser as TP

MOD = 'pykdebugparser.traces_parser'
I = z3.IntSort()

EvTid = z3.Function('ev.tid', I, I)
EvCode = z3.Function('ev.eventid', I, I)
EvQual = z3.Function('ev.qual', I, I)


class World:
    """events by history id"""

    def __init__(self, sess, ctx):
        self.sess = sess
        self.ctx = ctx
        self.kcls = sess.module('pykdebugparser.kevent').ns['Kevent']
        self.cache = {}

    def event(self, hid):
        hid = z3.simplify(hid) if not isinstance(hid, int) else z3.IntVal(hid)
        k = hid.sexpr()
        if k in self.cache:
            return self.cache[k]
        ctx = self.ctx
        q = EvQual(hid)
        ctx.facts.append(z3.And(q >= 0, q <= 3, EvTid(hid) >= 0, EvCode(hid) >= 0, EvCode(hid) % 4 == 0))
        ev = Obj(self.kcls, {'timestamp': SInt(z3.Int('ev.ts.' + k)), 'data': OBytes(z3.Int('ev.data.' + k)),
                             'values': tuple(SInt(z3.Int('ev.v%d.%s' % (j, k))) for j in range(4)),
                             'tid': SInt(EvTid(hid)), 'debugid': mk_int(EvCode(hid) + q), 'eventid': SInt(EvCode(hid)),
                             'func_qualifier': SInt(q)})
        ev.hid = hid
        self.cache[k] = ev
        return ev


def make_parser(sess, ctx):
    it = sess.it
    tp = sess.module(MOD).ns['TracesParser']
    codes = libattr.new_symmap('codes', 'atom', origin='trace_codes')
    p = it.call(tp, [codes, libattr.new_symmap('threads_pids', 'int'), libattr.new_symmap('pids_names', 'atom')], {})
    p.fields['on_going_events'] = heap.PairState('S_events')
    p.fields['on_going_traces'] = heap.PairState('S_traces')
    return p


class PelContract:
    """call-site contract of parse_event_list used while verifying its callers: records the list it was
    given and returns an opaque result (its own contract is verified on the real body below)."""

    def __init__(self):
        self.calls = []

    def __call__(self, it, func, args, kwargs, node):
        it.no_merge()           # the record below is not undone by the trail: the two outcomes of a merged `if` are explored apart
        arr, n = heap.list_view(args[1])
        res = Obj(ClassVal('PelResult', None, 'plain'), {})
        res.pel_index = len(self.calls)
        self.calls.append((arr, n, res))
        return res


def install_loop_rule(sess, fname, obprefix):
    """generic loop rule for `for code in state[t]` with the invariant inv_append_all"""
    it = sess.it

    def hook(it_, stmt, fr, iterable):
        view = None
        if isinstance(iterable, heap.InnerView):
            view = iterable
            iterable = iterable.ref
        if not isinstance(iterable, heap.InnerRef):
            return False
        ctx = it.ctx
        st = iterable.state
        t = iterable.t
        ev = None
        f_ = fr
        while f_ is not None and ev is None:       # the event being fed, whatever the parameter is called
            for v_ in f_.vars.values():
                if isinstance(v_, Obj) and getattr(v_, 'hid', None) is not None:
                    ev = v_
                    break
            f_ = f_.parent
        if ev is None:
            raise Unsupported('key loop outside an event-feeding function')
        n = ev.hid
        tag = ctx.fresh('loop')
        entry = st.snap()
        enum = heap.KeyEnum(ctx, z3.Select(entry.cdom, t), tag)
        for cname, f in TP.inv_append_all(entry, entry, z3.IntVal(0), enum, t, n):
            ctx.oblige('%s/loop.inv.establish.%s' % (obprefix, cname), f, kind='invariant')
        if stmt.orelse:
            raise Unsupported('for/else on a key loop')
        if ctx.branch(z3.Bool(tag + '.inductive_step')):
            i = z3.Int(tag + '.i')
            ctx.assume(z3.And(i >= 0, i < enum.n))
            H = heap.Snap.fresh(tag + '.H')
            st.set_snap(H)
            for cname, f in TP.inv_append_all(entry, H, i, enum, t, n):
                ctx.assume(f)
            it.assign(stmt.target, view.bind(enum.keys(i)) if view is not None else SInt(enum.keys(i)), fr)
            from pyvc.interp import BreakSig, ContinueSig
            try:
                it.exec_loop_body(stmt.body, fr)
            except ContinueSig:
                pass          # `continue` ends the step like falling off the end of the body
            except BreakSig:
                raise Unsupported('break in a key loop')
            for cname, f in TP.inv_append_all(entry, st.snap(), i + 1, enum, t, n):
                ctx.oblige('%s/loop.inv.preserve.%s' % (obprefix, cname), f, kind='invariant')
            raise pathsmod.PathCut('inductive step done')
        X = heap.Snap.fresh(tag + '.X')
        st.set_snap(X)
        for cname, f in TP.inv_append_all(entry, X, enum.n, enum, t, n):
            ctx.assume(f)
        return True
    it.symloop_hook = hook


def verify_op(run, tier, sess, which, prefix_root='C04'):
    it = sess.it
    fq = '%s:TracesParser._feed_%s_event' % (MOD, which)
    prefix = '%s/_feed_%s_event' % (prefix_root, which)
    pel = PelContract()
    it.contracts[MOD + ':TracesParser.parse_event_list'] = pel
    install_loop_rule(sess, which, prefix)

    def thunk(ctx):
        pel.calls = []
        world = World(sess, ctx)
        it.event_of_hid = world.event
        p = make_parser(sess, ctx)
        st = p.fields['on_going_events']
        S0 = st.snap()
        n = z3.Int('n')
        e = world.event(n)
        t, c = EvTid(n), EvCode(n)
        f = sess.func('%s:TracesParser._feed_%s_event' % (MOD, which))
        before = {k: (v, getattr(v, 'items', None), (tuple(v.keys()) if isinstance(v, PDict) else None), getattr(v, 'writes', None) and len(v.writes))
                  for k, v in p.fields.items()}
        res = it.call(f, [p, e, st], {})
        S1 = st.snap()
        other = p.fields['on_going_traces']
        ctx.oblige(prefix + '/frame.other-table-untouched', z3.BoolVal(other.writes == 0))
        changed = []
        for k, v in p.fields.items():
            if k in ('on_going_events', 'on_going_traces'):
                continue
            b = before.get(k)
            if b is None or b[0] is not v or getattr(v, 'items', None) is not b[1] or \
                    (isinstance(v, PDict) and tuple(v.keys()) != b[2]) or (getattr(v, 'writes', None) and len(v.writes)) != b[3]:
                changed.append(k)
        ctx.oblige(prefix + '/frame.no-other-parser-state-changes', z3.BoolVal(not changed), info={'changed': changed})
        if which == 'start':
            ctx.oblige(prefix + '/start.returns-nothing', z3.BoolVal(res is None))
            ctx.oblige(prefix + '/start.decodes-nothing', z3.BoolVal(len(pel.calls) == 0))
            for name, g in TP.post_start(S0, S1, t, c, n):
                ctx.oblige(prefix + '/' + name, g)
        elif which == 'end':
            was_open = S0.is_open(t, c)
            if ctx.branch(was_open):
                ok_call = len(pel.calls) == 1 and res is pel.calls[0][2]
                ctx.oblige(prefix + '/end.exactly-one-trace', z3.BoolVal(ok_call))
                if ok_call:
                    arr, ln, _ = pel.calls[0]
                    for name, g in TP.post_end_open(S0, S1, t, c, n, arr, ln):
                        ctx.oblige(prefix + '/' + name, g)
            else:
                ctx.oblige(prefix + '/end.stray-produces-nothing', z3.BoolVal(res is None and len(pel.calls) == 0))
                for name, g in TP.post_unchanged(S0, S1):
                    ctx.oblige(prefix + '/' + name, g)
        else:
            cont = TP.single_is_continuation(S0, t, c, EvQual(n))
            if res is None:
                # swallowed: allowed only for a continuation record of a split path / string
                ctx.oblige(prefix + '/single.swallowed-only-if-continuation', z3.And(cont, z3.BoolVal(len(pel.calls) == 0)))
            else:
                ok_call = len(pel.calls) == 1 and res is pel.calls[0][2]
                ctx.oblige(prefix + '/single.exactly-one-trace-candidate', z3.BoolVal(ok_call))
                ctx.oblige(prefix + '/single.continuation-not-reported', z3.Not(cont))
                if ok_call:
                    arr, ln, _ = pel.calls[0]
                    ctx.oblige(prefix + '/single.decodes-the-event-alone', z3.And(ln == 1, z3.Select(arr, 0) == n))
            for name, g in TP.post_single(S0, S1, t, n):
                ctx.oblige(prefix + '/' + name, g)
        return res
    return explore_and_discharge(run, tier, sess, thunk, fq, prefix)


def explore_and_discharge(run, tier, sess, thunk, fq, prefix):
    try:
        prs = sess.explore(thunk)
    except Unsupported as ex:
        run.add(prefix + '/supported', 'unsupported', '', 0, fq, str(ex))
        if hasattr(run, 'pending_failures'):
            run.pending_failures.append((prefix + '/supported', 'unsupported', str(ex)))      # the caller's refute search decides
        else:
            run.undecide(prefix + '/supported', str(ex))
        return False
    agg = {}
    completed = 0
    for p in prs:
        if p.outcome == 'raise':
            ob = '%s/noraise@%s:%s' % (prefix, p.exc.site[0] if p.exc.site else '?', (p.exc.kind or '').split(':')[0])
            agg[ob] = {'status': 'refuted', 'ms': 0.0, 'backend': 'z3-5.1', 'detail': '%s raised' % p.exc.cls_name}
            continue
        if p.outcome == 'return':
            completed += 1
        for ob in p.obligations:
            v = solve.prove(ob.pc, ob.goal, 30000, tier)
            cur = agg.setdefault(ob.name, {'status': 'proved', 'ms': 0.0, 'backend': v.backend, 'kind': ob.kind})
            cur['ms'] += v.ms
            if v.status == 'refuted' and cur['status'] != 'refuted':
                cur.update(status='refuted', detail='sat')
            elif v.status not in ('proved', 'refuted') and cur['status'] == 'proved':
                cur.update(status='unknown', detail=v.detail)
    if completed == 0 and not any(p.outcome == 'raise' for p in prs):
        run.engine_error('%s: no completed path (vacuous)' % prefix)
    ok = True
    for ob, cur in sorted(agg.items()):
        if cur['status'] == 'proved':
            run.add(ob, 'proved', cur['backend'], cur['ms'], fq, kind=cur.get('kind', 'post'))
        else:
            ok = False
            run.add(ob, cur['status'], cur['backend'], cur['ms'], fq, cur.get('detail', ''), kind=cur.get('kind', 'post'))
            run.pending_failures.append((ob, cur['status'], cur.get('detail', '')))
    return ok


def verify_feed(run, tier, sess, prefix_root='C04'):
    """feed(e): exactly one action, chosen by the qualifier, on the table chosen by the event's domain"""
    it = sess.it
    fq = MOD + ':TracesParser.feed'
    prefix = prefix_root + '/feed'
    calls = []

    def action(name):
        def c(it_, func, args, kwargs, node):
            r = Obj(ClassVal('ActionResult', None, 'plain'), {})
            calls.append((name, args[1], args[2], r))
            return r
        return c
    for nm in ('start', 'end', 'single'):
        it.contracts['%s:TracesParser._feed_%s_event' % (MOD, nm)] = action(nm)
    trace_names = sess.module('pykdebugparser.trace_handlers.trace').ns['handlers'].keys()

    def thunk(ctx):
        del calls[:]
        world = World(sess, ctx)
        p = make_parser(sess, ctx)
        n = z3.Int('n')
        e = world.event(n)
        res = it.call(sess.func(MOD + ':TracesParser.feed'), [p, e], {})
        codes = p.fields['trace_codes']
        c, q = EvCode(n), EvQual(n)
        in_trace_domain = z3.And(z3.Select(codes.dom, c), z3.Or([z3.Select(codes.val, c) == intern_str(k) for k in trace_names]))
        ok = len(calls) == 1 and calls[0][1] is e and res is calls[0][3]
        ctx.oblige(prefix + '/exactly-one-action-on-the-event', z3.BoolVal(ok))
        if ok:
            name, _, table, _ = calls[0]
            ctx.oblige(prefix + '/action-by-qualifier', {'start': q == 1, 'end': q == 2, 'single': z3.Or(q == 0, q == 3)}[name])
            ctx.oblige(prefix + '/table-by-domain', in_trace_domain if table is p.fields['on_going_traces'] else
                       (z3.Not(in_trace_domain) if table is p.fields['on_going_events'] else z3.BoolVal(False)))
        return res
    ok = explore_and_discharge(run, tier, sess, thunk, fq, prefix)
    for nm in ('start', 'end', 'single'):
        del it.contracts['%s:TracesParser._feed_%s_event' % (MOD, nm)]
    return ok


def verify_pel(run, tier, sess, prefix_root='C04'):
    """parse_event_list(evs): None unless evs[0]'s id is in the table and its name has a decoder; otherwise
    exactly one call of that decoder on (self, evs)"""
    it = sess.it
    fq = MOD + ':TracesParser.parse_event_list'
    prefix = prefix_root + '/parse_event_list'
    it.contracts.pop(MOD + ':TracesParser.parse_event_list', None)

    def thunk(ctx):
        world = World(sess, ctx)
        it.event_of_hid = world.event
        p = make_parser(sess, ctx)
        calls = []
        hs = p.fields['handlers']
        names = list(hs.keys())

        class HandlerTable:
            """the merged decoder table with its real domain (names read from the seven table literals);
            looking a name up gives that name's decoder (one abstract decoder parameterised by the name)"""

            def py_contains(self, it_, k, node=None):
                from pyvc.libops import _single_atom
                t = _single_atom(k)
                return z3.Or([t == intern_str(nm) for nm in names])

            def py_getitem(self, it_, k, node=None):
                from pyvc.libops import _single_atom
                t = _single_atom(k)
                it_.raise_if(z3.Not(self.py_contains(it_, k)), 'KeyError', 'handler-table-key', node)

                def h(it__, args, kw, n):
                    it__.no_merge()
                    r = Obj(ClassVal('Trace', None, 'plain'), {})
                    calls.append((t, args, r))
                    return r
                return Builtin('handler', h)
        p.fields['handlers'] = HandlerTable()
        arr = z3.Const('evs.arr', heap.AII)
        ln = z3.Int('evs.len')
        ctx.assume(ln >= 1)
        evs = heap.ListVal(arr, ln)
        res = it.call(sess.func(fq), [p, evs], {})
        codes = p.fields['trace_codes']
        c0 = EvCode(z3.Select(arr, 0))
        decodable = z3.And(z3.Select(codes.dom, c0), z3.Or([z3.Select(codes.val, c0) == intern_str(k) for k in names]))
        if res is None:
            ctx.oblige(prefix + '/none-only-if-undecodable', z3.And(z3.Not(decodable), z3.BoolVal(len(calls) == 0)))
        else:
            ok = len(calls) == 1 and res is calls[0][2] and calls[0][1][0] is p and calls[0][1][1] is evs
            ctx.oblige(prefix + '/decoder-gets-the-window', z3.BoolVal(ok))
            if ok:
                ctx.oblige(prefix + '/decoder-chosen-by-table-name',
                           z3.And(decodable, z3.Select(codes.val, c0) == calls[0][0]))
        return res
    return explore_and_discharge(run, tier, sess, thunk, fq, prefix)


def verify_feed_generator(run, tier, sess):
    """one step of feed_generator: feed is called exactly once with the element; its result is yielded iff not None"""
    it = sess.it
    fq = MOD + ':TracesParser.feed_generator'
    prefix = 'C04/feed_generator'
    calls = []

    def feed_c(it_, func, args, kwargs, node):
        some = it.ctx.branch(z3.Bool(it.ctx.fresh('feed.returns_trace')))
        r = Obj(ClassVal('Trace', None, 'plain'), {}) if some else None
        calls.append((args[1], r))
        return r
    it.contracts[MOD + ':TracesParser.feed'] = feed_c
    state = {}

    def hook(it_, stmt, fr, iterable):
        if not isinstance(iterable, SymList) or iterable.origin != 'stream':
            return False
        ctx = it.ctx
        k = z3.Int('k')
        ctx.assume(z3.And(k >= 0, k < iterable.length))
        x = iterable.elem(k)
        sink = it.lookup('$yield', fr)
        before = len(sink.items)
        it.assign(stmt.target, x, fr)
        it.exec_loop_body(stmt.body, fr)
        state['step'] = (x, list(sink.items[before:]))
        raise pathsmod.PathCut('one step')
    it.symloop_hook = hook

    def thunk(ctx):
        del calls[:]
        state.clear()
        p = make_parser(sess, ctx)
        elems = {}

        def elem(j):
            o = Obj(ClassVal('Event', None, 'plain'), {})
            return o
        stream = SymList('stream', z3.Int('stream.len'), elem, origin='stream')
        g = it.call(sess.func(fq), [p, stream], {})
        ctx.oblige(prefix + '/is-a-generator', z3.BoolVal(isinstance(g, GenVal)))
        if isinstance(g, GenVal):
            try:
                it.run_generator(g)
            except pathsmod.PathCut:
                x, yielded = state.get('step', (None, None))
                ok1 = len(calls) == 1 and calls[0][0] is x
                ctx.oblige(prefix + '/step.feeds-the-element-once', z3.BoolVal(ok1))
                if ok1:
                    r = calls[0][1]
                    ok2 = (yielded == [] if r is None else (len(yielded) == 1 and yielded[0][1] is r and yielded[0][0] is True))
                    ctx.oblige(prefix + '/step.yields-exactly-the-trace', z3.BoolVal(bool(ok2)))
                raise
        return g
    ok = explore_and_discharge_cut(run, tier, sess, thunk, fq, prefix)
    del it.contracts[MOD + ':TracesParser.feed']
    it.symloop_hook = None
    return ok


def explore_and_discharge_cut(run, tier, sess, thunk, fq, prefix):
    """like explore_and_discharge, but cut paths are the expected outcome"""
    try:
        prs = sess.explore(thunk)
    except Unsupported as ex:
        run.add(prefix + '/supported', 'unsupported', '', 0, fq, str(ex))
        run.undecide(prefix + '/supported', str(ex))
        return False
    agg = {}
    for p in prs:
        if p.outcome == 'raise':
            agg['%s/noraise' % prefix] = {'status': 'refuted', 'ms': 0.0, 'backend': 'z3-5.1', 'detail': p.exc.cls_name}
            continue
        for ob in p.obligations:
            v = solve.prove(ob.pc, ob.goal, 30000, tier)
            cur = agg.setdefault(ob.name, {'status': 'proved', 'ms': 0.0, 'backend': v.backend})
            cur['ms'] += v.ms
            if v.status != 'proved' and cur['status'] == 'proved':
                cur.update(status='refuted' if v.status == 'refuted' else 'unknown', detail=v.detail)
    if not any(k.endswith('step.feeds-the-element-once') for k in agg):
        run.engine_error('%s: the loop step was never reached (vacuous)' % prefix)
    ok = True
    for ob, cur in sorted(agg.items()):
        if cur['status'] == 'proved':
            run.add(ob, 'proved', cur['backend'], cur['ms'], fq)
        else:
            ok = False
            run.add(ob, cur['status'], cur['backend'], cur['ms'], fq, cur.get('detail', ''))
            run.pending_failures.append((ob, cur['status'], cur.get('detail', '')))
    return ok


def run_check(run, tier):
    run.pending_failures = []
    sess = Session()
    run.trusted += ['pyvc interpreter + nested-array heap model of the pairing tables (pyvc/heap.py)', 'z3 5.1 / cvc5 1.0.3',
                    'loop rule with invariant over an arbitrary duplicate-free key enumeration (dict iteration order irrelevant)',
                    'decoders return a trace whose ktraces is the delivered list (schema S-window, checked in C07 run)']
    run.assumptions += ['dict / list semantics of CPython for the access paths used (state[t], state[t][c], append, pop, get)',
                        'events carry qualifier 0..3 and an id with clear low bits (C01)']
    for which in ('start', 'end', 'single'):
        verify_op(run, tier, Session(), which)
    verify_feed(run, tier, Session())
    verify_pel(run, tier, Session())
    verify_feed_generator(run, tier, Session())
    run.hashes.update(sess.repo.hashes)
    for s in ('pykdebugparser.traces_parser',):
        sess.module(s)
    run.hashes.update(sess.repo.hashes)
    from checks import c04_history
    c04_history.run_part(run, tier)
    from checks import decoder_checks as DCK
    recs, _ = DCK.run_pool(run, 'C04')
    DCK.absorb(run, recs)
    # failed deductive obligations: look for a concrete failing stream (refute mode), then report
    finish_failures(run, 'C04')


def finish_failures(run, pid, budget=None):
    if not getattr(run, 'pending_failures', None) and run.tier != 'thorough':
        return
    out = native({'kind': 'pairing_search', 'depth': 5 if run.tier == 'thorough' else 4, 'seed': run.seed,
                  'budget': budget or (200000 if run.tier == 'thorough' else 40000)}, timeout=900)
    run.bounded.append({'what': 'bounded native search of event streams against the pairing specification (refute mode only)',
                        'streams_tried': out.get('tried'), 'bound': out.get('bound'), 'found': bool(out.get('found'))})
    found = out.get('found')
    if not found and run.pending_failures:
        # the failure may need a history across parser objects (class-level or module-level state)
        out2 = native({'kind': 'api_history_case'}, timeout=900)
        run.bounded.append({'what': 'native API-history search (refute mode only)', 'found': bool(out2.get('violates'))})
        if out2.get('violates'):
            found = dict(out2, request={'kind': 'api_history_case'})
    if found and not run.pending_failures:
        run.pending_failures.append(('%s/bounded-search' % pid, 'refuted', 'native search'))
        run.add('%s/bounded-search' % pid, 'refuted', 'native bounded search', 0, MOD + ':TracesParser.feed')
    for ob, status, detail in run.pending_failures:
        if found:
            run.violation(ob, {'request': found['request'], 'native': found, 'solver_output': '%s (%s); failing stream found by the native search' % (status, detail)},
                          True, what=found.get('what', ''))
        elif status == 'refuted':
            run.violation(ob, {'request': None, 'solver_output': 'obligation refuted (%s); bounded native search found no failing stream' % detail},
                          False, what='obligation %s no longer holds' % ob)
        else:
            run.undecide(ob, 'not proved (%s) and no failing stream found' % detail)
