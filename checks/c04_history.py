"""C04, history level: the window invariant is an inductive invariant of the pairing machine *as described by
the operation contracts proved on the real code* (contracts/traces_parser.py: the transition relation used
here is built from those very clause objects, never re-typed), and at every emission the delivered list
is what the property describes.

History: events are indexed 0..n-1 (ev.tid / ev.eventid / ev.qual are functions of the index); D(i) says
event i belongs to this table's pairing domain; Stray(i) is the ghost fact recorded when event i was an END
without an open START.  Ghost per window: membership M[t][c][i] and position P[t][c][i] (witness
functions for "event i is in the window", avoiding existential quantifiers)."""
import z3

from pyvc import solve
from pyvc.heap import Snap, I, AIAIB, AIAII, AIAIAII
from contracts import traces_parser as TP

B = z3.BoolSort()
EvTid = z3.Function('ev.tid', I, I)
EvCode = z3.Function('ev.eventid', I, I)
EvQual = z3.Function('ev.qual', I, I)
D = z3.Function('hist.in_domain', I, B)
Stray = z3.Function('hist.stray', I, B)

T, C, J, K, X = z3.Ints('h!t h!c h!j h!k h!x')


class Ghost:
    def __init__(self, name):
        self.M = z3.Const(name + '.M', z3.ArraySort(I, z3.ArraySort(I, z3.ArraySort(I, B))))
        self.P = z3.Const(name + '.P', AIAIAII)

    def m(self, t, c, i):
        return z3.Select(z3.Select(z3.Select(self.M, t), c), i)

    def p(self, t, c, i):
        return z3.Select(z3.Select(z3.Select(self.P, t), c), i)

    def rowM(self, t, c):
        return z3.Select(z3.Select(self.M, t), c)

    def rowP(self, t, c):
        return z3.Select(z3.Select(self.P, t), c)


def inv_clauses(S, G, n, t, c):
    """the window invariant for the window (t, c) of table S after n events"""
    L = S.length(t, c)
    a = lambda j: S.elem(t, c, j)
    op = S.is_open(t, c)
    return [
        ('shape', z3.Implies(op, z3.And(L >= 1, EvQual(a(0)) == 1, EvTid(a(0)) == t, EvCode(a(0)) == c, D(a(0))))),
        ('bounds', z3.Implies(op, z3.ForAll([J], z3.Implies(z3.And(J >= 0, J < L), z3.And(a(J) >= 0, a(J) < n))))),
        ('increasing', z3.Implies(op, z3.ForAll([J, K], z3.Implies(z3.And(J >= 0, J < K, K < L), a(J) < a(K))))),
        ('range', z3.Implies(op, z3.ForAll([J], z3.Implies(z3.And(J >= 0, J < L), z3.And(EvTid(a(J)) == t, D(a(J))))))),
        ('link.member-has-position', z3.Implies(op, z3.ForAll([X], z3.Implies(G.m(t, c, X), z3.And(G.p(t, c, X) >= 0, G.p(t, c, X) < L,
                                                                                               a(G.p(t, c, X)) == X))))),
        ('link.position-is-member', z3.Implies(op, z3.ForAll([J], z3.Implies(z3.And(J >= 0, J < L), z3.And(G.m(t, c, a(J)), G.p(t, c, a(J)) == J))))),
        ('complete', z3.Implies(op, z3.ForAll([X], z3.Implies(z3.And(X > a(0), X < n, EvTid(X) == t, D(X), z3.Not(Stray(X))), G.m(t, c, X))))),
        ('recent', z3.Implies(op, z3.ForAll([X], z3.Implies(z3.And(X > a(0), X < n, EvTid(X) == t, EvCode(X) == c, D(X)),
                                                             z3.Or(EvQual(X) == 0, EvQual(X) == 3))))),
    ]


def inv_all(S, G, n):
    out = []
    for name, f in inv_clauses(S, G, n, T, C):
        out.append(z3.ForAll([T, C], f))
    return out


def ghost_step(S0, G0, G1, t, c, n, kind):
    """ghost update accompanying one operation (mirrors the appends of the contract)"""
    fs = []
    open0 = lambda cc: S0.is_open(t, cc)
    if kind == 'start':
        fs.append(G1.rowM(t, c) == z3.Store(z3.K(I, z3.BoolVal(False)), n, True))
        fs.append(G1.rowP(t, c) == z3.Store(z3.K(I, z3.IntVal(0)), n, 0))
    if kind in ('start', 'end', 'single'):
        skip = c if kind in ('start', 'end') else None
        cond = lambda cc: z3.And(open0(cc), cc != skip) if skip is not None else open0(cc)
        fs.append(z3.ForAll([C], z3.Implies(cond(C), z3.And(G1.rowM(t, C) == z3.Store(G0.rowM(t, C), n, True),
                                                           G1.rowP(t, C) == z3.Store(G0.rowP(t, C), n, S0.length(t, C))))))
    fs.append(z3.ForAll([T], z3.Implies(T != t, z3.And(z3.Select(G1.M, T) == z3.Select(G0.M, T), z3.Select(G1.P, T) == z3.Select(G0.P, T)))))
    if kind == 'stray':
        fs = [G1.M == G0.M, G1.P == G0.P]
    return fs


def run_part(run, tier):
    fn = 'pykdebugparser.traces_parser:TracesParser (history lemma over the operation contracts)'
    S0, S1 = Snap.fresh('H0'), Snap.fresh('H1')
    G0, G1 = Ghost('G0'), Ghost('G1')
    n = z3.Int('n')
    t, c = EvTid(n), EvCode(n)
    base = [n >= 0, D(n), EvQual(n) >= 0, EvQual(n) <= 3] + inv_all(S0, G0, n) + [TP.wf(S0)]
    # establishment: the empty table (TracesParser.__init__ creates {}) satisfies the invariant
    empty = Snap(z3.K(I, z3.BoolVal(False)), S0.cdom, S0.ln, S0.el)
    for name, f in inv_clauses(empty, G0, z3.IntVal(0), T, C):
        v = solve.prove([], f, 20000, tier)
        _rec(run, 'C04/history/establish.%s' % name, v, fn)
    arr = z3.Const('emit.arr', z3.ArraySort(I, I))
    ln = z3.Int('emit.len')
    cases = {
        'start': ([EvQual(n) == 1] + [f for _, f in TP.post_start(S0, S1, t, c, n)], 'start'),
        'end-open': ([EvQual(n) == 2, S0.is_open(t, c)] + [f for _, f in TP.post_end_open(S0, S1, t, c, n, arr, ln)], 'end'),
        'end-stray': ([EvQual(n) == 2, z3.Not(S0.is_open(t, c)), Stray(n)] + [f for _, f in TP.post_unchanged(S0, S1)], 'stray'),
        'single': ([z3.Or(EvQual(n) == 0, EvQual(n) == 3)] + [f for _, f in TP.post_single(S0, S1, t, n)], 'single'),
    }
    for cname, (hyps, kind) in cases.items():
        stray_fact = [] if kind == 'stray' else [z3.Not(Stray(n))]
        hyp = base + hyps + ghost_step(S0, G0, G1, t, c, n, kind) + stray_fact
        # cover: the hypotheses of this case are consistent (checked without the quantified part)
        tt, cc = z3.Ints('sk.t sk.c')
        for name, f in inv_clauses(S1, G1, n + 1, tt, cc):
            v = solve.prove(hyp, f, 30000, tier)
            _rec(run, 'C04/history/%s.preserves.%s' % (cname, name), v, fn)
    # emission lemma: what an END with an open START delivers
    hyps, kind = cases['end-open']
    hyp = base + hyps
    L0 = S0.length(t, c)
    a0 = lambda j: S0.elem(t, c, j)
    x = z3.Int('sk.x')
    j1, j2 = z3.Ints('sk.j1 sk.j2')
    goals = [
        ('begins-with-most-recent-start', z3.And(z3.Select(arr, 0) == a0(0), EvQual(a0(0)) == 1, EvTid(a0(0)) == t, EvCode(a0(0)) == c,
                                                 z3.Implies(z3.And(x > a0(0), x < n, EvTid(x) == t, EvCode(x) == c, D(x)), EvQual(x) != 1))),
        ('ends-with-the-end', z3.And(ln >= 2, z3.Select(arr, ln - 1) == n)),
        ('stream-order-no-duplicates', z3.Implies(z3.And(j1 >= 0, j1 < j2, j2 < ln), z3.Select(arr, j1) < z3.Select(arr, j2))),
        ('only-same-thread-same-domain-inside-interval', z3.Implies(z3.And(j1 >= 0, j1 < ln), z3.And(EvTid(z3.Select(arr, j1)) == t, D(z3.Select(arr, j1)),
                                                                                                   z3.Select(arr, j1) >= a0(0), z3.Select(arr, j1) <= n))),
        ('every-non-stray-event-in-between', z3.Implies(z3.And(x > a0(0), x < n, EvTid(x) == t, D(x), z3.Not(Stray(x))),
                                                        z3.And(G0.p(t, c, x) >= 0, G0.p(t, c, x) < ln, z3.Select(arr, G0.p(t, c, x)) == x))),
    ]
    for name, g in goals:
        v = solve.prove(hyp, g, 30000, tier)
        _rec(run, 'C04/history/emission.%s' % name, v, fn)
    # vacuity canary: from the same hypotheses `False` must not be provable
    for cname, (hyps, kind) in cases.items():
        hyp = base + hyps + ghost_step(S0, G0, G1, t, c, n, kind)
        r, _ = solve.satisfiable(hyp, 2500)
        if r == z3.unsat:
            run.engine_error('C04 history lemma: hypotheses of case %s are contradictory' % cname)


def _rec(run, name, v, fn):
    if v.status == 'proved':
        run.add(name, 'proved', v.backend, v.ms, fn, kind='lemma')
    elif v.status == 'disagree':
        run.add(name, 'engine-error', v.backend, v.ms, fn, v.detail, kind='lemma')
        run.engine_error('solver disagreement on %s' % name)
    else:
        run.add(name, v.status, v.backend, v.ms, fn, v.detail, kind='lemma')
        run.pending_failures.append((name, v.status, v.detail))
