def run_part(run, tier):
    pass
