"""C05 - per-thread results are invariant under interleaving of threads.

(1) locality lemmas over the operation contracts proved on the real pairing code (contracts/traces_parser.py,
    C04): what an operation does to the rows of its own thread, and what it delivers, is a function of those rows
    and the event only (two-copy obligation); together with the frame clause `other-threads-unchanged` (C04)
    two adjacent events of different threads commute, hence (M1, paper) every interleaving that keeps the
    per-thread order gives the same per-thread traces.
(2) frame of the pairing operations on the parser object: nothing but the two pairing tables changes.
(3) schema S-thread over all decoders: a decoder touches per-thread parser state only under its own thread id and
    reads no parser-wide slot; shared tables (thread/process/name/string tables) are the property's by-design
    exemptions for *renderings*; names learned from a thread's own new-thread/exec pairs go through slots keyed by
    that thread."""
import z3

from pyvc.harness import Session
from pyvc import solve, decoders, textform
from pyvc.heap import Snap, I
from pyvc.report import native
from pyvc.values import *  # noqa
from contracts import traces_parser as TP
from checks import decoder_checks as DCK

EvTid = z3.Function('ev.tid', I, I)
EvCode = z3.Function('ev.eventid', I, I)
C, J = z3.Ints('c05!c c05!j')

SHARED_BY_DESIGN = ('p.trace_codes', 'p.threads_pids', 'p.pids_names', 'p.tids_names', 'p.global_strings')
PER_THREAD = ('p.last_data_newthread', 'p.last_data_exec')


def view_equal_rows(A, B, t):
    """the rows of thread t denote the same windows in A and B"""
    return z3.And(z3.Select(A.tdom, t) == z3.Select(B.tdom, t),
                  z3.ForAll([C], A.is_open(t, C) == B.is_open(t, C)),
                  z3.ForAll([C], z3.Implies(A.is_open(t, C), z3.And(A.length(t, C) == B.length(t, C),
                                                                    z3.ForAll([J], z3.Implies(z3.And(J >= 0, J < A.length(t, C)),
                                                                                              A.elem(t, C, J) == B.elem(t, C, J)))))))


def locality(run, tier):
    fn = 'pykdebugparser.traces_parser:TracesParser (locality lemmas over the operation contracts)'
    n = z3.Int('n')
    t, c = EvTid(n), EvCode(n)
    A0, A1, B0, B1 = Snap.fresh('A0'), Snap.fresh('A1'), Snap.fresh('B0'), Snap.fresh('B1')
    arrA, lnA, arrB, lnB = z3.Const('arrA', z3.ArraySort(I, I)), z3.Int('lnA'), z3.Const('arrB', z3.ArraySort(I, I)), z3.Int('lnB')
    same_pre = view_equal_rows(A0, B0, t)
    wf = [TP.wf(A0), TP.wf(B0)]
    cases = {
        'start': ([f for _, f in TP.post_start(A0, A1, t, c, n)] + [f for _, f in TP.post_start(B0, B1, t, c, n)], None),
        'end-open': ([A0.is_open(t, c)] + [f for _, f in TP.post_end_open(A0, A1, t, c, n, arrA, lnA)] +
                     [f for _, f in TP.post_end_open(B0, B1, t, c, n, arrB, lnB)],
                     z3.And(lnA == lnB, z3.ForAll([J], z3.Implies(z3.And(J >= 0, J < lnA), z3.Select(arrA, J) == z3.Select(arrB, J))))),
        'end-stray': ([z3.Not(A0.is_open(t, c))] + [f for _, f in TP.post_unchanged(A0, A1)] + [f for _, f in TP.post_unchanged(B0, B1)], None),
        'single': ([f for _, f in TP.post_single(A0, A1, t, n)] + [f for _, f in TP.post_single(B0, B1, t, n)], None),
    }
    cc = z3.Int('sk.c')
    jj = z3.Int('sk.j')
    for name, (hyps, out_goal) in cases.items():
        hyp = wf + [same_pre] + hyps
        goals = [
            ('thread-known', z3.Select(A1.tdom, t) == z3.Select(B1.tdom, t)),
            ('open-status', A1.is_open(t, cc) == B1.is_open(t, cc)),
            ('window-lengths', z3.Implies(A1.is_open(t, cc), A1.length(t, cc) == B1.length(t, cc))),
            ('window-contents', z3.Implies(z3.And(A1.is_open(t, cc), jj >= 0, jj < A1.length(t, cc)), A1.elem(t, cc, jj) == B1.elem(t, cc, jj))),
        ]
        if out_goal is not None:
            goals.append(('delivered-window', out_goal))
        for gname, g in goals:
            v = solve.prove(hyp, g, 30000, tier)
            rec(run, 'C05/locality/%s.%s' % (name, gname), v, fn)
    # the stray test itself is local: whether (t, c) is open depends on t's rows only
    v = solve.prove([same_pre], A0.is_open(t, c) == B0.is_open(t, c), 20000, tier)
    rec(run, 'C05/locality/open-test-is-local', v, fn)
    # commutation of two events of different threads (direct form, from frame + locality): state after e1;e2 and e2;e1
    # agree on both threads' rows -- instance for start/start as the representative mechanised case; M1 lifts it
    m = z3.Int('m')
    t2, c2 = EvTid(m), EvCode(m)
    S0, Sa, Sab, Sb, Sba = [Snap.fresh(x) for x in ('S0', 'Sa', 'Sab', 'Sb', 'Sba')]
    hyp = [t != t2, TP.wf(S0)] + [f for _, f in TP.post_start(S0, Sa, t, c, n)] + [f for _, f in TP.post_single(Sa, Sab, t2, m)] + \
          [f for _, f in TP.post_single(S0, Sb, t2, m)] + [f for _, f in TP.post_start(Sb, Sba, t, c, n)]
    for gname, g in (('rows-of-first-thread', z3.And(Sab.is_open(t, cc) == Sba.is_open(t, cc),
                                                     z3.Implies(Sab.is_open(t, cc), Sab.length(t, cc) == Sba.length(t, cc)))),
                     ('rows-of-second-thread', z3.And(Sab.is_open(t2, cc) == Sba.is_open(t2, cc),
                                                      z3.Implies(Sab.is_open(t2, cc), Sab.length(t2, cc) == Sba.length(t2, cc))))):
        v = solve.prove(hyp, g, 30000, tier)
        rec(run, 'C05/commutation/start-vs-single.%s' % gname, v, fn)


def rec(run, name, v, fn):
    if v.status == 'proved':
        run.add(name, 'proved', v.backend, v.ms, fn, kind='lemma')
    else:
        run.add(name, v.status, v.backend, v.ms, fn, v.detail, kind='lemma')
        run.pending_failures.append((name, v.status, v.detail))


def an_C05(mod, name, paths, fq):
    """S-thread: the decoder's dependence on parser state"""
    ob = 'C05/decoder-state/%s.%s' % (mod, name)
    bad = None
    for s in paths:
        w, p = s.window, s.parser
        tid = w.tid
        # parser-wide slots: every attribute of the parser object the decoder could see
        for attr, v in p.fields.items():
            if isinstance(v, SymMap) and getattr(v, 'vkind', None) is not None and ('p.' + attr) in PER_THREAD:
                for kt in getattr(v, 'reads', []):
                    r = solve.prove(s.pc, kt == tid, 5000)
                    if r.status != 'proved':
                        bad = 'per-thread slot %s read under a key that is not the thread\'s own id' % attr
                for wr in v.writes:
                    if wr and wr[0] is not None and not isinstance(wr[0], str):
                        r = solve.prove(s.pc, wr[0] == tid, 5000)
                        if r.status != 'proved':
                            bad = 'per-thread slot %s written under a key that is not the thread\'s own id' % attr
                    elif wr and wr[0] == 'pop':
                        # removing an entry is a write under that key
                        kpop = wr[1] if len(wr) > 1 else None
                        r = solve.prove(s.pc, kpop == tid, 5000) if kpop is not None and not isinstance(kpop, str) else None
                        if r is None or r.status != 'proved':
                            bad = 'an entry of the per-thread slot %s is removed under a key that is not the thread\'s own id' % attr
                    elif wr and wr[0] == 'clear':
                        bad = 'the per-thread slot %s is cleared (entries of other threads are removed)' % attr
        terms = list(s.branch_pc)
        if s.text is not None:
            for conds, toks in textform.flatten(s.text):
                terms.extend(conds)
                for tk in toks:
                    terms.extend(textform.token_terms(tk))
        for t in terms:
            for nm in DCK.sym_names(t):
                if nm.startswith('p.') and not nm.startswith(SHARED_BY_DESIGN) and not nm.startswith(PER_THREAD):
                    bad = 'reads the parser-wide slot %s' % nm.split('.')[1]
        # writes to attributes of the parser object itself (new parser-wide slots)
        fresh = decoders_parser_attrs(s)
        if fresh:
            bad = 'writes the parser-wide attribute(s) %s' % ', '.join(sorted(fresh))
    if bad is None:
        return [DCK.rec(ob, 'proved', 'symbolic execution: reads/writes frame of the decoder', 0, fq)]
    return [DCK.rec(ob, 'refuted', 'symbolic execution', 0, fq, bad,
                    viol={'request': {'kind': 'interleaving_search', 'budget': 400}, 'what': '%s %s' % (name, bad), 'solver_output': bad})]


def decoders_parser_attrs(s):
    """attributes of the parser object that the decoder assigned (identity changed w.r.t. the initial shape)"""
    init = getattr(s.parser, 'initial_fields', None)
    if init is None:
        return set()
    out = set()
    for k, v in s.parser.fields.items():
        if k not in init or init[k] is not v:
            out.add(k)
    return out


DCK.ANALYSES['C05'] = an_C05


def run_check(run, tier):
    run.pending_failures = []
    run.trusted += ['operation contracts of the pairing code (proved on the real code in C04; their clause objects are reused here)',
                    'z3 5.1 / cvc5', 'pyvc interpreter for the decoder schema',
                    'M1 (paper): commutation of adjacent events of different threads implies invariance under every order-preserving interleaving']
    run.assumptions += ['renderings of decoders that read shared tables by design (thread-terminate, dlopen/dlsym/map-image, process filter) are exempt',
                        'the merged shared tables themselves are not compared, only per-thread traces, state projections and write logs']
    locality(run, tier)
    # frame of the pairing operations on the parser object: re-run C04's operation verification, which carries the clauses
    from checks import c04
    for which in ('start', 'end', 'single'):
        c04.verify_op(run, tier, Session(), which, prefix_root='C05')
    recs, _ = DCK.run_pool(run, 'C05')
    viols = [r for r in recs if r['status'] == 'refuted']
    DCK.absorb(run, recs)
    found = None
    if run.pending_failures or run.undecided or tier == 'thorough':
        out = native({'kind': 'interleaving_search', 'seed': run.seed, 'budget': 300 if tier == 'quick' else 3000}, timeout=900)
        run.bounded.append({'what': 'native search: all interleavings of small two-thread programs (refute mode)', 'tried': out.get('tried'),
                            'bound': out.get('bound'), 'found': bool(out.get('found'))})
        found = out.get('found')
        if not found and run.pending_failures:
            # the same failure may show on a single merged stream against the pairing specification
            out2 = native({'kind': 'pairing_search', 'depth': 4, 'seed': run.seed, 'budget': 40000}, timeout=900)
            run.bounded.append({'what': 'native search of event streams against the pairing specification (refute mode)', 'tried': out2.get('tried'),
                                'bound': out2.get('bound'), 'found': bool(out2.get('found'))})
            found = out2.get('found')
        if found and not run.pending_failures:
            run.add('C05/bounded-search', 'refuted', 'native bounded search', 0, 'pykdebugparser.traces_parser:TracesParser.feed')
            run.pending_failures.append(('C05/bounded-search', 'refuted', 'native search'))
    for ob, status, detail in run.pending_failures:
        if found:
            run.violation(ob, {'request': found['request'], 'native': found, 'solver_output': '%s (%s)' % (status, detail)}, True, what=found.get('what', ''))
        elif status == 'refuted':
            run.violation(ob, {'request': None, 'solver_output': 'obligation refuted (%s)' % detail}, False, what='obligation %s no longer holds' % ob)
        else:
            run.undecide(ob, 'not proved (%s)' % detail)
