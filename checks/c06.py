"""C06 - truncated dumps: parsing terminates and reports a prefix of the full result.

No well-formedness precondition: the file is an arbitrary byte array of arbitrary length (in particular
any truncation of a dump).  Termination = a variant (`decreases`) on every loop; `reads` is a ghost
counter (linear reading); "nothing fabricated" = every yielded event is the decoding of 64 bytes that lie
entirely inside the file at the position the loop invariant prescribes; the prefix claim is then a lemma over
that characterisation for a file and any of its truncations."""
import z3

from pyvc.harness import Session
from pyvc import solve, stream, paths as pathsmod
from pyvc.report import native
from pyvc.values import *  # noqa
from pyvc.interp import BreakSig, ContinueSig, GenVal
from checks import c02

MOD = 'pykdebugparser.kd_buf_parser'
I = z3.IntSort()
Q = z3.Int('c06!q')


def occurs_at(f, q, data):
    return z3.And([f.byte(q + k) == b for k, b in enumerate(data)] + [q + len(data) <= f.N, q >= 0])


def verify_seek_until(run, tier, prefix='C06/seek_until', total=True, data=b'stackshot_out_fl'):
    """total=True : no precondition, termination (C06).   total=False: an occurrence lies ahead; the reader ends
    right after the first one (C03)."""
    sess = Session()
    it = sess.it
    fq = MOD + ':seek_until'
    L = len(data)
    state = {}

    def whook(it_, stmt, fr):
        ctx = it.ctx
        reader = state['reader']
        f = reader.file
        pos0 = state['pos0']
        wname = next((k for k, v_ in fr.vars.items() if isinstance(v_, stream.FBytes)), 'found')   # the window variable, whatever its name
        state['wname'] = wname
        found0 = it.lookup(wname, fr)
        ok0 = isinstance(found0, stream.FBytes)
        ctx.oblige(prefix + '/loop.inv.establish', z3.And(found0.start + found0.length == reader.pos, found0.length <= L,
                                                          found0.start == pos0) if ok0 else z3.BoolVal(False), kind='invariant')
        if ctx.branch(z3.Bool('seek.inductive_step')):
            s, ln, ph = z3.Ints('seek.s seek.l seek.pos')
            ctx.assume(z3.And(s >= pos0, ln >= 0, ln <= L, s + ln == ph, ph <= f.N, ph >= pos0))
            if not total:
                # partial correctness: an occurrence lies at p* >= pos0, none starts before s, and the window is full
                pstar = state['pstar']
                ctx.assume(z3.And(ln == L, s <= pstar))
                ctx.assume(z3.ForAll([Q], z3.Implies(z3.And(Q >= pos0, Q < s), z3.Not(occurs_at(f, Q, data)))))
            reader._write('pos', ph)
            fr.set(state['wname'], stream.FBytes(f, s, ln))
            reads0 = reader.reads
            if not it.decide(it.eval(stmt.test, fr)):
                # loop exit: found == data
                if not total:
                    ctx.oblige(prefix + '/exit.right-after-the-first-occurrence', reader.pos == state['pstar'] + L)
                raise pathsmod.PathCut('exit')
            try:
                it.exec_loop_body(stmt.body, fr)
            except ContinueSig:
                pass          # `continue` ends the step like falling off the end of the body
            except BreakSig:
                raise Unsupported('break in seek_until')
            nf = it.lookup(state['wname'], fr)
            okf = isinstance(nf, stream.FBytes)
            ctx.oblige(prefix + '/loop.inv.preserve.window-is-the-last-bytes-read',
                       z3.And(nf.start + nf.length == reader.pos, nf.length <= L, nf.start >= pos0) if okf else z3.BoolVal(False), kind='invariant')
            if okf:
                if total:
                    # variant (N - pos, |found|) decreases lexicographically
                    ctx.oblige(prefix + '/loop.decreases', z3.Or(f.N - reader.pos < f.N - ph,
                                                                 z3.And(f.N - reader.pos == f.N - ph, nf.length < ln)), kind='variant')
                    ctx.oblige(prefix + '/loop.reads-linear', reader.reads - reads0 <= 1)
                else:
                    ctx.oblige(prefix + '/loop.inv.preserve.window-full', nf.length == L, kind='invariant')
                    ctx.oblige(prefix + '/loop.inv.preserve.no-earlier-occurrence',
                               z3.ForAll([Q], z3.Implies(z3.And(Q >= pos0, Q < nf.start), z3.Not(occurs_at(f, Q, data)))), kind='invariant')
                    ctx.oblige(prefix + '/loop.inv.preserve.not-past-the-occurrence', nf.start <= state['pstar'], kind='invariant')
            raise pathsmod.PathCut('step')
        return True
    it.symwhile_hook = whook

    def thunk(ctx):
        state.clear()
        f = stream.FileModel('file', ctx)
        p0 = z3.Int('pos0')
        ctx.assume(z3.And(p0 >= 0, p0 <= f.N))
        reader = stream.Reader(f, p0)
        state['reader'] = reader
        state['pos0'] = p0
        if not total:
            ps = z3.Int('pstar')
            state['pstar'] = ps
            ctx.assume(z3.And(ps >= p0, occurs_at(f, ps, data)))
            ctx.assume(z3.ForAll([Q], z3.Implies(z3.And(Q >= p0, Q < ps), z3.Not(occurs_at(f, Q, data)))))
        it.call(sess.func(fq), [reader, data], {})
        return None
    c02._explore(run, tier, sess, thunk, fq, prefix, allow_raise=total)


def verify_print_with_count(run, tier):
    sess = Session()
    it = sess.it
    fq = 'pykdebugparser.__main__:print_with_count'
    prefix = 'C06/print_with_count'
    state = {}
    out = PList()
    it.builtins['$stdout'] = out

    def hook(it_, stmt, fr, iterable):
        if not (isinstance(iterable, SymList) and iterable.origin == 'stream'):
            return False
        ctx = it.ctx
        cnt = state['count']
        if ctx.branch(z3.Bool('pwc.inductive_step')):
            i = z3.Int('pwc.i')
            ctx.assume(z3.And(i >= 0, i < iterable.length))
            # invariant: i items consumed so far, all of them printed; a local counter that the function initialised to 0
            # before the loop equals i (a loop that takes its index from enumerate() has none)
            counters = [nm for nm, v in fr.vars.items() if not nm.startswith('$') and isinstance(v, int) and not isinstance(v, bool) and v == 0]
            for nm in counters:
                fr.set(nm, SInt(i))
            x = iterable.elem(i)
            before = len(out.items)
            it.assign(stmt.target, x, fr)
            try:
                it.exec_loop_body(stmt.body, fr)
                broke = False
            except BreakSig:
                broke = True
            new = out.items[before:]
            if broke:
                ctx.oblige(prefix + '/stops-only-at-count', z3.And(i == cnt, z3.BoolVal(len(new) == 0)))
            else:
                ok = len(new) == 1 and len(new[0][1]) == 1
                ctx.oblige(prefix + '/prints-the-next-item', z3.And(z3.BoolVal(ok), i != cnt))
                if ok:
                    item = getattr(iterable, 'enumerated', iterable).elem(i)       # the stream's own item (enumerate() pairs it with its index)
                    ctx.oblige(prefix + '/prints-the-item-unchanged', z3.BoolVal(_same_text(it, new[0][1][0], item)))
                ctx.oblige(prefix + '/counter-counts-printed-items',
                           z3.And([zi(it.lookup(nm, fr)) == i + 1 for nm in counters]) if counters else z3.BoolVal(True))
            raise pathsmod.PathCut('step')
        return True
    it.symloop_hook = hook

    def _same_text(it_, printed, x):
        want = it.lib.to_str(it, x)
        return repr(printed) == repr(want)

    def thunk(ctx):
        state.clear()
        out.items = ()
        cnt = z3.Int('count')
        state['count'] = cnt
        item = ClassVal('Line', None, 'plain')
        sf = z3.Function('line.text', I, I)
        stream_ = SymList('stream', z3.Int('stream.len'), lambda q: atom_str(sf(q)), origin='stream')
        ctx.facts.append(stream_.length >= 0)
        it.call(sess.func(fq), [stream_, SInt(cnt)], {})
        return None
    c02._explore(run, tier, sess, thunk, fq, prefix)


# ---------------------------------------------------------------------------------------------- pipeline stages
STREAM_METHODS = ('kevents', 'formatted_kevents', 'traces', 'formatted_traces', 'callstacks', 'formatted_callstacks',
                  'os_log_events', 'formatted_logs')


def one_pass_generator(gen):
    """(upstream value, None) when the generator function consumes exactly one pipeline parameter in one top-level
    `for` loop, mentions it nowhere else and yields only inside that loop: then item k is produced before item k+1 of
    the upstream is requested, and nothing is produced once the upstream ends.  Otherwise (None, reason)."""
    import ast as _ast
    from pyvc.interp import GenVal, LazyIter
    fdef = gen.func.node
    ups = [n for n, v in gen.frame.vars.items() if isinstance(v, (GenVal, LazyIter)) or type(v).__name__ == 'StreamSrc']
    if len(ups) != 1:
        return None, 'generator with %d stream parameters' % len(ups)
    up = ups[0]
    loops = [st for st in fdef.body if isinstance(st, _ast.For) and isinstance(st.iter, _ast.Name) and st.iter.id == up]
    if len(loops) != 1 or loops[0].orelse:
        return None, 'the stream parameter is not consumed by exactly one top-level for loop'
    loop = loops[0]
    mentions = [n for n in _ast.walk(fdef) if isinstance(n, _ast.Name) and n.id == up and n is not loop.iter]
    if mentions:
        return None, 'the stream parameter is used outside the loop header (line %d)' % mentions[0].lineno
    inside = set(id(n) for n in _ast.walk(loop))
    for n in _ast.walk(fdef):
        if isinstance(n, (_ast.Yield, _ast.YieldFrom)) and id(n) not in inside:
            return None, 'yield outside the consuming loop (line %d)' % n.lineno
        if isinstance(n, _ast.YieldFrom):
            return None, 'yield from (line %d)' % n.lineno
    return gen.frame.vars[up], None


def pipeline_shape(v, src):
    """walk a returned stream value down to the parse source; (ok, description, reason)"""
    from pyvc.interp import GenVal, LazyIter
    desc = []
    while True:
        if isinstance(v, LazyIter):
            if v.kind not in ('filter', 'map'):
                return False, desc, 'stage %s' % v.kind
            desc.append(v.kind)
            v = v.src
        elif isinstance(v, GenVal):
            nxt, why = one_pass_generator(v)
            if nxt is None:
                return False, desc, '%s: %s' % (v.func.name, why)
            desc.append('generator ' + v.func.name)
            v = nxt
        elif v is src and v is not None:
            desc.append('parse')
            return True, desc, None
        else:
            return False, desc, 'stream of unrecognised kind %s' % type(v).__name__


def verify_pipeline(run, tier, root='C06'):
    """every listing of PyKdebugParser is a chain of lazy element-wise stages (filter / map / one-pass generators) over
    KdBufParser.parse: together with M2 this carries the per-function prefix results to events, traces, lines"""
    from checks import c13
    sess = Session()
    it = sess.it
    holder = {}
    c13.install_contracts(sess, holder)
    fqc = 'pykdebugparser.pykdebugparser:PyKdebugParser'
    for meth in STREAM_METHODS:
        prefix = '%s/pipeline/%s' % (root, meth)
        result = {}

        def thunk(ctx, meth=meth):
            holder.clear()
            self_, sets, _ = c13.setup(sess, ctx)
            reader = Obj(ClassVal('Reader', None, 'plain'), {})
            res = it.call(it.lib.getattr_(it, self_, meth), [reader], {})
            ok, desc, why = pipeline_shape(res, holder.get('src'))
            result.setdefault('shapes', []).append((ok, desc, why))
            return res
        try:
            prs = sess.explore(thunk)
        except Unsupported as ex:
            run.add(prefix + '.lazy-elementwise-stages', 'unsupported', '', 0, fqc + '.' + meth, str(ex))
            run.pending_failures.append((prefix + '.lazy-elementwise-stages', 'unsupported', str(ex)))
            continue
        bad = [(d, w) for ok, d, w in result.get('shapes', []) if not ok]
        raised = [p for p in prs if p.outcome == 'raise']
        if not result.get('shapes'):
            run.engine_error('%s pipeline %s: no path explored' % (root, meth))
        elif bad or raised:
            why = bad[0][1] if bad else '%s raised' % meth
            # an unrecognised shape is not a refutation: undecided unless the native sweep finds a failing dump
            run.add(prefix + '.lazy-elementwise-stages', 'unknown', 'shape analysis', 0, fqc + '.' + meth, why)
            run.pending_failures.append((prefix + '.lazy-elementwise-stages', 'unknown', why))
        else:
            run.add(prefix + '.lazy-elementwise-stages', 'proved', 'shape analysis (%d configurations)' % len(result['shapes']), 0, fqc + '.' + meth)



def verify_scanner_reading(run, tier):
    """the trailing blocks of a version-3 dump on ARBITRARY bytes (a cut dump): one iteration of the real block declaration
    either fails - the repetition stops - or makes progress and reads no more than a constant factor of what it consumes;
    with the repetition's exit this bounds the reading of the whole scan linearly"""
    from pyvc import construct_parse as CP
    sess = Session()
    it = sess.it
    fq = MOD + ':kd_v3_additional_data (GreedyRange element)'
    prefix = 'C06/parse_v3/scanner'

    def thunk(ctx):
        d = sess.module(MOD).ns['kd_v3_additional_data']
        if getattr(d, 'kind', None) != 'GreedyRange':
            raise Unsupported('kd_v3_additional_data is not a GreedyRange any more')
        f = stream.FileModel('file', ctx)
        q = z3.Int('scan.pos')
        ctx.assume(z3.And(q >= 0, q <= f.N))
        reader = stream.Reader(f, q)
        try:
            CP.parse(it, d.args[0], reader, None, None)
        except PyExc as ex:
            if ex.cls_name in ('StreamError', 'ConstError', 'RangeError', 'SelectError', 'ValueError', 'UnicodeDecodeError'):
                return None            # the element does not parse here: GreedyRange stops
            raise
        consumed = reader.pos - q
        ctx.oblige(prefix + '.iteration-makes-progress', consumed >= 8)
        ctx.oblige(prefix + '.iteration-reads-no-more-than-a-constant-factor-of-what-it-consumes', reader.nbytes <= 3 * consumed + 64)
        return None
    c02._explore(run, tier, sess, thunk, fq, prefix)


def prefix_lemma(run, tier):
    """if both runs are characterised by the record-loop invariant (event j = decode of file[b+64j : b+64j+64] lying
    inside the file, b = end of the header as parsed), then the events of a truncation are a prefix of the events
    of the full dump.  b is determined by the bytes before it; for the truncated file either the same b is found
    or the header parse does not complete (no events)."""
    fn = MOD + ':KdBufParser.parse_v2 (prefix lemma over the loop contract)'
    N, k, b, c1, c2, j = z3.Ints('N k b cnt_full cnt_cut j')
    F = z3.Const('F', z3.ArraySort(I, I))
    start = z3.Function('yield.start', I, I)
    hyp = [N >= 0, k >= 0, k <= N, b >= 0,
           # full run: events 0..c1-1 at b+64j, exit only at end of file (or error on a partial record)
           c1 >= 0, b + 64 * c1 <= N, N - (b + 64 * c1) < 64,
           # cut run over F[:k] with the same header end b (b <= k), same loop contract
           c2 >= 0, b <= k, b + 64 * c2 <= k, k - (b + 64 * c2) < 64]
    v = solve.prove(hyp, z3.And(c2 <= c1, z3.Implies(z3.And(j >= 0, j < c2), b + 64 * j + 64 <= k)), 20000, tier)
    _rec(run, 'C06/lemma/events-of-a-truncation-are-a-prefix', v, fn)
    # header end under truncation: the greedy zero padding stops at the first non-zero byte or at the end of the file:
    # with fewer bytes it stops at the same place or at the (earlier) end, where no record follows
    p0, bf, bc = z3.Ints('p0 b_full b_cut')
    x = z3.Int('x!pad')
    pad = lambda e, n_: [e >= p0, e <= n_, z3.ForAll([x], z3.Implies(z3.And(x >= p0, x < e), z3.Select(F, x) == 0)),
                         z3.Implies(e < n_, z3.Select(F, e) != 0)]
    hyp2 = [p0 >= 0, p0 <= k, k <= N] + pad(bf, N) + pad(bc, k)
    v = solve.prove(hyp2, z3.Or(bc == bf, bc == k), 20000, tier)
    _rec(run, 'C06/lemma/header-end-of-a-truncation', v, fn)


def _rec(run, name, v, fn):
    if v.status == 'proved':
        run.add(name, 'proved', v.backend, v.ms, fn, kind='lemma')
    else:
        run.add(name, v.status, v.backend, v.ms, fn, v.detail, kind='lemma')
        run.pending_failures.append((name, v.status, v.detail))


def run_check(run, tier):
    run.pending_failures = []
    run.trusted += ['pyvc interpreter; file/reader model; construct declaration interpreter', 'z3 5.1 / cvc5',
                    'contract of from_kd_buf (C01): raises on anything but 64 bytes',
                    'meta-lemma M2 (paper): a generator that consumes its input left to right and never revisits emitted '
                    'values is prefix-monotone; lifts the per-function results through the lazy filter/map stages']
    run.assumptions += ['reader.read(n) returns at most n bytes of the file from the current position and never invents bytes',
                        'wall-clock time is not modelled: "linear reading" is the ghost count of read calls per loop iteration']
    verify_seek_until(run, tier, total=True)
    c02.verify_parse_v2(run, tier, wf=False)
    from checks import c03
    c03.verify_chunk_loops(run, tier, wf=False, prefix='C06/parse_v3')
    verify_print_with_count(run, tier)
    verify_scanner_reading(run, tier)
    verify_pipeline(run, tier)
    prefix_lemma(run, tier)
    finish(run)


def finish(run):
    seek_fail = [x for x in run.pending_failures if '/seek_until/' in x[0]]
    if seek_fail:
        outs = native({'kind': 'seek_search'}, timeout=900)
        run.bounded.append({'what': 'bounded native search for seek_until (refute mode only)', 'tried': outs.get('tried'), 'bound': outs.get('bound'),
                            'found': bool(outs.get('found'))})
        f = outs.get('found')
        if f:
            for x in seek_fail:
                run.pending_failures.remove(x)
                run.violation(x[0], {'request': f['request'], 'native': f, 'solver_output': '%s (%s)' % (x[1], x[2])}, True, what='seek_until: ' + f.get('what', ''))
    out = native({'kind': 'truncation_search', 'seed': run.seed, 'budget': 40 if run.tier == 'quick' else 200}, timeout=900)
    run.bounded.append({'what': 'native truncation sweep: every cut offset of small version-2 and version-3 dumps under a read budget (refute mode only)',
                        'cuts_tried': out.get('tried'), 'bound': out.get('bound'), 'found': bool(out.get('found'))})
    found = out.get('found')
    if found and not run.pending_failures:
        run.pending_failures.append(('C06/bounded-search', 'refuted', 'native search'))
        run.add('C06/bounded-search', 'refuted', 'native bounded search', 0, MOD + ':KdBufParser.parse')
    for ob, status, detail in run.pending_failures:
        known = run.known_for(ob)
        if found:
            run.violation(ob, {'request': found['request'], 'native': found, 'solver_output': '%s (%s); failing truncation found by the native sweep' % (status, detail)},
                          True, what=found.get('what', ''))
        elif status == 'refuted':
            run.violation(ob, {'request': None, 'solver_output': 'obligation refuted (%s); the native truncation sweep found no failing cut' % detail},
                          False, what='obligation %s no longer holds' % ob)
        else:
            run.undecide(ob, 'not proved (%s) and no failing truncation found' % detail)
