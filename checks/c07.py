"""C07 - the trace pipeline processes every stream of individually well-formed events without raising: the decoder schema
(no feasible raise site in any decoder or its __str__), the pairing functions re-discharged under this name, and the lookup
reassembly loop (TracesParser.vnode_generator, the one loop every path-taking decoder goes through) - its step raises for no
sequence of lookup records, whatever their qualifiers."""
from checks import decoder_checks as D
from pyvc.report import native


def run_check(run, tier):
    D.standard(run, tier, 'C07')
    from checks import c08
    saved, run.pending_failures = getattr(run, 'pending_failures', []), []
    c08.verify_vnode_generator(run, tier, prefix='C07/vnode_generator', only=('/noraise', '/supported', '/is-a-generator'))
    mine, run.pending_failures = run.pending_failures, saved
    if mine or tier == 'thorough':
        out = native({'kind': 'lookup_robustness_search', 'seed': run.seed, 'budget': 400 if tier == 'quick' else 4000}, timeout=900)
        run.bounded.append({'what': 'native search: streams of lookup / string / system-call records with every qualifier through the pipeline (refute mode only)',
                            'tried': out.get('tried'), 'bound': out.get('bound'), 'found': bool(out.get('found'))})
        f = out.get('found')
        if f and not mine:
            mine = [('C07/bounded-search', 'refuted', 'native search')]
            run.add('C07/bounded-search', 'refuted', 'native bounded search', 0, 'pykdebugparser.traces_parser:TracesParser.vnode_generator')
        for ob, status, detail in mine:
            if f:
                run.violation(ob, {'request': f['request'], 'native': f, 'solver_output': '%s (%s)' % (status, detail)}, True, what=f.get('what', ''))
            elif status == 'refuted':
                run.violation(ob, {'request': None, 'solver_output': 'obligation refuted (%s)' % detail}, False, what='obligation %s no longer holds' % ob)
            else:
                run.undecide(ob, 'not proved (%s)' % detail)
