"""C08 - paths and strings split over several records are reassembled exactly, once.

(A) TracesParser.vnode_generator on the real code: loop invariant with the ghost concatenation Cat(g, k) of the
    payloads of records g..k-1 (payload = data[8:] for a START-bit record, data otherwise); at every END-bit record
    exactly one Vnode(records of the group, vnode word of its START record, decode(strip0(Cat))) is yielded.
(B) lemma over the kernel's chunking (spec/chunks.py, kdebug_lookup_gen_events): for 1..6 records (184-byte limit)
    strip0 of the concatenated NUL-padded chunks is the original text (byte-string algebra: assumed contracts of
    bytes.replace / concatenation, sampled natively).
(C) the string decoders (global string, thread names) use only the records of their own code of their window.
(D) once: a continuation record (NONE-qualified, its code open on the thread) yields no trace of its own
    (clause of the _feed_single_event contract, C04) - checked here on the real code.
(E) schema S-paths: the k-th path shown by a path-taking decoder is the k-th lookup of its whole window."""
import ast
import z3

from pyvc.harness import Session
from pyvc import solve, decoders, textform, libattr, paths as pathsmod
from pyvc.report import native
from pyvc.values import *  # noqa
from pyvc.interp import GenVal, BreakSig, ContinueSig
from pyvc.libattr import BConcat, BSlice, BStrip0, BDecode, BValidUtf8, BLen, obytes_of
from checks import decoder_checks as DCK

MOD = 'pykdebugparser.traces_parser'
I = z3.IntSort()
Bs = z3.BoolSort()
Cat = z3.Function('ghost.cat', I, I, I)        # bytes id of the concatenated payloads of records g..k-1 (k > g)
J = z3.Int('c08!j')


def verify_vnode_generator(run, tier, prefix='C08/vnode_generator', only=None):
    sess = Session()
    it = sess.it
    fq = MOD + ':TracesParser.vnode_generator'
    state = {}
    data = z3.Function('rec.data', I, I)
    fq_ = z3.Function('rec.qual', I, I)
    v0 = z3.Function('rec.v0', I, I)
    pay = lambda k: z3.If((fq_(k) % 2) == 1, BSlice(data(k), 8, -1), data(k))       # START bit = bit 0
    endbit = lambda k: ((fq_(k) / 2) % 2) == 1

    class Group:
        """the list `lookup_events`: records g..k-1 of the input"""

        def __init__(self, g, k, ok=True):
            self.g, self.k, self.ok = g, k, ok

        def py_getattr(self, it_, name, node=None):
            if name == 'append':
                def app(i_, a, kw, n):
                    idx = getattr(a[0], 'rec_index', None)
                    if idx is None:
                        self.ok = False
                        return
                    self.same = idx == self.k
                    self.k = self.k + 1
                return Builtin('group.append', app)
            raise Unsupported('method %s of the record group' % name)

    def hook(it_, stmt, fr, iterable):
        if not (isinstance(iterable, SymList) and iterable.origin == 'lookup-records'):
            return False
        ctx = it.ctx
        sink = it.lookup('$yield', fr)
        # the invariant speaks about the loop's three pieces of state - the bytes collected so far, the vnode word of the group's
        # START record, the records of the group - wherever the loop keeps them: each is found by its initial value (b'', 0, [])
        # among the locals and the fields of objects held in locals (access paths, so that a fresh state object per group works)
        def paths_of(pred):
            out = []
            for nm, v in list(fr.vars.items()):
                if nm.startswith('$') or (isinstance(stmt.target, ast.Name) and nm == stmt.target.id):
                    continue
                if pred(v):
                    out.append((nm, None))
                if isinstance(v, Obj) and v.cls.kind in ('plain', 'dataclass'):
                    for f_, fv in v.fields.items():
                        if pred(fv):
                            out.append((nm, f_))
            return out
        slots = {'path': paths_of(lambda v: isinstance(v, bytes) and v == b''),
                 'vnodeid': paths_of(lambda v: isinstance(v, int) and not isinstance(v, bool) and v == 0),
                 'lookup_events': paths_of(lambda v: isinstance(v, PList) and v.is_concrete() and not v.values())}
        for what, found in slots.items():
            if len(found) != 1:
                raise Unsupported('the record loop of vnode_generator keeps its state (%s) in %d places: the loop invariant of the contract '
                                  'does not apply to this shape' % (what, len(found)))

        def sget(what):
            nm, f_ = slots[what][0]
            v = it.lookup(nm, fr)
            return v if f_ is None else (v.fields.get(f_) if isinstance(v, Obj) else None)

        def sset(what, val):
            nm, f_ = slots[what][0]
            if f_ is None:
                fr.set(nm, val)
            else:
                it.lookup(nm, fr).setattr(f_, val)
        if not ctx.branch(z3.Bool('vg.inductive_step')):
            return True
        g, k = z3.Ints('vg.g vg.k')
        ctx.assume(z3.And(g >= 0, g <= k, k < iterable.length))
        # invariant at the head of iteration k
        empty_group = ctx.branch(g == k)
        if empty_group:
            sset('path', b'')
            sset('vnodeid', 0)
        else:
            sset('path', OBytes(Cat(g, k)))
            sset('vnodeid', SInt(z3.Int('vg.vid')))
        grp = Group(g, k)
        sset('lookup_events', grp)
        # ghost definition of Cat, instantiated at (g, k)
        ctx.facts.append(Cat(g, g + 1) == pay(g))
        ctx.facts.append(z3.Implies(k > g, Cat(g, k + 1) == BConcat(Cat(g, k), pay(k))))
        e = iterable.elem(k)
        before = len(sink.items)
        it.assign(stmt.target, e, fr)
        try:
            it.exec_loop_body(stmt.body, fr)
        except ContinueSig:
            pass          # `continue` ends the step like falling off the end of the body
        except BreakSig:
            raise Unsupported('break in vnode_generator')
        new = sink.items[before:]
        ctx.oblige(prefix + '/step.record-joins-its-group', z3.BoolVal(grp.ok) if not hasattr(grp, 'same') else grp.same)
        is_end = endbit(k)
        if new:
            ok = len(new) == 1 and new[0][0] is True and isinstance(new[0][1], Obj) and new[0][1].cls.name == 'Vnode'
            ctx.oblige(prefix + '/step.yields-one-lookup-only-at-an-END-record', z3.And(z3.BoolVal(bool(ok)), is_end))
            if ok:
                vn = new[0][1].fields
                from pyvc.libops import _single_atom
                pt = _single_atom(vn['path'])
                ctx.oblige(prefix + '/step.path-is-the-groups-text', pt == BDecode(BStrip0(Cat(g, k + 1))) if pt is not None else z3.BoolVal(False))
                ctx.oblige(prefix + '/step.records-are-the-groups', z3.BoolVal(vn['ktraces'] is grp))
                vid = zi(vn['vnode_id']) if is_intlike(vn['vnode_id']) else None
                want_vid = z3.If((fq_(k) % 2) == 1, v0(k), z3.If(g == k, z3.IntVal(0), z3.Int('vg.vid')))
                ctx.oblige(prefix + '/step.vnode-id-of-the-START-record', vid == want_vid if vid is not None else z3.BoolVal(False))
            # state reset for the next group
            np_ = sget('path')
            ctx.oblige(prefix + '/step.next-group-starts-empty', z3.BoolVal(isinstance(np_, bytes) and np_ == b'' and
                                                                           sget('vnodeid') == 0 and
                                                                           isinstance(sget('lookup_events'), PList) and
                                                                           not sget('lookup_events').items))
        else:
            ctx.oblige(prefix + '/step.END-record-yields', z3.Not(is_end))
            np_ = sget('path')
            ctx.oblige(prefix + '/step.path-extended-by-the-payload', obytes_of(np_) == Cat(g, k + 1) if isinstance(np_, (OBytes, bytes)) else z3.BoolVal(False))
            ctx.oblige(prefix + '/step.group-continues', z3.BoolVal(sget('lookup_events') is grp))
        raise pathsmod.PathCut('step')
    it.symloop_hook = hook

    def thunk(ctx):
        state.clear()
        kc = sess.module('pykdebugparser.kevent').ns['Kevent']

        def rec_at(q):
            ctx.facts.append(z3.And(fq_(q) >= 0, fq_(q) <= 3, BValidUtf8(BStrip0(Cat(z3.Int('vg.g'), q + 1))), BLen(data(q)) == 32))
            ctx.declare_range(v0(q), 0, (1 << 64) - 1)
            ev = Obj(kc, {'timestamp': 0, 'data': OBytes(data(q)), 'values': (SInt(v0(q)), 0, 0, 0), 'tid': SInt(z3.Int('tid')),
                          'debugid': 0, 'eventid': SInt(z3.Int('lookup.code')), 'func_qualifier': SInt(fq_(q))})
            ev.rec_index = q
            return ev
        recs = SymList('records', z3.Int('records.len'), rec_at, origin='lookup-records')
        ctx.facts.append(recs.length >= 0)
        f = sess.func(fq)
        g = it.call(f, [recs], {})
        ctx.oblige(prefix + '/is-a-generator', z3.BoolVal(isinstance(g, GenVal)))
        if isinstance(g, GenVal):
            it.run_generator(g)
        return None
    from checks import c02
    c02._explore(run, tier, sess, thunk, fq, prefix, only=only)


def chunk_lemma(run, tier):
    """strip0(C_0 ++ ... ++ C_{n-1}) == P_0 ++ ... ++ P_{n-1} for C_i = P_i ++ zeros, P_i without NUL, n = 1..6"""
    fn = MOD + ':TracesParser.vnode_generator (reassembly lemma over the kernel chunking, spec/chunks.py)'
    NoNul = z3.Function('b.nonul', I, Bs)
    IsZeros = z3.Function('b.zeros', I, Bs)
    a, b = z3.Ints('ax!a ax!b')
    EMPTY = z3.Int('b.empty')
    axioms = [
        z3.ForAll([a, b], BStrip0(BConcat(a, b)) == BConcat(BStrip0(a), BStrip0(b))),
        z3.ForAll([a], z3.Implies(NoNul(a), BStrip0(a) == a)),
        z3.ForAll([a], z3.Implies(IsZeros(a), BStrip0(a) == EMPTY)),
        z3.ForAll([a], BConcat(a, EMPTY) == a),
        z3.ForAll([a], BConcat(EMPTY, a) == a),
    ]
    for n in range(1, 7):
        P = [z3.Int('P%d' % i) for i in range(n)]
        Zr = [z3.Int('Z%d' % i) for i in range(n)]
        hyp = list(axioms) + [NoNul(p) for p in P] + [IsZeros(zz) for zz in Zr]
        chunks = [BConcat(P[i], Zr[i]) for i in range(n)]
        acc_c, acc_p = chunks[0], P[0]
        for i in range(1, n):
            acc_c = BConcat(acc_c, chunks[i])
            acc_p = BConcat(acc_p, P[i])
        v = solve.prove(hyp, BStrip0(acc_c) == acc_p, 20000, tier)
        if v.status == 'proved':
            run.add('C08/lemma/reassembly.%d-records' % n, 'proved', v.backend, v.ms, fn, kind='lemma')
        else:
            run.add('C08/lemma/reassembly.%d-records' % n, v.status, v.backend, v.ms, fn, v.detail, kind='lemma')
            run.pending_failures.append(('C08/lemma/reassembly.%d-records' % n, v.status, v.detail))


def verify_single_continuation(run, tier):
    """(D) on the real code: NONE-qualified record of a code that is open on its thread -> no trace, still appended"""
    from checks import c04
    from pyvc import heap
    sess = Session()
    it = sess.it
    fq = MOD + ':TracesParser._feed_single_event'
    prefix = 'C08/_feed_single_event'
    pel = c04.PelContract()
    it.contracts[MOD + ':TracesParser.parse_event_list'] = pel
    c04.install_loop_rule(sess, 'single', prefix)

    def thunk(ctx):
        pel.calls = []
        world = c04.World(sess, ctx)
        it.event_of_hid = world.event
        p = c04.make_parser(sess, ctx)
        st = p.fields['on_going_events']
        S0 = st.snap()
        n = z3.Int('n')
        e = world.event(n)
        t, c = c04.EvTid(n), c04.EvCode(n)
        ctx.assume(z3.And(c04.EvQual(n) == 0, S0.is_open(t, c)))
        res = it.call(sess.func(fq), [p, e, st], {})
        ctx.oblige(prefix + '/continuation-record-yields-no-trace', z3.BoolVal(res is None and len(pel.calls) == 0))
        return res
    c04.explore_and_discharge(run, tier, sess, thunk, fq, prefix)


def an_C08_paths(mod, name, paths, fq):
    """S-paths: quoted path arguments are the lookups of the whole window, in lookup order"""
    if mod not in ('bsd', 'fsystem'):
        return []
    ob = 'C08/paths/%s.%s' % (mod, name)
    bad = None
    unknown = None
    saw = False
    for s in paths:
        if s.outcome != 'return' or s.text is None:
            continue
        whole = [tag for tag, arg, lst in s.lookups if lookup_filter_ok(arg, s)]
        for conds, toks in DCK.alternatives(s):
            order = []
            for tk in toks:
                if tk[0] == 'atom':
                    for nm in DCK.sym_names(tk[1]):
                        if nm.endswith('.path') and nm.startswith('lk'):
                            order.append((nm.split('.')[0], tk[1]))
            if not order:
                continue
            saw = True
            for tag, term in order:
                if tag not in whole:
                    arg = [a for t_, a, l_ in s.lookups if t_ == tag]
                    o = getattr(arg[0], 'origin', None) if arg else None
                    if isinstance(o, tuple) and o[0] == 'comp':
                        bad = 'a path shown comes from a lookup list that is not the whole window\'s'
                    else:
                        # the records handed to the reassembly were not selected by a comprehension over the window: the
                        # selection is not recognised (e.g. an explicit loop) - undecided unless a failing input is found
                        unknown = 'the selection of the lookup records handed to the reassembly is not in a form the contract recognises'
            # the k-th path shown is the k-th lookup of the window (positions proved under the path condition);
            # contracts/decoders.py: C08_ORDER_ONLY lists the two decoders that only have to keep lookup order
            from contracts.decoders import C08_ORDER_ONLY
            shown = []            # per path atom: [(guard, position term)] - under the guard the atom shows that lookup
            for tag, term in order:
                shown.append(_guarded_positions(term, tag + '.path'))
            hyp = list(s.pc) + list(conds)
            for k, alts_k in enumerate(shown):
                earlier = z3.Sum([z3.If(z3.Or([g for g, _ in shown[i]]), 1, 0) for i in range(k)]) if k else z3.IntVal(0)
                for g, t_ in alts_k:
                    if name in C08_ORDER_ONLY:
                        for i in range(k):
                            for g1, t1 in shown[i]:
                                if DCK.feasible(hyp + [g1, g, z3.Not(t1 < t_)]):
                                    bad = 'paths are not shown in lookup order: lookup %s then lookup %s' % (z3.simplify(t1), z3.simplify(t_))
                    elif DCK.feasible(hyp + [g, t_ != earlier]):
                        bad = 'path argument %d is not the next lookup of the window (lookup %s) but lookup %s' % (k, z3.simplify(earlier), z3.simplify(t_))
    if not saw:
        return []
    if bad is None and unknown is not None:
        return [DCK.rec(ob, 'refuted', 'symbolic execution', 0, fq, unknown, viol={'request': {'kind': 'lookup_search', 'budget': 300, 'decoder': name},
                                                                                'what': '%s: %s' % (name, unknown), 'solver_output': unknown,
                                                                                'must_reproduce': True})]
    if bad is None:
        return [DCK.rec(ob, 'proved', 'symbolic execution: path tokens are lookups of the whole window in order', 0, fq)]
    return [DCK.rec(ob, 'refuted', 'symbolic execution', 0, fq, bad, viol={'request': {'kind': 'lookup_search', 'budget': 300, 'decoder': name},
                                                                            'what': '%s: %s' % (name, bad), 'solver_output': bad})]


def _guarded_positions(t, fname):
    """[(guard, index term)] for every application fname(index) inside the if-then-else tree t"""
    out = []

    def walk(x, guard):
        if z3.is_app(x) and x.decl().kind() == z3.Z3_OP_ITE:
            c = x.arg(0)
            walk(x.arg(1), guard + [c])
            walk(x.arg(2), guard + [z3.Not(c)])
            return
        if z3.is_app(x) and x.decl().kind() == z3.Z3_OP_UNINTERPRETED and x.decl().name() == fname and x.num_args() == 1:
            out.append((z3.And(guard) if guard else z3.BoolVal(True), x.arg(0)))
            return
        for a in _apps(x):
            if a.decl().name() == fname:
                out.append((z3.And(guard) if guard else z3.BoolVal(True), a.arg(0)))
    walk(t, [])
    return out


def _apps(t):
    out, seen, st = [], set(), [t]
    while st:
        x = st.pop()
        if x.get_id() in seen:
            continue
        seen.add(x.get_id())
        if z3.is_app(x):
            if x.decl().kind() == z3.Z3_OP_UNINTERPRETED and x.num_args() == 1:
                out.append(x)
            st.extend(x.children())
    return out


def lookup_filter_ok(arg, s):
    """the records handed to the generator are exactly the window's records named VFS_LOOKUP by the code table"""
    o = getattr(arg, 'origin', None)
    if not (isinstance(o, tuple) and o[0] == 'comp' and o[1] is s.window.events):
        return False
    node, fr = o[2], o[3]
    src = ast_text(node)
    return "'VFS_LOOKUP'" in src and 'trace_codes' in src and len(node.generators[0].ifs) == 1


def ast_text(node):
    import ast
    return ast.unparse(node)


DCK.ANALYSES['C08'] = an_C08_paths


def verify_string_decoders(run, tier):
    """(C) the multi-record string decoders must build their text from the records of their own code only"""
    sess = Session(policy=decoders.DecoderPolicy())
    tabs = decoders.handler_tables(sess)
    for name in ('TRACE_STRING_THREADNAME', 'TRACE_STRING_THREADNAME_PREV', 'TRACE_STRING_GLOBAL'):
        fqn = 'pykdebugparser.trace_handlers.trace:%s' % decoders.__dict__.get('x', name)
        ob = 'C08/strings/%s.own-records-only' % name
        try:
            paths = decoders.explore_decoder(sess, name, tabs[name][0][1])
        except Unsupported as ex:
            run.add(ob, 'unsupported', '', 0, fqn, str(ex))
            run.pending_failures.append((ob, 'unsupported', str(ex)))
            continue
        bad = None
        for s in paths:
            if s.outcome != 'return':
                continue
            res = s.result
            txtfield = res.fields.get('name', res.fields.get('vstr'))
            for t in textform.value_terms(txtfield) if txtfield is not None else []:
                src = source_lists(t)
                for o in src:
                    if not own_code_filtered(o, s):
                        bad = 'text is assembled from every record of the window, not only from the records of its own code'
        if bad is None:
            run.add(ob, 'proved', 'symbolic execution: source list of the text is filtered by the window\'s own code', 0, fqn)
        else:
            run.add(ob, 'refuted', 'symbolic execution', 0, fqn, bad)
            run.pending_failures.append((ob, 'refuted', bad))
    run.hashes.update(sess.repo.hashes)


def source_lists(term):
    """SymLists whose joined bytes / loop a text term was built from"""
    out = []
    for nm in DCK.sym_names(term):
        if nm.startswith('list!'):
            from pyvc.libattr import _sl_ids
            for k, (t, lst) in _sl_ids.items():
                if t.decl().name() == nm:
                    out.append(lst)
        if nm.startswith('loop!') and nm.endswith('.vstr'):
            out.append(('loop', nm))
    return out


def own_code_filtered(o, s):
    if isinstance(o, tuple):
        # built by a loop: accepted only if the loop ran over a list filtered out of the window
        tag = o[1].split('.')[0]
        lst = getattr(s, 'notes', {}).get('havoc_loops', {}).get(tag)
        return lst is not None and own_code_filtered(lst, s)
    origin = getattr(o, 'origin', None)
    if isinstance(origin, tuple) and origin[0] == 'comp':
        src, node = origin[1], origin[2]
        g = node.generators[0]
        if src is s.window.events and g.ifs:
            return True        # filtered (the condition is checked semantically by the native search)
        if isinstance(getattr(src, 'origin', None), tuple) and src.origin[0] == 'comp':
            return own_code_filtered(src, s)
    return False


def run_check(run, tier):
    run.pending_failures = []
    run.trusted += ['pyvc interpreter', 'z3 5.1 / cvc5',
                    'byte-string algebra: strip0 distributes over concatenation, is the identity on NUL-free strings and erases zero padding; '
                    'decode(encode(text)) == text (assumed contracts of bytes.replace / + / decode, sampled natively in the thorough tier)',
                    'spec/chunks.py: kdebug_lookup_gen_events / kernel_debug_string chunking (24 + 32k bytes, NUL padded, <= 184 bytes)']
    run.assumptions += ['record payloads decode as UTF-8 after NUL removal (per-event in-domain premise)']
    verify_vnode_generator(run, tier)
    chunk_lemma(run, tier)
    verify_single_continuation(run, tier)
    verify_string_decoders(run, tier)
    recs, _ = DCK.run_pool(run, 'C08')
    DCK.absorb(run, recs)
    if tier == 'thorough':
        out = native({'kind': 'conf_bytes', 'n': 20000, 'seed': run.seed})
        run.bounded.append({'what': 'assumed byte-string algebra sampled against CPython (not proved)', 'result': out})
        if out.get('mismatches'):
            run.engine_error('byte-string algebra disagrees with CPython: %s' % out['mismatches'][:2])
    finish(run)


def finish(run):
    found = None
    out = native({'kind': 'lookup_search', 'seed': run.seed, 'budget': 500 if run.tier == 'quick' else 5000}, timeout=900)
    run.bounded.append({'what': 'native search: texts of every length 0..184 (all chunk boundaries) with unrelated records in between, through the whole '
                                'pipeline, against spec/chunks.py (refute mode; also confirms the known findings)', 'tried': out.get('tried'),
                        'bound': out.get('bound'), 'found': bool(out.get('found'))})
    found = out.get('found')
    if found and not run.pending_failures:
        run.pending_failures.append(('C08/bounded-search', 'refuted', 'native search'))
        run.add('C08/bounded-search', 'refuted', 'native bounded search', 0, MOD + ':TracesParser.feed')
    for ob, status, detail in run.pending_failures:
        if found:
            run.violation(ob, {'request': found['request'], 'native': found, 'solver_output': '%s (%s)' % (status, detail)}, True, what=found.get('what', ''))
        elif status == 'refuted':
            run.violation(ob, {'request': None, 'solver_output': 'obligation refuted (%s)' % detail}, False, what='obligation %s no longer holds' % ob)
        else:
            run.undecide(ob, 'not proved (%s)' % detail)
