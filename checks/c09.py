from checks import decoder_checks as D


def run_check(run, tier):
    D.standard(run, tier, 'C09')
