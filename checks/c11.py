"""C11 - flag words and packed fields decode to exactly the names of the bits set.

Function contracts over one symbolic 64-bit word per flag decoder (the real function body is
symbolically executed; loops over enum classes / tuples are unrolled exactly, appends are merged into a
guarded list), table lemmas against spec/darwin.py, and the _IOC inverse for all 2^32 request words."""
import z3

from pyvc.harness import Session, discharge
from pyvc import solve, decoders, textform
from pyvc.report import native
from pyvc.values import *  # noqa
from pyvc.libops import and_const
from pyvc.interp import DefaultPolicy
from contracts import flags as C

W64 = (1 << 64) - 1


def items_of(v):
    if isinstance(v, PList):
        return list(v.items)
    raise Unsupported('flag decoder did not return a list')


def shown(items, name):
    gs = []
    for g, m in items:
        if isinstance(m, EnumVal) and m.name == name:
            gs.append(z3.BoolVal(True) if g is True else g)
    return z3.Or(gs) if gs else z3.BoolVal(False)


def listing_obligations(prefix, items, w, cls, spec_tbl, fields, zero_name):
    """[(name, goal, what, probe)] for one listing of word term w."""
    obs = []
    members = cls.canonical_members()
    field_names = set(fields['values'].values()) if fields else set()
    fmask = fields['mask'] if fields else 0
    singles = [(n, v) for n, v in members if v and v & (v - 1) == 0 and n not in field_names and n not in C.MASK_NAMES
               and not (fmask and v & fmask)]
    allbits = 0
    for n, v in singles:
        allbits |= v
    for g, m in items:
        if not isinstance(m, EnumVal):
            raise Unsupported('non-member in flag list')
        gz = z3.BoolVal(True) if g is True else g
        if m.name in field_names:
            fv = and_const(w, fmask)
            defined = z3.Or([fv == v for v in fields['values']])
            # a value the headers do not define may be shown by any name whose bits are set
            goal = z3.Implies(gz, z3.Or(fv == m.value, z3.And(z3.Not(defined), and_const(w, m.value) == m.value)))
            what = '%s shown although the field (mask %#o) holds another defined value' % (m.name, fmask)
        elif m.value == 0:
            goal = z3.Implies(gz, and_const(w, allbits | fmask) == 0) if zero_name else z3.BoolVal(False)
            what = '%s shown although declared bits are set' % m.name
        else:
            goal = z3.Implies(gz, and_const(w, m.value) == m.value)
            what = '%s shown although its bits are not set' % m.name
        obs.append(('%s/sound.%s' % (prefix, m.name), goal, what, {'must_not_show': m.name}))
    for n, v in singles:
        goal = z3.Implies(and_const(w, v) != 0, shown(items, n))
        obs.append(('%s/complete.%s' % (prefix, n), goal, 'declared flag %s is set but not shown' % n, {'must_show': n}))
    if fields:
        declared = dict(members)
        for val, n in sorted(fields['values'].items()):
            if n not in declared:
                continue
            goal = z3.Implies(and_const(w, fmask) == val, shown(items, n))
            obs.append(('%s/field.%s' % (prefix, n), goal, 'field value %#o (%s) is not shown by its name' % (val, n),
                        {'must_show': n}))
    if zero_name:
        goal = z3.Implies(w == 0, shown(items, zero_name))
        obs.append(('%s/zero.%s' % (prefix, zero_name), goal, 'a zero word does not show %s' % zero_name, {'must_show': zero_name}))
    return obs


def run_check(run, tier):
    sess = Session()
    spec = __import__('spec.darwin', fromlist=['x'])
    run.trusted += ['pyvc interpreter', 'z3 5.1', 'spec/darwin.py (Darwin header constants, written independently)',
                    'enum iteration order model (validated against the child interpreter on this run)']
    run.assumptions += ['flag words range over 0..2^64-1 (a recorded argument word); x & mask encoded with floor div/mod',
                        'iteration over an Enum class yields non-alias members in definition order; over a Flag class '
                        'only canonical single-bit members (CPython >= 3.11) - checked natively each run']
    # ---- enum iteration model vs the interpreter the repository runs under
    classes = [(m, e) for m, f, e, t, fl, z in C.FUNCTIONS] + [(m, e) for d, fld, k, m, e, t in C.INLINE]
    nat = native({'kind': 'enum_iter', 'classes': [['pykdebugparser.trace_handlers.' + m, e] for m, e in classes]})
    for (m, e), got in zip(classes, nat.get('members', [])):
        cls = sess.module('pykdebugparser.trace_handlers.' + m).ns[e]
        mine = [n for n, _ in cls.iter_members()]
        if got != mine:
            run.engine_error('enum iteration model differs from CPython for %s: %s vs %s' % (e, mine, got))
    # ---- table lemmas: declared names carry Darwin's values
    seen = set()
    for m, e, t in [(m, e, t) for m, f, e, t, fl, z in C.FUNCTIONS] + [(m, e, t) for d, fld, k, m, e, t in C.INLINE]:
        if (m, e) in seen:
            continue
        seen.add((m, e))
        cls = sess.module('pykdebugparser.trace_handlers.' + m).ns[e]
        tbl = getattr(spec, t)
        for n, v in cls.members:
            ob = 'C11/table/%s.%s' % (e, n)
            if n not in tbl:
                run.add(ob, 'refuted', 'exhaustive table lemma', 0, '%s:%s' % (m, e), 'name unknown to the Darwin table')
                run.violation(ob, {'request': None, 'solver_output': '%s.%s = %r is not a Darwin constant of this family' % (e, n, v)},
                              False, what='%s.%s is not defined by the Darwin headers' % (e, n))
            elif tbl[n] != v:
                run.add(ob, 'refuted', 'exhaustive table lemma', 0, '%s:%s' % (m, e), '%r != %r' % (v, tbl[n]))
                run.violation(ob, {'request': {'kind': 'enum_value', 'module': 'pykdebugparser.trace_handlers.' + m, 'cls': e,
                                               'name': n, 'expect': tbl[n]},
                                   'solver_output': '%s.%s = %#x but Darwin defines %#x' % (e, n, v, tbl[n])}, True,
                              what='%s.%s has value %#x, Darwin defines %#x' % (e, n, v, tbl[n]))
            else:
                run.add(ob, 'proved', 'exhaustive table lemma', 0, '%s:%s' % (m, e))
    run.hashes.update(sess.repo.hashes)
    # ---- function contracts
    for m, fname, e, t, fl, zero in C.FUNCTIONS:
        mod = sess.module('pykdebugparser.trace_handlers.' + m)
        f = mod.ns[fname]
        cls = mod.ns[e]
        fq = 'pykdebugparser.trace_handlers.%s:%s' % (m, fname)
        fields = getattr(spec, fl) if fl else None

        def thunk(ctx, f=f, cls=cls, fields=fields, zero=zero, fname=fname, t=t):
            w = z3.Int('word')
            ctx.declare_range(w, 0, W64)
            r = sess.it.call(f, [SInt(w)], {})
            for name, goal, what, probe in listing_obligations('C11/%s' % fname, items_of(r), w, cls, getattr(spec, t), fields, zero):
                ctx.oblige(name, goal, info={'what': what, 'probe': probe})
            return r
        try:
            paths = sess.explore(thunk)
        except Unsupported as ex:
            run.add('C11/%s/supported' % fname, 'unsupported', '', 0, fq, str(ex))
            run.undecide('C11/%s/supported' % fname, str(ex))
            continue
        agg = {}
        for p in paths:
            if p.outcome == 'raise':
                r, mdl = solve.satisfiable(p.pc)
                word = solve.model_int(mdl, z3.Int('word')) if mdl is not None else 0
                req = {'kind': 'flags', 'module': 'pykdebugparser.trace_handlers.' + m, 'func': fname, 'word': word,
                       'probe': {'no_raise': True}}
                out = native(req)
                ob = 'C11/%s/total' % fname
                run.add(ob, 'refuted', 'z3-5.1', 0, fq, str(p.exc.cls_name))
                run.violation(ob, {'request': req, 'native': out, 'solver_output': 'raise site feasible'}, bool(out.get('violates')),
                              what='%s raises %s for word %#x' % (fname, p.exc.cls_name, word))
                continue
            for ob in p.obligations:
                v = solve.prove(ob.pc, ob.goal, 20000, tier)
                cur = agg.setdefault(ob.name, {'status': 'proved', 'ms': 0.0, 'backend': v.backend, 'viol': None})
                cur['ms'] += v.ms
                if v.status == 'refuted' and cur['status'] != 'refuted':
                    word = solve.model_int(v.model, z3.Int('word')) if v.model is not None else 0
                    req = {'kind': 'flags', 'module': 'pykdebugparser.trace_handlers.' + m, 'func': fname, 'word': word,
                           'probe': ob.info['probe']}
                    cur.update(status='refuted', viol=(req, ob.info['what'], word))
                elif v.status not in ('proved', 'refuted') and cur['status'] == 'proved':
                    cur.update(status=v.status, detail=v.detail)
        for name, cur in sorted(agg.items()):
            if cur['status'] == 'proved':
                run.add(name, 'proved', cur['backend'], cur['ms'], fq)
            elif cur['status'] == 'refuted':
                req, what, word = cur['viol']
                out = native(req)
                run.add(name, 'known-finding' if run.known_for(name) else 'refuted', cur['backend'], cur['ms'], fq, 'word=%#x' % word)
                run.violation(name, {'request': req, 'native': out, 'solver_output': 'sat: word=%#x' % word},
                              bool(out.get('violates')), what='%s (word %#x)' % (what, word))
            else:
                run.add(name, 'unknown', cur['backend'], cur['ms'], fq, cur.get('detail', ''))
                run.undecide(name, 'solver: ' + cur.get('detail', ''))
    # ---- inline comprehensions inside decoders
    dsess = Session(policy=decoders.DecoderPolicy())
    tabs = decoders.handler_tables(dsess)
    for dname, field, k, m, e, t in C.INLINE:
        fq = 'pykdebugparser.trace_handlers.bsd:%s' % dname
        cls = dsess.module('pykdebugparser.trace_handlers.' + m).ns[e]
        try:
            paths = decoders.explore_decoder(dsess, dname, tabs[dname][0][1], render=False)
        except (Unsupported, KeyError) as ex:
            run.add('C11/%s.%s/supported' % (dname, field), 'unsupported', '', 0, fq, str(ex))
            run.undecide('C11/%s.%s/supported' % (dname, field), str(ex))
            continue
        agg = {}
        for p in paths:
            if p.outcome != 'return':
                continue
            w = z3.Select(p.window.v[k], 0)
            try:
                items = items_of(p.result.fields[field])
            except (Unsupported, KeyError, AttributeError) as ex:
                run.add('C11/%s.%s/shape' % (dname, field), 'unsupported', '', 0, fq, str(ex))
                run.undecide('C11/%s.%s/shape' % (dname, field), str(ex))
                continue
            for name, goal, what, probe in listing_obligations('C11/%s.%s' % (dname, field), items, w, cls, getattr(spec, t), None, None):
                v = solve.prove(p.pc, goal, 20000, tier)
                cur = agg.setdefault(name, {'status': 'proved', 'ms': 0.0, 'backend': v.backend})
                cur['ms'] += v.ms
                if v.status == 'refuted' and cur['status'] != 'refuted':
                    req, model = decoders.concretize(p, [z3.Not(goal)])
                    cur.update(status='refuted', req=req, what=what, probe=probe)
                elif v.status not in ('proved', 'refuted') and cur['status'] == 'proved':
                    cur.update(status=v.status, detail=v.detail)
        for name, cur in sorted(agg.items()):
            if cur['status'] == 'proved':
                run.add(name, 'proved', cur['backend'], cur['ms'], fq)
            elif cur['status'] == 'refuted':
                req = None
                out = None
                if cur.get('req') is not None:
                    req = {'kind': 'decoder_field_names', 'run': cur['req'], 'field': field, 'probe': cur['probe']}
                    out = native(req)
                run.add(name, 'refuted', cur['backend'], cur['ms'], fq)
                run.violation(name, {'request': req, 'native': out, 'solver_output': 'sat'}, bool(out and out.get('violates')),
                              what='%s: %s' % (dname, cur['what']))
            else:
                run.add(name, 'unknown', cur['backend'], cur['ms'], fq, cur.get('detail', ''))
                run.undecide(name, 'solver: ' + cur.get('detail', ''))
    ioctl_contract(run, sess, spec, tier)
    verify_flag_slot_sources(run, tier)
    run.extra['flag_functions'] = [f for _, f, _, _, _, _ in C.FUNCTIONS]
    run.samples.append({'obligation': 'C11/serialize_open_flags/complete.O_CREAT',
                        'goal': '(word & 0x200 != 0) => O_CREAT in result   for every 0 <= word < 2^64'})


def an_C11_slots(mod, name, paths, fq):
    """which word is decoded: a decoder that shows a parameter symbolically (a list of flag names) decodes the START word at
    that parameter's own position (the positional clause of C09, restricted to the decoders with flag parameters)"""
    from checks import decoder_checks as DCK
    from pyvc import textform

    def has_flag_list(s):
        if s.text is None:
            return False
        for conds, toks in textform.flatten(s.text):
            for tk in toks:
                if tk[0] in ('join', 'flagname'):
                    return True
        return False
    if not any(has_flag_list(s) for s in paths if s.outcome == 'return'):
        return []
    out = []
    for r in DCK.an_C09(mod, name, paths, fq):
        if '.source' not in r['name']:
            continue
        r = dict(r)
        r['name'] = r['name'].replace('C09/', 'C11/flag-parameter-position/', 1)
        out.append(r)
    return out


def verify_flag_slot_sources(run, tier):
    from checks import decoder_checks as DCK
    DCK.ANALYSES['C11'] = an_C11_slots
    recs, _ = DCK.run_pool(run, 'C11')
    DCK.absorb(run, recs)


def ioctl_contract(run, sess, spec, tier):
    """BscIoctl.__str__ shows the exact inverse of _IOC for every 32-bit request word, without raising."""
    mod = sess.module('pykdebugparser.trace_handlers.bsd')
    cls = mod.ns['BscIoctl']
    fq = 'pykdebugparser.trace_handlers.bsd:BscIoctl.__str__'

    def thunk(ctx):
        w = z3.Int('request')
        ctx.declare_range(w, 0, (1 << 32) - 1)
        o = Obj(cls, {'ktraces': PList(), 'fildes': SInt(z3.Int('fildes')), 'request': SInt(w), 'arg': SInt(z3.Int('arg')),
                      'result': ''})
        return sess.it.call(cls.lookup('__str__'), [o], {})
    try:
        paths = sess.explore(thunk)
    except Unsupported as ex:
        run.add('C11/ioctl/supported', 'unsupported', '', 0, fq, str(ex))
        run.undecide('C11/ioctl/supported', str(ex))
        return
    w = z3.Int('request')
    res = {}

    pending = {}

    def note(ob, ok, pc=None, goal=None, what=''):
        if ok is None:
            pending.setdefault(ob, []).append((pc, goal, what))
            return
        cur = res.get(ob)
        if cur is None or (cur[0] and not ok):
            res[ob] = (ok, pc, goal, what)
    for p in paths:
        if p.outcome == 'raise':
            r, mdl = solve.satisfiable(p.pc)
            word = solve.model_int(mdl, w) if mdl is not None else 0
            res['C11/ioctl/total'] = (False, p.pc, None, 'ioctl rendering raises %s for request %#x' % (p.exc.cls_name, word))
            continue
        note('C11/ioctl/total', True)
        for conds, toks in textform.flatten(p.value):
            if conds and not solve.satisfiable(p.pc + conds)[0] != z3.unsat:
                continue
            text = textform.toks_repr(toks)
            # locate the annotation: ... /* _IOC(<dir>, '<group>', <num>, <len>) */
            i0 = None
            for i, tk in enumerate(toks):
                if tk[0] == 'lit' and '/* _IOC(' in tk[1]:
                    i0 = i
            if i0 is None:
                note('C11/ioctl/shape', False, None, None, 'no _IOC annotation: ' + text[:80])
                continue
            after = toks[i0][1].split('/* _IOC(', 1)[1]
            seg = ([('lit', after)] if after else []) + list(toks[i0 + 1:])
            pc = p.pc + conds
            # dir
            dtk = seg[0]
            want_dir = and_const(w, spec.IOC_DIRMASK)
            if dtk[0] == 'atom':
                for val, name in spec.IOC_DIRS.items():
                    alts = [name] + (['IOC_IN | IOC_OUT'] if name == 'IOC_INOUT' else [])
                    goal = z3.Implies(want_dir == val, z3.Or([dtk[1] == intern_str(a) for a in alts]))
                    note('C11/ioctl/dir.%s' % name, None, pc, goal, 'direction %s not shown for its bits' % name)
            elif dtk[0] == 'lit':
                # constant direction text on this path: must match the bits on this path
                name = dtk[1].split(", '")[0]
                vals = [v for v, n in spec.IOC_DIRS.items() if n == name or (n == 'IOC_INOUT' and name == 'IOC_IN | IOC_OUT')]
                for val, nm in spec.IOC_DIRS.items():
                    goal = z3.Implies(want_dir == val, z3.BoolVal(val in vals))
                    note('C11/ioctl/dir.%s' % nm, None, pc, goal, 'direction %s not shown for its bits' % nm)
            else:
                # e.g. hex(direction) for an undefined direction: must not occur for a defined one
                for val, nm in spec.IOC_DIRS.items():
                    note('C11/ioctl/dir.%s' % nm, None, pc, want_dir != val, 'direction %s not shown for its bits' % nm)
            nums = [tk for tk in seg if tk[0] in ('dec', 'opaque')]
            grp = [tk for tk in seg if tk[0] == 'opaque' and tk[1] == 'chr']
            decs = [tk for tk in seg if tk[0] == 'dec']
            if len(grp) == 1:
                note('C11/ioctl/group', None, pc, grp[0][2][0] == and_const(w, 0xff00) / 256, 'group is not (request >> 8) & 0xff')
            else:
                note('C11/ioctl/group', False, None, None, 'group character not found')
            if len(decs) >= 2:
                note('C11/ioctl/number', None, pc, decs[0][1] == and_const(w, 0xff), 'number is not request & 0xff')
                note('C11/ioctl/length', None, pc, decs[1][1] == and_const(w, spec.IOCPARM_MASK << 16) / 65536,
                     'length is not (request >> 16) & IOCPARM_MASK')
            else:
                note('C11/ioctl/number', False, None, None, 'number/length not found')
    for ob, lst in pending.items():
        if ob in res and res[ob][0] is False:
            continue
        allok = True
        for pc, goal, what in lst:
            v = solve.prove(pc, goal, 20000, tier)
            if v.status != 'proved':
                res[ob] = (None, pc, goal, what)
                allok = False
                break
        if allok:
            res[ob] = (True, None, None, '')
    for ob, (ok, pc, goal, what) in sorted(res.items()):
        if ok is True:
            run.add(ob, 'proved', 'symbolic execution', 0, fq)
            continue
        if ok is None:
            v = solve.prove(pc, goal, 20000, tier)
            if v.status == 'proved':
                run.add(ob, 'proved', v.backend, v.ms, fq)
                continue
            if v.status != 'refuted':
                run.add(ob, 'unknown', v.backend, v.ms, fq, v.detail)
                run.undecide(ob, v.detail)
                continue
            word = solve.model_int(v.model, w)
        else:
            r, mdl = solve.satisfiable(pc) if pc is not None else (None, None)
            word = solve.model_int(mdl, w) if mdl is not None else 0
        req = {'kind': 'ioctl_text', 'request': word}
        out = native(req)
        run.add(ob, 'known-finding' if run.known_for(ob) else 'refuted', 'z3-5.1', 0, fq, 'request=%#x' % word)
        run.violation(ob, {'request': req, 'native': out, 'solver_output': 'sat: request=%#x' % word}, bool(out.get('violates')),
                      what='%s (request %#x)' % (what, word))
