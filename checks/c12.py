"""C12 - event filters select exactly the matching subsequence.

The real PyKdebugParser.kevents / os_log_events are symbolically executed for an arbitrary filter
configuration (filter_tid / filter_process optional, class / subclass lists uninterpreted finite sets).
The result must be a chain of `filter` stages over the parse stream (order and multiplicity are then
preserved by the assumed contract of filter); the conjunction of the stage predicates, evaluated on an
arbitrary element at iteration time, is proved equivalent to the predicate of the property statement."""
import z3

from pyvc.harness import Session
from pyvc import solve
from pyvc.report import native
from pyvc.values import *  # noqa
from pyvc.interp import LazyIter
from pyvc import libattr

I = z3.IntSort()
Bs = z3.BoolSort()
FN = 'pykdebugparser.pykdebugparser:PyKdebugParser'


class StreamSrc:
    def __init__(self, reader):
        self.reader = reader


def setup(sess, ctx):
    """PyKdebugParser with an arbitrary filter configuration."""
    it = sess.it
    mod = sess.module('pykdebugparser.pykdebugparser')
    cls = mod.ns['PyKdebugParser']
    self_ = it.call(cls, [], {})
    tid_p, tid_v = z3.Bool('cfg.tid.set'), z3.Int('cfg.tid')
    ctx.declare_range(tid_v, 0, (1 << 64) - 1)
    self_.fields['filter_tid'] = SOpt(tid_p, SInt(tid_v))
    proc_p, proc_v = z3.Bool('cfg.process.set'), z3.Int('cfg.process')
    self_.fields['filter_process'] = SOpt(proc_p, atom_str(proc_v))
    sets = {}
    for nm in ('filter_class', 'filter_subclass'):
        inset = z3.Function('cfg.%s.has' % nm, I, Bs)
        n = z3.Int('cfg.%s.len' % nm)
        ctx.facts.append(n >= 0)
        x = z3.Int('x!' + nm)
        ctx.facts.append(z3.ForAll([x], z3.Implies(inset(x), n > 0)))
        ctx.facts.append(z3.Implies(n > 0, inset(z3.Int('cfg.%s.witness' % nm))))
        lst = SymList('cfg.' + nm, n, lambda j: (_ for _ in ()).throw(Unsupported('element of a filter list')), origin='config')
        lst.contains_fn = (lambda f: (lambda v: f(zi(v)) if is_intlike(v) else False))(inset)
        self_.fields[nm] = lst
        sets[nm] = (inset, n)
    return self_, sets, (tid_p, tid_v, proc_p, proc_v)


def arbitrary_kevent(sess, ctx, tag='e'):
    kc = sess.module('pykdebugparser.kevent').ns['Kevent']
    eid = z3.Int(tag + '.eventid')
    ctx.declare_range(eid, 0, (1 << 32) - 4)
    ctx.facts.append(eid % 4 == 0)
    fq = z3.Int(tag + '.fq')
    ctx.declare_range(fq, 0, 3)
    tid = z3.Int(tag + '.tid')
    ctx.declare_range(tid, 0, (1 << 64) - 1)
    return Obj(kc, {'timestamp': SInt(z3.Int(tag + '.ts')), 'data': OBytes(z3.Int(tag + '.data')),
                    'values': tuple(SInt(z3.Int('%s.v%d' % (tag, j))) for j in range(4)), 'tid': SInt(tid),
                    'debugid': mk_int(eid + fq), 'eventid': SInt(eid), 'func_qualifier': SInt(fq)})


def arbitrary_log(sess, ctx, tag='l'):
    lc = sess.module('pykdebugparser.os_log_event').ns['OsLogEvent']
    fields = {}
    for n, d in lc.fields:
        fields[n] = None if d is MISSING else (d if not hasattr(d, 'fn') else PDict())
    tid = z3.Int(tag + '.thread_identifier')
    ctx.declare_range(tid, 0, (1 << 64) - 1)
    pid = z3.Int(tag + '.process_identifier')
    ctx.declare_range(pid, 0, (1 << 32) - 1)
    fields.update({'thread_identifier': SInt(tid), 'process': atom_str(z3.Int(tag + '.process')),
                   'process_identifier': SInt(pid), 'composed_message': atom_str(z3.Int(tag + '.msg'))})
    return Obj(lc, fields)


def chain_stages(v):
    """[(kind, fn)] from the stream outwards, and the source"""
    stages = []
    while isinstance(v, LazyIter):
        stages.append((v.kind, v.fn))
        v = v.src
    stages.reverse()
    return stages, v


def run_check(run, tier):
    sess = Session()
    it = sess.it
    src_holder = {}

    def parse_contract(it_, func, args, kwargs, node):
        s = StreamSrc(args[1])
        src_holder['src'] = s
        return s
    it.contracts['pykdebugparser.kd_buf_parser:KdBufParser.parse'] = parse_contract
    run.trusted += ['pyvc interpreter', 'z3 5.1', 'assumed contract of builtin filter(): lazy, order- and multiplicity-preserving, '
                    'predicate evaluated when the element is produced (late binding of self.* in the lambdas)',
                    'contract of KdBufParser.parse (C02/C03): yields the dump\'s events then its log records']
    run.assumptions += ['class/subclass filter lists are arbitrary finite sets (membership uninterpreted)',
                        'event ids are 32-bit with clear qualifier bits (C01); thread ids 64-bit']
    cases = [('kevents', 'kevent'), ('kevents', 'log'), ('os_log_events', 'kevent'), ('os_log_events', 'log')]
    for meth, elemkind in cases:
        def thunk(ctx, meth=meth, elemkind=elemkind):
            self_, sets, (tid_p, tid_v, proc_p, proc_v) = setup(sess, ctx)
            reader = Obj(ClassVal('Reader', None, 'plain'), {})
            res = it.call(it.lib.getattr_(it, self_, meth), [reader], {})
            stages, src = chain_stages(res)
            ctx.oblige('C12/%s/pipeline.filters-only' % meth,
                       z3.BoolVal(all(k == 'filter' for k, _ in stages) and src is src_holder.get('src') and src.reader is reader))
            x = arbitrary_kevent(sess, ctx) if elemkind == 'kevent' else arbitrary_log(sess, ctx)
            # stages see an element only if every earlier stage kept it
            code_keeps = z3.BoolVal(True)
            for k, fn in stages:
                if k != 'filter':
                    continue
                if not it.decide(it.call(fn, [x], {}) if fn is not None else x):
                    code_keeps = z3.BoolVal(False)
                    break
            # ---- predicate of the property statement
            fc, nfc = sets['filter_class']
            fsc, nfsc = sets['filter_subclass']
            if meth == 'kevents':
                if elemkind == 'log':
                    spec = z3.BoolVal(False)            # log records never appear in the event listing
                else:
                    eid = x.fields['eventid'].t
                    tid = x.fields['tid'].t
                    spec = z3.And(z3.Or(z3.Not(tid_p), tid == tid_v),
                                  z3.Or(z3.And(nfc == 0, nfsc == 0), fc(eid / (1 << 24)), fsc(eid / (1 << 16))))
            else:
                if elemkind == 'kevent':
                    spec = z3.BoolVal(False)            # events never appear in the log listing
                else:
                    tid = x.fields['thread_identifier'].t
                    proc = x.fields['process'].toks[0][1]
                    pid = x.fields['process_identifier'].t
                    spec = z3.And(z3.Or(z3.Not(tid_p), tid == tid_v),
                                  z3.Or(z3.Not(proc_p), proc_v == proc, proc_v == it.lib.StrOfInt(pid)))
            ctx.oblige('C12/%s/selects-exactly.%s' % (meth, elemkind), code_keeps == spec,
                       info={'meth': meth, 'elemkind': elemkind})
            return res
        try:
            paths = sess.explore(thunk)
        except Unsupported as ex:
            ob = 'C12/%s/supported.%s' % (meth, elemkind)
            run.add(ob, 'unsupported', '', 0, FN + '.' + meth, str(ex))
            run.undecide(ob, str(ex))
            continue
        agg = {}
        for p in paths:
            if p.outcome == 'raise':
                ob = 'C12/%s/noraise.%s' % (meth, elemkind)
                agg[ob] = {'status': 'refuted', 'ms': 0, 'backend': 'z3-5.1', 'model': solve.satisfiable(p.pc)[1],
                           'what': '%s raises %s for some filter configuration' % (meth, p.exc.cls_name), 'info': {'meth': meth, 'elemkind': elemkind}}
                continue
            for ob in p.obligations:
                v = solve.prove(ob.pc, ob.goal, 20000, tier)
                cur = agg.setdefault(ob.name, {'status': 'proved', 'ms': 0.0, 'backend': v.backend})
                cur['ms'] += v.ms
                if v.status == 'refuted' and cur['status'] != 'refuted':
                    cur.update(status='refuted', model=v.model, info=ob.info, what='selection differs from the filter specification')
                elif v.status not in ('proved', 'refuted') and cur['status'] == 'proved':
                    cur.update(status='unknown', detail=v.detail)
        for ob, cur in sorted(agg.items()):
            fq = FN + '.' + meth
            if cur['status'] == 'proved':
                run.add(ob, 'proved', cur['backend'], cur['ms'], fq)
            elif cur['status'] == 'refuted':
                req = concretize(cur.get('model'), cur.get('info') or {'meth': meth, 'elemkind': elemkind})
                out = native(req) if req else None
                run.add(ob, 'refuted', cur['backend'], cur['ms'], fq)
                run.violation(ob, {'request': req, 'native': out, 'solver_output': 'sat'}, bool(out and out.get('violates')),
                              what='%s: %s' % (meth, cur['what']))
            else:
                run.add(ob, 'unknown', cur['backend'], cur['ms'], fq, cur.get('detail', ''))
                run.undecide(ob, cur.get('detail', ''))
    run.hashes.update(sess.repo.hashes)
    # the contract of KdBufParser.parse that the stage proofs rest on - a version-3 dump yields its kernel events (from_kd_buf)
    # and then its log records exactly as from_raw_log_event decodes them, no third kind of element - is discharged again here
    from checks import c03
    saved_pf = getattr(run, 'pending_failures', [])
    run.pending_failures = []
    c03.verify_chunk_loops(run, tier, wf=True, prefix='C12/parse_v3',
                           only=('/logs.', 'blocks.step.TRACEV3_LOG', '/supported', '/noraise', 'records.step-yields', 'records.step-event'))
    mine, run.pending_failures = run.pending_failures, saved_pf
    if mine:
        out = native({'kind': 'v3_blocks_search', 'seed': run.seed, 'budget': 300}, timeout=900)
        f = out.get('found')
        for ob, status, detail in mine:
            if f:
                run.violation(ob, {'request': f['request'], 'native': f, 'solver_output': '%s (%s)' % (status, detail)}, True, what=f.get('what', ''))
            elif status == 'refuted':
                run.violation(ob, {'request': None, 'solver_output': detail}, False, what='obligation %s no longer holds' % ob)
            else:
                run.undecide(ob, 'not proved (%s)' % detail)
    if run.undecided:
        # constructs outside the subset / unknowns: look for a failing request sequence natively before giving up
        out = native({'kind': 'filters_search'}, timeout=600)
        run.bounded.append({'what': 'bounded native search over filter settings and request sequences (refute mode only)', 'tried': out.get('tried'),
                            'bound': out.get('bound'), 'found': bool(out.get('found'))})
        f = out.get('found')
        if f:
            for ob, why in list(run.undecided):
                run.violation(ob, {'request': f['request'], 'native': f, 'solver_output': 'undecided (%s); failing request sequence found by the native search' % why},
                              True, what=f.get('what', ''))
            run.undecided = []
    run.samples.append({'obligation': 'C12/kevents/selects-exactly.kevent',
                        'goal': 'AND(stage predicates)(e) <=> (tid unset or e.tid == tid) and (no class/subclass filter or '
                                'e.eventid>>24 in classes or e.eventid>>16 in subclasses), for an arbitrary event e'})


def concretize(model, info):
    if model is None:
        return None
    ev = lambda t: solve.model_int(model, t)
    tv = lambda t: z3.is_true(model.eval(t, model_completion=True))

    def name(k):
        s = interned(k)
        return s if s is not None else 'proc%d' % (k % 1000)
    cfg = {'filter_tid': ev(z3.Int('cfg.tid')) if tv(z3.Bool('cfg.tid.set')) else None,
           'filter_process': name(ev(z3.Int('cfg.process'))) if tv(z3.Bool('cfg.process.set')) else None}
    elem = {}
    if info['elemkind'] == 'kevent':
        eid = ev(z3.Int('e.eventid'))
        elem = {'kind': 'kevent', 'eventid': eid, 'tid': ev(z3.Int('e.tid')), 'qual': ev(z3.Int('e.fq'))}
        for nm, sh in (('filter_class', 24), ('filter_subclass', 16)):
            f = z3.Function('cfg.%s.has' % nm, I, Bs)
            n = ev(z3.Int('cfg.%s.len' % nm))
            cands = {eid >> 24, eid >> 16, (eid >> 16) & 0xff00, (eid >> 24) << 8, ev(z3.Int('cfg.%s.witness' % nm))}
            fi = model[f]
            if fi is not None:
                try:
                    for ent in fi.as_list()[:-1]:
                        cands.add(ent[0].as_long())
                except Exception:
                    pass
            vals = sorted(c for c in cands if tv(f(z3.IntVal(c))))
            if n > 0 and not vals:
                vals = [0xfe]
            cfg[nm] = vals if n > 0 or vals else []
    else:
        pid = ev(z3.Int('l.process_identifier'))
        pname = name(ev(z3.Int('l.process')))
        # str(pid) equal to the requested process exactly when the model says so
        if cfg['filter_process'] is not None and tv(z3.Int('cfg.process') == z3.Function('str_of_int', I, I)(z3.IntVal(pid))):
            cfg['filter_process'] = str(pid)
        elem = {'kind': 'log', 'thread_identifier': ev(z3.Int('l.thread_identifier')), 'process': pname, 'process_identifier': pid}
        cfg['filter_class'] = []
        cfg['filter_subclass'] = []
    return {'kind': 'filters', 'method': info['meth'], 'config': cfg, 'element': elem}
