"""C13 - trace filters commute with decoding and leave no residue in the parser.

residue    : traces()/callstacks() modify none of the caller's filter settings (frame condition: the
             configuration lists are tracked objects; any mutation is a violation), and building the
             pipeline twice gives the same stages.
selection  : for an arbitrary trace t whose first event is e0, the filtered run reports t iff the
             user's own filters allow e0 (and the process filter allows its thread): the event-level
             stage (user filters + injected helper classes) and the trace-level post stages are
             evaluated symbolically and proved equivalent to the specification predicate.
commutation: see checks/c13_commute.py (relational invariant over the pairing machine's contracts)."""
import z3

from pyvc.harness import Session
from pyvc import solve
from pyvc.report import native
from pyvc.values import *  # noqa
from pyvc.interp import LazyIter, GenVal
from checks.c12 import StreamSrc, arbitrary_kevent, chain_stages, I, Bs

FN = 'pykdebugparser.pykdebugparser:PyKdebugParser.traces'


class CfgList(SymList):
    """caller-owned filter list: membership uninterpreted; every mutation is recorded"""

    def __init__(self, name, inset, n):
        SymList.__init__(self, name, n, self._elem, origin='config')
        self.inset = inset
        self.contains_fn = lambda v: (inset(zi(v)) if is_intlike(v) else False)
        self.mutations = []

    def _elem(self, j):
        raise Unsupported('element of a filter list')

    def append(self, v):
        old = self.contains_fn
        self.mutations.append(('append', v))
        self._write('contains_fn', lambda x, old=old, v=v: z3.Or(old(x), zi(x) == zi(v)))
        self._write('length', z3.simplify(self.length + 1))


def setup(sess, ctx):
    it = sess.it
    mod = sess.module('pykdebugparser.pykdebugparser')
    self_ = it.call(mod.ns['PyKdebugParser'], [], {})
    tid_p, tid_v = z3.Bool('cfg.tid.set'), z3.Int('cfg.tid')
    self_.fields['filter_tid'] = SOpt(tid_p, SInt(tid_v))
    proc_p, proc_v = z3.Bool('cfg.process.set'), z3.Int('cfg.process')
    self_.fields['filter_process'] = SOpt(proc_p, atom_str(proc_v))
    sets = {}
    for nm in ('filter_class', 'filter_subclass'):
        inset = z3.Function('cfg.%s.has' % nm, I, Bs)
        n = z3.Int('cfg.%s.len' % nm)
        ctx.facts.append(n >= 0)
        x = z3.Int('x!' + nm)
        ctx.facts.append(z3.ForAll([x], z3.Implies(inset(x), n > 0)))
        ctx.facts.append(z3.Implies(n > 0, inset(z3.Int('cfg.%s.witness' % nm))))
        lst = CfgList('cfg.' + nm, inset, n)
        self_.fields[nm] = lst
        sets[nm] = lst
    from pyvc import libattr
    for nm, kind in (('threads_pids', 'int'), ('pids_names', 'atom')):
        self_.fields[nm] = libattr.new_symmap('cfg.' + nm, kind, origin='parser.' + nm)
    return self_, sets, (tid_p, tid_v, proc_p, proc_v)


def _same_value(a, b):
    if a is b:
        return True
    if isinstance(a, (int, str, bool, float, bytes, type(None))) and isinstance(b, (int, str, bool, float, bytes, type(None))):
        return type(a) is type(b) and a == b
    return False


def install_contracts(sess, holder):
    it = sess.it

    def parse_contract(it_, func, args, kwargs, node):
        s = StreamSrc(args[1])
        holder['src'] = s
        return s
    it.contracts['pykdebugparser.kd_buf_parser:KdBufParser.parse'] = parse_contract

    def codes_contract(it_, func, args, kwargs, node):
        from pyvc import libattr
        return libattr.new_symmap('default_codes', 'atom', origin='trace_codes')
    it.contracts['pykdebugparser.trace_codes:default_trace_codes'] = codes_contract


def split_pipeline(res):
    """(post stages, generator value, event stages, source) of the value returned by traces()"""
    post, v = chain_stages(res)
    if not isinstance(v, GenVal):
        return post, None, [], v
    gen = v
    arg = gen.frame.vars.get('generator')
    evst, src = chain_stages(arg)
    return post, gen, evst, src


def run_check(run, tier):
    sess = Session()
    it = sess.it
    holder = {}
    install_contracts(sess, holder)
    run.trusted += ['pyvc interpreter', 'z3 5.1', 'assumed contract of filter(): lazy, order-preserving, predicates evaluated at iteration time',
                    'contract of TracesParser.feed_generator (C04): a trace\'s window consists of events that passed the event-level stage']
    run.assumptions += ['class/subclass filter lists are arbitrary finite sets of ints']

    def thunk(ctx):
        self_, sets, (tid_p, tid_v, proc_p, proc_v) = setup(sess, ctx)
        fc, fsc = sets['filter_class'], sets['filter_subclass']
        user_fc, user_fsc = fc.inset, fsc.inset
        n_fc, n_fsc = z3.Int('cfg.filter_class.len'), z3.Int('cfg.filter_subclass.len')
        reader = Obj(ClassVal('Reader', None, 'plain'), {})
        before = dict(self_.fields)
        ctx.notes['parser_before'] = before
        ctx.notes['parser_obj'] = self_
        res = it.call(it.lib.getattr_(it, self_, 'traces'), [reader], {})
        # ---- residue
        ctx.oblige('C13/traces/residue.filter_class', z3.BoolVal(self_.fields['filter_class'] is fc and not fc.mutations),
                   info={'kind': 'residue'})
        ctx.oblige('C13/traces/residue.filter_subclass', z3.BoolVal(self_.fields['filter_subclass'] is fsc and not fsc.mutations),
                   info={'kind': 'residue'})
        ft = self_.fields['filter_tid']
        ctx.oblige('C13/traces/residue.filter_tid', z3.BoolVal(isinstance(ft, SOpt) and ft.present.eq(tid_p)), info={'kind': 'residue'})
        fp = self_.fields['filter_process']
        ctx.oblige('C13/traces/residue.filter_process', z3.BoolVal(isinstance(fp, SOpt) and fp.present.eq(proc_p)), info={'kind': 'residue'})
        # ---- shape of the pipeline
        post, gen, evst, src = split_pipeline(res)
        ok_shape = (gen is not None and gen.func.name == 'feed_generator' and all(k == 'filter' for k, _ in post)
                    and all(k == 'filter' for k, _ in evst) and src is holder.get('src') and src.reader is reader)
        ctx.oblige('C13/traces/pipeline.shape', z3.BoolVal(bool(ok_shape)), info={'kind': 'shape'})
        if not ok_shape:
            return res
        # ---- selection on an arbitrary trace whose first event is e0
        e0 = arbitrary_kevent(sess, ctx, 'e')
        eid = e0.fields['eventid'].t
        # ---- the event-level stage (what feeds the pairing machine): a fixed predicate of the record's thread and code
        # (the commutation lemma's keep(i)) that keeps every record of a requested class and of the kernel-trace class
        g = arbitrary_kevent(sess, ctx, 'g')
        gid, gtid = g.fields['eventid'].t, g.fields['tid'].t
        keeps = []
        for k, fn in evst:
            r = it.call(fn, [g], {}) if fn is not None else g
            t = it.truth(r)
            keeps.append(z3.BoolVal(t) if isinstance(t, bool) else t)
        ev_code = z3.And(keeps) if keeps else z3.BoolVal(True)
        from checks import decoder_checks as _D
        state_syms = [n for n in _D.sym_names(ev_code) if n.startswith('cfg.threads_pids') or n.startswith('cfg.pids_names')]
        ctx.oblige('C13/traces/event-filter.depends-only-on-thread-code-and-settings', z3.BoolVal(not state_syms), info={'kind': 'event-filter'})
        requested = z3.Or(z3.And(n_fc == 0, n_fsc == 0), user_fc(gid / (1 << 24)), user_fsc(gid / (1 << 16)), gid / (1 << 24) == 7,
                          z3.And(gid / (1 << 24) == 3, user_fc(z3.IntVal(4))))
        # from the property: the kernel-trace class is read whatever the filters are - its records declare threads, name
        # processes and announce strings for *other* threads too (a new thread is announced by its creator) - and the
        # thread filter lets through nothing else of other threads
        own_or_helper = z3.Or(z3.Not(tid_p), gtid == tid_v, gid / (1 << 24) == 7)
        ctx.oblige('C13/traces/event-filter.keeps-every-requested-and-helper-record',
                   z3.Implies(z3.And(own_or_helper, requested), ev_code), info={'kind': 'event-filter'})
        ctx.oblige('C13/traces/event-filter.other-threads-contribute-kernel-trace-records-only', z3.Implies(ev_code, own_or_helper), info={'kind': 'event-filter'})
        tcls = ClassVal('AnyTrace', None, 'plain')
        trace = Obj(tcls, {'ktraces': PList([e0])})
        ev_keeps = True
        for k, fn in evst:
            if not it.decide(it.call(fn, [e0], {}) if fn is not None else e0):
                ev_keeps = False
                break
        code = z3.BoolVal(False)
        if ev_keeps:
            code = z3.BoolVal(True)
            for k, fn in post:
                if not it.decide(it.call(fn, [trace], {})):
                    code = z3.BoolVal(False)
                    break
        tid = e0.fields['tid'].t
        tp, pn = self_.fields['threads_pids'], self_.fields['pids_names']
        pid = z3.If(z3.Select(tp.dom, tid), z3.Select(tp.val, tid), -1)
        pname = z3.If(z3.Select(pn.dom, pid), z3.Select(pn.val, pid), intern_str(''))
        process_ok = z3.Or(z3.Not(proc_p), proc_v == it.lib.StrOfInt(pid), proc_v == pname)
        user_allows = z3.Or(z3.And(n_fc == 0, n_fsc == 0), user_fc(eid / (1 << 24)), user_fsc(eid / (1 << 16)))
        spec = z3.And(z3.Or(z3.Not(tid_p), tid == tid_v), user_allows, process_ok)
        ctx.oblige('C13/traces/selection', code == spec, info={'kind': 'selection'})
        # ---- no residue anywhere in the parser object: after the request and the evaluation of its stages on arbitrary
        # elements every attribute is the object it was before (the learned thread tables are reset per request, C02)
        changed = sorted(k for k in set(before) | set(self_.fields)
                         if k not in before or k not in self_.fields or not _same_value(before[k], self_.fields[k]))
        ctx.notes['changed'] = changed
        ctx.oblige('C13/traces/residue.no-attribute-of-the-parser-object-is-rewritten', z3.BoolVal(not changed), info={'kind': 'residue-object', 'changed': changed})
        return res

    try:
        paths = sess.explore(thunk)
    except Unsupported as ex:
        run.add('C13/traces/supported', 'unsupported', '', 0, FN, str(ex))
        out = native({'kind': 'traces_filters_search', 'config': {}, 'eventid': 0x40c0000, 'tid': 5}, timeout=600)
        run.bounded.append({'what': 'native grid of filter settings over the demonstration stream (refute mode only)', 'tried': out.get('tried'),
                            'found': bool(out.get('violates'))})
        if out.get('violates'):
            run.violation('C13/traces/supported', {'request': out.get('request'), 'native': out, 'solver_output': 'unsupported construct: %s' % ex}, True,
                          what=out.get('what', ''))
        else:
            run.undecide('C13/traces/supported', str(ex))
        return
    agg = {}
    for p in paths:
        if p.outcome == 'raise':
            ob = 'C13/traces/noraise'
            agg[ob] = {'status': 'refuted', 'ms': 0, 'backend': 'z3-5.1', 'model': solve.satisfiable(p.pc)[1], 'info': {'kind': 'raise'},
                       'what': 'traces() raises %s for some filter configuration' % p.exc.cls_name}
            continue
        for ob in p.obligations:
            v = solve.prove(ob.pc, ob.goal, 20000, tier)
            cur = agg.setdefault(ob.name, {'status': 'proved', 'ms': 0.0, 'backend': v.backend})
            cur['ms'] += v.ms
            if v.status == 'refuted' and cur['status'] != 'refuted':
                cur.update(status='refuted', model=v.model, info=ob.info,
                           what={'residue': 'the request changes the caller\'s filter settings', 'selection': 'reported traces differ from the filter specification',
                                 'shape': 'unexpected pipeline', 'residue-object': 'the request rewrites attributes of the parser object: %s' % ob.info.get('changed'), 'event-filter': 'the record-level filter in front of the pairing machine is not the fixed thread/class filter'}.get(ob.info['kind'], ''))
            elif v.status not in ('proved', 'refuted') and cur['status'] == 'proved':
                cur.update(status='unknown', detail=v.detail)
    for ob, cur in sorted(agg.items()):
        if cur['status'] == 'proved':
            run.add(ob, 'proved', cur['backend'], cur['ms'], FN)
        elif cur['status'] == 'refuted':
            req = concretize(cur.get('model'), cur['info'])
            out = native(req) if req else None
            if req and not (out and out.get('violates')):
                out2 = native(dict(req, kind='traces_filters_search'), timeout=600)
                if out2.get('violates'):
                    req, out = out2.get('request', req), out2
            known = run.known_for(ob)
            run.add(ob, 'known-finding' if known else 'refuted', cur['backend'], cur['ms'], FN)
            run.violation(ob, {'request': req, 'native': out, 'solver_output': 'sat'}, bool(out and out.get('violates')),
                          what='traces(): %s' % cur['what'])
        else:
            run.add(ob, 'unknown', cur['backend'], cur['ms'], FN, cur.get('detail', ''))
            run.undecide(ob, cur.get('detail', ''))
    run.hashes.update(sess.repo.hashes)
    from checks import c13_commute
    c13_commute.run_part(run, tier)
    closure(run, tier)
    # a repeated request starts from the dump's own thread map: no table entry survives from the previous request
    from checks import c02
    run.pending_failures = []
    c02.verify_set_thread_map(run, tier, prefix_root='C13')
    for ob, status, detail in run.pending_failures:
        out = native({'kind': 'v2_search', 'seed': run.seed, 'budget': 300, 'known': ['first-record-leading-zero']}, timeout=600)
        f = out.get('found')
        if f:
            run.violation(ob, {'request': f['request'], 'native': f, 'solver_output': '%s (%s)' % (status, detail)}, True, what=f.get('what', ''))
        elif status == 'refuted':
            run.violation(ob, {'request': None, 'solver_output': detail}, False, what='obligation %s no longer holds' % ob)
        else:
            run.undecide(ob, detail)


def an_C13_closure(mod, name, paths, fq):
    """what a decoder reads from inside its window survives the event filter that traces() builds for its class"""
    import ast
    from checks import decoder_checks as DCK
    codes = DCK.BUNDLED
    own = codes.get(name)
    if own is None:
        return []
    own_class = own >> 24
    allowed = {own_class, 7} | ({3} if own_class == 4 else set())
    ob = 'C13/closure/%s.%s' % (mod, name)
    bad = None
    for s in paths:
        names = set()
        for cmp_ in s.notes.get('comps', []):
            o = cmp_.origin
            node = o[2]
            for g in node.generators:
                for cnd in g.ifs:
                    for c in ast.walk(cnd):
                        if isinstance(c, ast.Constant) and isinstance(c.value, str) and c.value:
                            names.add(c.value)
        if s.lookups:
            names.add('VFS_LOOKUP')
        for nm in names:
            ids = [k for n_, k in codes.items() if n_ == nm or (nm.endswith('*') and n_.startswith(nm[:-1]))]
            if nm == 'RealFaultAddress':
                ids = [k for n_, k in codes.items() if n_.startswith(nm)]
            for k in ids:
                if (k >> 24) not in allowed:
                    bad = 'reads nested %s records (class %#x), which the event filter for class %#x does not keep' % (nm, k >> 24, own_class)
    if bad is None:
        return [DCK.rec(ob, 'proved', 'symbolic execution: nested records selected by names of the own class / helper classes', 0, fq)]
    return [DCK.rec(ob, 'refuted', 'symbolic execution', 0, fq, bad, viol={'request': None, 'what': '%s %s' % (name, bad), 'solver_output': bad})]


def closure(run, tier):
    from checks import decoder_checks as DCK
    out = native({'kind': 'default_codes'})
    DCK.BUNDLED = {v: k for k, v in out.get('codes', [])}
    DCK.ANALYSES['C13'] = an_C13_closure
    recs, _ = DCK.run_pool(run, 'C13')
    DCK.absorb(run, recs)


def concretize(model, info):
    if model is None:
        return None
    ev = lambda t: solve.model_int(model, t)
    tv = lambda t: z3.is_true(model.eval(t, model_completion=True))
    eid = ev(z3.Int('e.eventid'))
    cfg = {'filter_tid': ev(z3.Int('cfg.tid')) if tv(z3.Bool('cfg.tid.set')) else None,
           'filter_process': 'procname' if tv(z3.Bool('cfg.process.set')) else None}
    for nm in ('filter_class', 'filter_subclass'):
        f = z3.Function('cfg.%s.has' % nm, I, Bs)
        n = ev(z3.Int('cfg.%s.len' % nm))
        cands = {eid >> 24, eid >> 16, 3, 4, 7, 0x0401, ev(z3.Int('cfg.%s.witness' % nm))}
        fi = model[f]
        if fi is not None:
            try:
                for ent in fi.as_list()[:-1]:
                    cands.add(ent[0].as_long())
            except Exception:
                pass
        vals = sorted(c for c in cands if tv(f(z3.IntVal(c))))
        cfg[nm] = vals if (n > 0 or vals) else []
        if n > 0 and not vals:
            cfg[nm] = [0xfe]
    return {'kind': 'traces_filters', 'config': cfg, 'eventid': eid, 'tid': ev(z3.Int('e.tid')), 'check': info.get('kind')}
