"""C13, commutation: a run over the filtered event stream emits exactly the traces of the unfiltered run whose
code and thread pass the event-level filter, with windows = the unfiltered windows restricted to kept events.

Relational inductive invariant R between the unfiltered machine U and the filtered machine F, stated over the
abstract state the C04 history lemma links to the real tables (open status of (thread, code); ghost membership
M of each window) and proved from the *operation contracts of the real code* (contracts/traces_parser.py) plus
the ghost updates of checks/c04_history.py:
    for every kept thread t and kept code c:  open_U(t,c) == open_F(t,c)  and  M_F[t][c] == M_U[t][c] restricted to Keep.
Closure (schema over all decoders): what a decoder reads from the inside of its window are records selected by
names whose class is the decoder's own class, the kernel-trace class 7, or the file-system class 3 for BSD
decoders - exactly the helper classes traces() adds to the event filter - so the restricted window renders
identically."""
import z3

from pyvc import solve
from pyvc.heap import Snap, I
from contracts import traces_parser as TP
from checks import c04_history as H

Bs = z3.BoolSort()
KeepCode = z3.Function('filter.keep_code', I, Bs)
KeepTid = z3.Function('filter.keep_tid', I, Bs)
EvTid, EvCode, EvQual = H.EvTid, H.EvCode, H.EvQual
T, C, X = z3.Ints('r!t r!c r!x')


def keep(i):
    return z3.And(KeepCode(EvCode(i)), KeepTid(EvTid(i)))


def R_clauses(U, GU, F, GF, t, c, x):
    kept = z3.And(KeepTid(t), KeepCode(c))
    return [('open-status-agrees', z3.Implies(kept, U.is_open(t, c) == F.is_open(t, c))),
            ('window-is-the-restriction', z3.Implies(z3.And(kept, U.is_open(t, c)), GF.m(t, c, x) == z3.And(GU.m(t, c, x), keep(x))))]


def R_all(U, GU, F, GF):
    return [z3.ForAll([T, C, X], f) for _, f in R_clauses(U, GU, F, GF, T, C, X)]


def run_part(run, tier):
    fn = 'pykdebugparser.pykdebugparser:PyKdebugParser.traces (commutation lemma over the pairing contracts)'
    U0, U1, F0, F1 = [Snap.fresh(n) for n in ('U0', 'U1', 'F0', 'F1')]
    GU0, GU1, GF0, GF1 = [H.Ghost(n) for n in ('GU0', 'GU1', 'GF0', 'GF1')]
    n = z3.Int('n')
    t, c = EvTid(n), EvCode(n)
    arrU, lnU, arrF, lnF = z3.Const('arrU', z3.ArraySort(I, I)), z3.Int('lnU'), z3.Const('arrF', z3.ArraySort(I, I)), z3.Int('lnF')
    base = [n >= 0] + R_all(U0, GU0, F0, GF0)
    tt, cc, xx = z3.Ints('sk.t sk.c sk.x')

    def posts(kind, S0, S1, G0, G1, arr, ln):
        if kind == 'start':
            return [EvQual(n) == 1] + [f for _, f in TP.post_start(S0, S1, t, c, n)] + H.ghost_step(S0, G0, G1, t, c, n, 'start')
        if kind == 'end-open':
            return [EvQual(n) == 2, S0.is_open(t, c)] + [f for _, f in TP.post_end_open(S0, S1, t, c, n, arr, ln)] + H.ghost_step(S0, G0, G1, t, c, n, 'end')
        if kind == 'end-stray':
            return [EvQual(n) == 2, z3.Not(S0.is_open(t, c))] + [f for _, f in TP.post_unchanged(S0, S1)] + H.ghost_step(S0, G0, G1, t, c, n, 'stray')
        return [z3.Or(EvQual(n) == 0, EvQual(n) == 3)] + [f for _, f in TP.post_single(S0, S1, t, n)] + H.ghost_step(S0, G0, G1, t, c, n, 'single')
    # the kept event is fed to both machines
    for kind in ('start', 'end-open', 'end-stray', 'single'):
        hyp = base + [keep(n)] + posts(kind, U0, U1, GU0, GU1, arrU, lnU)
        # F takes the same case: for end events the open test agrees by R (instantiated)
        hypF = posts(kind, F0, F1, GF0, GF1, arrF, lnF)
        for name, g in R_clauses(U1, GU1, F1, GF1, tt, cc, xx):
            v = solve.prove(hyp + hypF, g, 30000, tier)
            rec(run, 'C13/commutation/kept-event.%s.%s' % (kind, name), v, fn)
    # same case in both machines: an END is stray in U iff it is stray in F
    v = solve.prove(base + [keep(n)], U0.is_open(t, c) == F0.is_open(t, c), 20000, tier)
    rec(run, 'C13/commutation/kept-event.same-case-in-both-runs', v, fn)
    # a dropped event is fed to U only
    for kind in ('start', 'end-open', 'end-stray', 'single'):
        hyp = base + [z3.Not(keep(n))] + posts(kind, U0, U1, GU0, GU1, arrU, lnU)
        for name, g in R_clauses(U1, GU1, F0, GF0, tt, cc, xx):
            v = solve.prove(hyp, g, 30000, tier)
            rec(run, 'C13/commutation/dropped-event.%s.%s' % (kind, name), v, fn)
    # emission: at a kept END with an open START both runs emit, and F's window is U's restricted to kept events
    hyp = base + [keep(n)] + posts('end-open', U0, U1, GU0, GU1, arrU, lnU) + posts('end-open', F0, F1, GF0, GF1, arrF, lnF)
    inU = z3.Or(GU0.m(t, c, xx), xx == n)
    inF = z3.Or(GF0.m(t, c, xx), xx == n)
    v = solve.prove(hyp, inF == z3.And(inU, keep(xx)), 30000, tier)
    rec(run, 'C13/commutation/emission.window-is-the-restriction', v, fn)
    # establishment: both machines start with empty tables
    empty = Snap(z3.K(I, z3.BoolVal(False)), U0.cdom, U0.ln, U0.el)
    for name, g in R_clauses(empty, GU0, empty, GF0, tt, cc, xx):
        v = solve.prove([], g, 10000, tier)
        rec(run, 'C13/commutation/establish.%s' % name, v, fn)
    # vacuity canary
    r, _ = solve.satisfiable(base + [keep(n)] + posts('start', U0, U1, GU0, GU1, arrU, lnU), 2500)
    if r == z3.unsat:
        run.engine_error('C13 commutation lemma: hypotheses contradictory')


def rec(run, name, v, fn):
    if v.status == 'proved':
        run.add(name, 'proved', v.backend, v.ms, fn, kind='lemma')
    else:
        run.add(name, v.status, v.backend, v.ms, fn, v.detail, kind='lemma')
        run.undecide(name, 'not proved (%s)' % (v.detail or v.status))
