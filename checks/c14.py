"""C14 - lines name the process the dump declares for the thread; columns compose.

Every formatter is symbolically executed for each of its finitely many switch settings (exhaustive: 2^6, 2^3,
2^3) over an arbitrary event / trace / callstack and arbitrary tables; the token sequence of a setting is proved
equal to the concatenation, in the fixed order, of the token sequences of its enabled columns taken alone
(so a column never looks at another switch and switching one off removes exactly it).  _format_process is
proved against its contract on arbitrary tables.  That the tables are up to date when a line is built follows
from the writers' effect clauses (C02 set_thread_map, decoders' table writes) and from the formatter reading
the live tables on every call (a memoised reader is modelled as a function of its arguments only)."""
import itertools
import z3

from pyvc.harness import Session
from pyvc import solve, libattr, textform
from pyvc.report import native
from pyvc.values import *  # noqa
from checks.c12 import arbitrary_kevent
from checks.decoder_checks import toks_equal_under, sym_names

MOD = 'pykdebugparser.pykdebugparser'
I = z3.IntSort()


def make_self(sess, ctx, switches):
    it = sess.it
    cls = sess.module(MOD).ns['PyKdebugParser']
    self_ = it.call(cls, [], {})
    for nm, kind in (('threads_pids', 'int'), ('pids_names', 'atom')):
        self_.fields[nm] = libattr.new_symmap('t.' + nm, kind, origin='parser.' + nm)
    # timestamp conversion parameters: all set or (some) unset - arbitrary
    allset = z3.Bool('ts.params_set')
    for nm in ('mach_absolute_time', 'numer', 'denom', 'usecs_since_epoch'):
        self_.fields[nm] = SOpt(allset, SInt(z3.Int('ts.' + nm)))
    from pyvc.libops import OpaqueVal
    self_.fields['timezone'] = SOpt(allset, OpaqueVal('tz', ('cfg',)))
    self_.fields['color'] = False
    for k, v in switches.items():
        self_.fields[k] = v
    return self_


def alts_of(it, ctx, text):
    out = []
    for conds, toks in textform.flatten(text):
        if conds and not ctx.feasible(z3.And(conds)):
            continue
        out.append((conds, toks))
    return out


def compose_check(run, tier, fname, switch_names, make_arg, body_always, prefix, foreign=(), foreign_what=''):
    """tokens(setting) == concat of tokens(single column settings), for every setting; no column reads a `foreign` symbol"""
    fq = '%s:PyKdebugParser.%s' % (MOD, fname)
    sess = Session()
    it = sess.it

    def run_setting(setting):
        holder = {}

        def thunk(ctx):
            self_ = make_self(sess, ctx, dict(zip(switch_names, setting)))
            args = make_arg(sess, ctx)
            txt = it.call(it.lib.getattr_(it, self_, fname), args, {})
            holder.setdefault('paths', []).append((list(ctx.full_pc()), alts_of(it, ctx, txt)))
            return txt
        prs = sess.explore(thunk)
        if any(p.outcome == 'raise' for p in prs):
            raise PyExc('Raised', str([p.exc.cls_name for p in prs if p.outcome == 'raise']))
        return holder.get('paths', [])
    n = len(switch_names)
    singles = {}
    try:
        for i in range(n):
            setting = tuple(j == i for j in range(n))
            singles[i] = run_setting(setting)
        base = run_setting(tuple(False for _ in range(n)))
    except (Unsupported, PyExc) as ex:
        run.add(prefix + '/supported', 'unsupported', '', 0, fq, str(ex))
        run.pending_failures.append((prefix + '/supported', 'unsupported', str(ex)))
        return
    # the all-off rendering is the part that is always there (body); every single = own column (+ body)
    settings = list(itertools.product([False, True], repeat=n))
    for setting in settings:
        name = ''.join('1' if b else '0' for b in setting)
        ob = '%s/composition.%s' % (prefix, name)
        try:
            comp = run_setting(setting)
        except (Unsupported, PyExc) as ex:
            run.add(ob, 'unsupported', '', 0, fq, str(ex))
            run.pending_failures.append((ob, 'unsupported', str(ex)))
            continue
        if foreign:
            bad = sorted(set(nm for pc, alts in comp for conds, toks in alts for tk in toks for t in textform.token_terms(tk)
                             for nm in sym_names(t) if nm.startswith(tuple(foreign)) and '.has.' not in nm))
            ob2 = '%s/columns-read-only-the-emitting-record-and-the-tables.%s' % (prefix, name)
            if bad:
                run.add(ob2, 'refuted', 'token structure', 0, fq, 'a column shows %s (%s)' % (foreign_what, ', '.join(bad)))
                run.pending_failures.append((ob2, 'refuted', 'a column shows %s (%s)' % (foreign_what, ', '.join(bad))))
            else:
                run.add(ob2, 'proved', 'token structure (no payload symbol in any column of any path)', 0, fq)
        ok, detail = compare_composite(comp, [singles[i] for i in range(n) if setting[i]], base)
        if ok:
            run.add(ob, 'proved', 'token structure + z3-5.1 (exhaustive over switch settings)', 0, fq)
        else:
            run.add(ob, 'refuted', 'token structure + z3-5.1', 0, fq, detail)
            run.pending_failures.append((ob, 'refuted', detail))
    run.hashes.update(sess.repo.hashes)


def strip_suffix(toks, suffix):
    """toks minus a trailing token sequence (the always-present body)"""
    if not suffix:
        return toks
    k = len(suffix)
    return toks[:len(toks) - k] if len(toks) >= k else None


def compare_composite(comp, parts, base):
    """every (pc, alternative) of the composite must equal  col_1 ++ ... ++ col_k ++ body  for jointly feasible alternatives"""
    checked = 0
    for pc, alts in comp:
        for conds, toks in alts:
            joint = pc + conds
            # choose, for each part and the base, the alternative compatible with this one
            chosen = []
            for part in parts + [base]:
                found = None
                for ppc, palts in part:
                    for pconds, ptoks in palts:
                        r, _ = solve.satisfiable(joint + ppc + pconds, 3000)
                        if r != z3.unsat:
                            found = (ppc + pconds, ptoks)
                            break
                    if found:
                        break
                if found is None:
                    return False, 'no compatible alternative of a column'
                chosen.append(found)
            body = chosen[-1][1]
            want = []
            for pcx, ptoks in chosen[:-1]:
                col = strip_suffix(textform.merge_lits(ptoks), textform.merge_lits(body)) if body else ptoks
                col = split_body(ptoks, body)
                if col is None:
                    return False, 'a single-column rendering does not end with the always-present part'
                want += col
            want += body
            allpc = joint + [c for pcx, _ in chosen for c in pcx]
            ok, d = toks_equal_under(allpc, textform.merge_lits(toks), textform.merge_lits(want))
            checked += 1
            if not ok:
                return False, d
    if checked == 0:
        return False, 'nothing compared (vacuous)'
    return True, ''


def split_body(toks, body):
    """tokens of a single-column rendering minus the trailing body tokens (literal tails are cut textually)"""
    t = textform.merge_lits(list(toks))
    b = textform.merge_lits(list(body))
    if not b:
        return t
    # peel from the end
    while b:
        if not t:
            return None
        x, y = t[-1], b[-1]
        if x[0] == 'lit' and y[0] == 'lit':
            if x[1].endswith(y[1]):
                rest = x[1][:len(x[1]) - len(y[1])]
                t = t[:-1] + ([('lit', rest)] if rest else [])
                b = b[:-1]
                continue
            if y[1].endswith(x[1]) and len(b) >= 1:
                b = b[:-1] + [('lit', y[1][:len(y[1]) - len(x[1])])]
                t = t[:-1]
                continue
            return None
        if repr(x) == repr(y) or (x[0] == y[0] and len(x) > 1 and hasattr(x[1], 'eq') and x[1].eq(y[1])):
            t, b = t[:-1], b[:-1]
            continue
        return None
    return t


def verify_format_process(run, tier):
    sess = Session()
    it = sess.it
    fq = MOD + ':PyKdebugParser._format_process'
    prefix = 'C14/_format_process'

    def thunk(ctx):
        self_ = make_self(sess, ctx, {})
        tid = z3.Int('tid')
        ctx.declare_range(tid, 0, (1 << 64) - 1)
        T, P = self_.fields['threads_pids'], self_.fields['pids_names']
        # table invariant: declared pids are recorded words, never negative
        x = z3.Int('x!pid')
        ctx.facts.append(z3.ForAll([x], z3.Implies(z3.Select(T.dom, x), z3.Select(T.val, x) >= 0)))
        txt = it.call(it.lib.getattr_(it, self_, '_format_process'), [SInt(tid)], {})
        pid = z3.Select(T.val, tid)
        goals = []
        for conds, toks in textform.flatten(txt):
            cond = z3.And(conds) if conds else z3.BoolVal(True)
            t = textform.merge_lits(toks)
            if len(t) == 2 and t[0] == ('lit', 'Error: tid ') and t[1][0] == 'dec':
                goals.append(z3.Implies(cond, z3.And(z3.Not(z3.Select(T.dom, tid)), t[1][1] == tid)))
            elif len(t) == 3 and t[0] == ('lit', '(') and t[1][0] == 'dec' and t[2] == ('lit', ')'):
                goals.append(z3.Implies(cond, z3.And(z3.Select(T.dom, tid), t[1][1] == pid,
                                                     z3.Or(z3.Not(z3.Select(P.dom, pid)), z3.Select(P.val, pid) == intern_str('')))))
            elif len(t) == 4 and t[0][0] == 'atom' and t[1] == ('lit', '(') and t[2][0] == 'dec' and t[3] == ('lit', ')'):
                goals.append(z3.Implies(cond, z3.And(z3.Select(T.dom, tid), t[2][1] == pid,
                                                     t[0][1] == z3.If(z3.Select(P.dom, pid), z3.Select(P.val, pid), intern_str('')))))
            else:
                goals.append(z3.Implies(cond, z3.BoolVal(False)))
        ctx.oblige(prefix + '/names-the-declared-process-or-reports-unknown', z3.And(goals) if goals else z3.BoolVal(False))
        return txt
    from checks import c02
    c02._explore(run, tier, sess, thunk, fq, prefix)


def an_C14_maps(mod, name, paths, fq):
    """effect clause of every decoder on the thread->process and process->name tables: the declared records perform exactly
    their declared update when they are read, every other decoder leaves both tables alone"""
    from checks import decoder_checks as DCK
    from contracts.decoders import C14_THREAD_DECLARATIONS, C14_PROCESS_NAMINGS
    ob = 'C14/process-tables/%s.%s' % (mod, name)
    bad = None
    n_ret = 0
    for s in paths:
        if s.outcome != 'return':
            continue
        n_ret += 1
        w, p = s.window, s.parser
        tp, pn = p.fields.get('threads_pids'), p.fields.get('pids_names')
        wt = list(getattr(tp, 'writes', []) or [])
        wn = list(getattr(pn, 'writes', []) or [])
        word = lambda spec: w.tid if spec == 'tid' else z3.Select(w.v[int(spec[1:])], 0)
        if name in C14_THREAD_DECLARATIONS:
            kspec, vspec = C14_THREAD_DECLARATIONS[name]
            if len(wt) != 1 or len(wt[0]) != 2:
                bad = 'the record declares thread %s -> process %s, but the decoder performs %d updates of the thread table' % (kspec, vspec, len(wt))
            else:
                kt, vt = wt[0]
                if DCK.feasible(list(s.pc) + [z3.Or(kt != word(kspec), vt != word(vspec))]):
                    bad = 'the thread table is not updated with thread %s -> process %s of the record' % (kspec, vspec)
            if wn:
                bad = 'writes the process-name table'
        elif name in C14_PROCESS_NAMINGS:
            if wt:
                bad = 'writes the thread table'
            if len(wn) > 1:
                bad = 'more than one update of the process-name table'
            for wr in wn:
                if len(wr) != 2 or not any(nm.startswith('p.' + C14_PROCESS_NAMINGS[name]) for nm in DCK.sym_names(wr[0])):
                    bad = 'the process named is not the one of the preceding data record of the same thread'
        elif wn:
            bad = 'not a declaring record, but updates the process-name table'
        elif wt:
            # a composite decoder may repeat the declaration of a declaring record nested in its window (PERF_Event decodes
            # its PERF_THD_Data record again): key and value must be that record's declared words
            for wr in wt:
                ok = False
                if len(wr) == 2 and not isinstance(wr[0], str):
                    kt, vt = wr
                    for dname, (kspec, vspec) in C14_THREAD_DECLARATIONS.items():
                        if kspec == 'tid':
                            continue
                        ks = z3.simplify(kt)
                        if not (z3.is_app(ks) and ks.decl().kind() == z3.Z3_OP_SELECT and ks.arg(0).eq(w.v[int(kspec[1:])])):
                            continue
                        j = ks.arg(1)
                        codes = p.fields.get('trace_codes')
                        is_decl = z3.And(z3.Select(codes.dom, z3.Select(w.eid, j)), z3.Select(codes.val, z3.Select(w.eid, j)) == intern_str(dname),
                                         j >= 0, j < w.length)
                        if not DCK.feasible(list(s.pc) + [z3.Not(z3.And(is_decl, vt == z3.Select(w.v[int(vspec[1:])], j)))]):
                            ok = True
                if not ok:
                    bad = 'not a declaring record, but updates the thread table with something other than a nested declaring record\'s words'
    if not n_ret:
        return []
    if bad is None:
        return [DCK.rec(ob, 'proved', 'symbolic execution: table writes on every returning path', 0, fq)]
    return [DCK.rec(ob, 'refuted', 'symbolic execution', 0, fq, bad,
                    viol={'request': {'kind': 'process_column_case', 'declaring': name}, 'what': '%s: %s' % (name, bad), 'solver_output': bad})]


def verify_process_tables(run, tier):
    from checks import decoder_checks as DCK
    DCK.ANALYSES['C14'] = an_C14_maps
    recs, tabs = DCK.run_pool(run, 'C14')
    DCK.absorb(run, recs)


def run_check(run, tier):
    run.pending_failures = []
    run.trusted += ['pyvc interpreter; token-level text model', 'z3 5.1',
                    'effect clause of set_thread_map (C02)']
    run.assumptions += ['colouring never changes the text: pygments/termcolor are outside the family - BOUNDED native stand-in (ANSI-stripped coloured output equals the plain one on sampled traces)',
                        '_format_timestamp is an opaque column function of (timestamp, conversion parameters)',
                        'declared pids are non-negative recorded words (the unknown-thread marker -1 cannot collide)']

    def kev(sess, ctx):
        e = arbitrary_kevent(sess, ctx, 'e')
        return [e, libattr.new_symmap('codes', 'atom', origin='trace_codes')]
    compose_check(run, tier, '_format_kevent', ['show_timestamp', 'show_name', 'show_func_qual', 'show_tid', 'show_process', 'show_args'],
                  kev, True, 'C14/_format_kevent')

    def tr(sess, ctx):
        e = arbitrary_kevent(sess, ctx, 'e')
        cls = ClassVal('AnyTrace', None, 'plain')
        cls.attrs['__str__'] = Builtin('trace.__str__', lambda it_, a, k, n: atom_str(z3.Int('trace.text')))
        o = Obj(cls, {'ktraces': PList([e])})
        o.open_payload = 'payload'          # any decoded trace: its own fields (tid, pid, name, timestamp ...) are arbitrary
        return [o]
    compose_check(run, tier, '_format_trace', ['show_timestamp', 'show_tid', 'show_process'], tr, True, 'C14/_format_trace',
                  foreign=('payload.',), foreign_what='a payload field of the trace')

    def cs(sess, ctx):
        cls = sess.module('pykdebugparser.callstacks_parser').ns['Callstack']
        return [Obj(cls, {'timestamp': SInt(z3.Int('cs.ts')), 'tid': SInt(z3.Int('cs.tid')), 'frames': PList()})]
    compose_check(run, tier, '_format_callstack', ['show_timestamp', 'show_tid', 'show_process'], cs, True, 'C14/_format_callstack')
    verify_format_process(run, tier)
    verify_process_tables(run, tier)
    # "the process that the dump itself declares": the thread map of the file reaches the tables word for word (unsigned ids,
    # the name up to its NUL) - the clauses of C02 / C03 that say so, discharged again under this property's name
    from checks import c02, c03
    c02.verify_set_thread_map(run, tier, prefix_root='C14')        # every entry of the map reaches the tables (pid 0 included), later entries win
    c02.verify_parse_v2(run, tier, wf=True, prefix='C14/parse_v2', only=('threadmap.', '/supported', '/noraise'))
    c03.verify_chunk_loops(run, tier, wf=True, prefix='C14/parse_v3', only=('threadmap.', '/supported', '/noraise'))
    out = native({'kind': 'color_search', 'seed': run.seed, 'budget': 60 if tier == 'quick' else 600}, timeout=600)
    run.bounded.append({'what': 'BOUNDED native stand-in for "colouring never changes the text"', 'lines_tried': out.get('tried'), 'found': bool(out.get('found'))})
    if out.get('found'):
        run.add('C14/bounded/colouring', 'refuted', 'native bounded search', 0, MOD + ':PyKdebugParser._format_trace')
        run.violation('C14/bounded/colouring', {'request': out['found']['request'], 'native': out['found'], 'solver_output': 'native search'}, True,
                      what=out['found'].get('what', ''))
    finish(run)


def finish(run):
    found = None
    if run.pending_failures:
        out = native({'kind': 'format_search', 'seed': run.seed, 'budget': 300}, timeout=600)
        run.bounded.append({'what': 'native search over switch settings and table updates (refute mode)', 'tried': out.get('tried'), 'found': bool(out.get('found'))})
        found = out.get('found')
    for ob, status, detail in run.pending_failures:
        if found:
            run.violation(ob, {'request': found['request'], 'native': found, 'solver_output': '%s (%s)' % (status, detail)}, True, what=found.get('what', ''))
        elif status == 'refuted':
            run.violation(ob, {'request': None, 'solver_output': 'obligation refuted (%s)' % detail}, False, what='obligation %s no longer holds' % ob)
        else:
            run.undecide(ob, 'not proved (%s)' % detail)
