"""C15 - callstacks take the sampled frames and attribute each to the right image.

Contracts on the real CallstacksParser.insert_image / feed_generator over lists of symbolic length
((array, length) with the assumed contract of bisect and list.insert), representation invariant
`len(addresses) == len(uuids) and addresses strictly increasing`, abstract view addr -> uuid with explicit
witness functions, plus lemmas over the contract: inserts of distinct addresses commute on the view, a
lookup is a function of the view.  (The frames of a sample = first N stack-data words: proved in C20.)"""
import z3

from pyvc.harness import Session
from pyvc import solve, heap, paths as pathsmod
from pyvc.report import native
from pyvc.values import *  # noqa
from pyvc.interp import GenVal
from pyvc.libops import OpaqueVal

MOD = 'pykdebugparser.callstacks_parser'
I = z3.IntSort()
Bs = z3.BoolSort()
J, K, X = z3.Ints('c15!j c15!k c15!x')


def make_cp(sess, ctx):
    cls = sess.module(MOD).ns['CallstacksParser']
    A = heap.SeqList('A')
    U = heap.SeqList('U')
    n = z3.Int('n')
    ctx.facts.append(n >= 0)
    A.n = n
    U.n = n
    cp = Obj(cls, {'dyld_addresses': A, 'dyld_uuids': U})
    ctx.assume(heap.sorted_strict(A.arr, n, 'inv'))
    return cp, A, U, n


def discharge_paths(run, tier, prs, fq, prefix, need=None):
    agg = {}
    for p in prs:
        if p.outcome == 'raise':
            agg['%s/noraise@%s' % (prefix, p.exc.site[0] if p.exc.site else '?')] = {
                'status': 'refuted', 'ms': 0.0, 'backend': 'z3-5.1', 'detail': '%s raised' % p.exc.cls_name}
            continue
        for ob in p.obligations:
            v = solve.prove(ob.pc, ob.goal, 30000, tier)
            cur = agg.setdefault(ob.name, {'status': 'proved', 'ms': 0.0, 'backend': v.backend})
            cur['ms'] += v.ms
            if v.status != 'proved' and cur['status'] == 'proved':
                cur.update(status='refuted' if v.status == 'refuted' else 'unknown', detail=v.detail or v.status)
    for nm in need or []:
        if nm not in agg:
            # the code no longer reaches the point where this clause is stated: the clause is not established
            agg[nm] = {'status': 'unknown', 'ms': 0.0, 'backend': '', 'detail': 'obligation not generated: the code path it is stated on was not reached'}
    for ob, cur in sorted(agg.items()):
        if cur['status'] == 'proved':
            run.add(ob, 'proved', cur['backend'], cur['ms'], fq)
        else:
            run.add(ob, cur['status'], cur['backend'], cur['ms'], fq, cur.get('detail', ''))
            run.pending_failures.append((ob, cur['status'], cur.get('detail', '')))


def verify_insert(run, tier):
    sess = Session()
    it = sess.it
    fq = MOD + ':CallstacksParser.insert_image'
    prefix = 'C15/insert_image'

    def thunk(ctx):
        cp, A, U, n = make_cp(sess, ctx)
        A0, U0 = A.arr, U.arr
        a, u = z3.Int('a'), z3.Int('u')
        ctx.declare_range(a, 0, (1 << 64) - 1)
        it.call(sess.func(fq), [cp, SInt(a), SInt(u)], {})
        A1, U1 = A.arr, U.arr
        dup = z3.Exists([J], z3.And(J >= 0, J < n, z3.Select(A0, J) == a))
        if A.writes == 0 and U.writes == 0:
            # nothing was written on this path: only legitimate when the address was already announced
            ctx.oblige(prefix + '/first-identity-kept.only-when-announced', dup)
            ctx.oblige(prefix + '/first-identity-kept.lists-unchanged', z3.And(A.n == n, U.n == n))
            return None
        ctx.oblige(prefix + '/new.only-when-not-announced', z3.Not(dup))
        bs = ctx.notes.get('bisect', [])
        p = bs[-1][2] if bs else z3.Int('p!missing')
        np_ = lambda j: z3.If(j < p, j, j + 1)
        op_ = lambda k: z3.If(k < p, k, k - 1)
        ctx.oblige(prefix + '/new.lengths', z3.And(A.n == n + 1, U.n == n + 1))
        ctx.oblige(prefix + '/new.sorted', heap.sorted_strict(A1, n + 1, 'post'))
        ctx.oblige(prefix + '/new.present', z3.And(p >= 0, p <= n, z3.Select(A1, p) == a, z3.Select(U1, p) == u))
        ctx.oblige(prefix + '/new.old-entries-kept', z3.ForAll([J], z3.Implies(z3.And(J >= 0, J < n), z3.And(
            z3.Select(A1, np_(J)) == z3.Select(A0, J), z3.Select(U1, np_(J)) == z3.Select(U0, J)))))
        ctx.oblige(prefix + '/new.nothing-else-added', z3.ForAll([K], z3.Implies(z3.And(K >= 0, K < n + 1, K != p), z3.And(
            op_(K) >= 0, op_(K) < n, z3.Select(A1, K) == z3.Select(A0, op_(K)), z3.Select(U1, K) == z3.Select(U0, op_(K))))))
        return None
    try:
        prs = sess.explore(thunk)
    except Unsupported as ex:
        run.add(prefix + '/supported', 'unsupported', '', 0, fq, str(ex))
        run.pending_failures.append((prefix + '/supported', 'unsupported', str(ex)))
        return
    discharge_paths(run, tier, prs, fq, prefix, need=[prefix + '/new.sorted', prefix + '/first-identity-kept.only-when-announced'])
    run.hashes.update(sess.repo.hashes)


def verify_feed(run, tier):
    """one step of feed_generator for each kind of trace"""
    fq = MOD + ':CallstacksParser.feed_generator'
    prefix = 'C15/feed_generator'
    for kind in ('sample', 'sample-without-stack', 'image', 'launch', 'other'):
        sess = Session()
        it = sess.it
        calls = []
        state = {}

        def ins_contract(it_, func, args, kwargs, node):
            calls.append((args[1], args[2]))
            return None
        it.contracts[MOD + ':CallstacksParser.insert_image'] = ins_contract

        def hook(it_, stmt, fr, iterable, kind=kind):
            ctx = it.ctx
            tag = getattr(iterable, 'origin', None)
            if tag == 'stream':
                k = z3.Int('k')
                ctx.assume(z3.And(k >= 0, k < iterable.length))
                x = iterable.elem(k)
                sink = it.lookup('$yield', fr)
                it.assign(stmt.target, x, fr)
                it.exec_loop_body(stmt.body, fr)
                state['yielded'] = list(sink.items)
                state['x'] = x
                raise pathsmod.PathCut('one step')
            if tag == 'cs_frames':
                # frames loop: inductive step on an arbitrary frame, or skip to the state after the loop
                if ctx.branch(z3.Bool('frames.step')):
                    j = z3.Int('fj')
                    ctx.assume(z3.And(j >= 0, j < iterable.length))
                    f = iterable.elem(j)
                    lst = it.lookup('frames', fr)
                    before = len(lst.items)
                    it.assign(stmt.target, f, fr)
                    it.exec_loop_body(stmt.body, fr)
                    new = lst.items[before:]
                    state['frame_step'] = (f, new)
                    frame_obligations(ctx, prefix, state, sess)
                    raise pathsmod.PathCut('frame step')
                done = SymList('frames.after', iterable.length, lambda q: None, origin=('mapped-frames', iterable))
                fr.set('frames', done)
                state['frames_after'] = done
                return True
            if tag == 'uuid_map_a':
                if ctx.branch(z3.Bool('launch.step')):
                    j = z3.Int('ij')
                    ctx.assume(z3.And(j >= 0, j < iterable.length))
                    img = iterable.elem(j)
                    n0 = len(calls)
                    it.assign(stmt.target, img, fr)
                    it.exec_loop_body(stmt.body, fr)
                    ok = len(calls) == n0 + 1 and calls[-1][0] is img.fields['load_addr'] and calls[-1][1] is img.fields['uuid']
                    ctx.oblige(prefix + '/launch.announces-each-image', z3.BoolVal(ok))
                    raise pathsmod.PathCut('image step')
                return True
            return False
        it.symloop_hook = hook

        def thunk(ctx, kind=kind):
            del calls[:]
            state.clear()
            cp, A, U, n = make_cp(sess, ctx)
            state['cp'] = (A, U, n)
            perf = sess.module('pykdebugparser.trace_handlers.perf').ns['PerfEvent']
            dy = sess.module('pykdebugparser.trace_handlers.dyld')
            kcls = sess.module('pykdebugparser.kevent').ns['Kevent']
            e0 = Obj(kcls, {'timestamp': SInt(z3.Int('e0.ts')), 'data': OBytes(z3.Int('e0.data')), 'values': (), 'tid': SInt(z3.Int('e0.tid')),
                            'debugid': 0, 'eventid': 0, 'func_qualifier': 0})
            kt = SymList('ktraces', z3.Int('kt.len'), lambda q: e0 if z3.is_int_value(q) and q.as_long() == 0 else None, origin='ktraces')
            ctx.assume(kt.length >= 1)
            fw = z3.Function('frame.word', I, I)

            def frame_at(q):
                ctx.declare_range(fw(q), 0, (1 << 64) - 1)
                return SInt(fw(q))
            frames = SymList('cs_frames', z3.Int('cs.len'), frame_at, origin='cs_frames')
            ctx.facts.append(frames.length >= 0)
            if kind == 'sample':
                x = Obj(perf, {'ktraces': kt, 'sample_what': PList(), 'actionid': 1, 'th_info': None, 'cs_flags': PList(), 'cs_frames': frames})
            elif kind == 'sample-without-stack':
                x = Obj(perf, {'ktraces': kt, 'sample_what': PList(), 'actionid': 1, 'th_info': None, 'cs_flags': None, 'cs_frames': None})
            elif kind == 'image':
                x = Obj(dy.ns['DyldUuidMapA'], {'ktraces': kt, 'uuid': SInt(z3.Int('img.uuid')), 'load_addr': SInt(z3.Int('img.addr')), 'fsid': 0})
            elif kind == 'launch':
                la, lu = z3.Function('img.addr', I, I), z3.Function('img.uuid', I, I)
                imgs = SymList('uuid_map_a', z3.Int('imgs.len'), lambda q: Obj(dy.ns['DyldUuidMapA'], {
                    'ktraces': PList(), 'uuid': SInt(lu(q)), 'load_addr': SInt(la(q)), 'fsid': 0}), origin='uuid_map_a')
                ctx.facts.append(imgs.length >= 0)
                x = Obj(dy.ns['DyldLaunchExecutable'], {'ktraces': kt, 'main_executable_mh': 0, 'uuid_map_a': imgs})
            else:
                x = Obj(ClassVal('OtherTrace', None, 'plain'), {'ktraces': kt})
            stream = SymList('stream', z3.Int('stream.len'), lambda q: x, origin='stream')
            g = it.call(sess.func(fq), [cp, stream], {})
            if not isinstance(g, GenVal):
                ctx.oblige(prefix + '/is-a-generator', z3.BoolVal(False))
                return None
            try:
                it.run_generator(g)
            except pathsmod.PathCut:
                if 'yielded' not in state:
                    raise
                ys = state['yielded']
                if kind == 'sample':
                    ok = len(ys) == 1 and ys[0][0] is True and isinstance(ys[0][1], Obj) and ys[0][1].cls.name == 'Callstack'
                    ctx.oblige(prefix + '/sample.exactly-one-callstack', z3.BoolVal(ok))
                    if ok:
                        cs = ys[0][1]
                        ctx.oblige(prefix + '/sample.stamped-with-start', z3.And(zi(cs.fields['timestamp']) == z3.Int('e0.ts'),
                                                                                 zi(cs.fields['tid']) == z3.Int('e0.tid')))
                        ctx.oblige(prefix + '/sample.frames-are-the-mapped-frames', z3.BoolVal(cs.fields['frames'] is state.get('frames_after')))
                    ctx.oblige(prefix + '/sample.announces-nothing', z3.BoolVal(len(calls) == 0))
                elif kind == 'image':
                    ok = len(calls) == 1 and zi(calls[0][0]).eq(z3.Int('img.addr')) and zi(calls[0][1]).eq(z3.Int('img.uuid'))
                    ctx.oblige(prefix + '/image.announced-once', z3.BoolVal(ok))
                    ctx.oblige(prefix + '/image.yields-nothing', z3.BoolVal(len(ys) == 0))
                elif kind == 'launch':
                    ctx.oblige(prefix + '/launch.yields-nothing', z3.BoolVal(len(ys) == 0))
                else:
                    ctx.oblige(prefix + '/%s.yields-nothing' % kind, z3.BoolVal(len(ys) == 0))
                    ctx.oblige(prefix + '/%s.announces-nothing' % kind, z3.BoolVal(len(calls) == 0))
                raise
            return g
        try:
            prs = sess.explore(thunk)
        except Unsupported as ex:
            run.add('%s/supported.%s' % (prefix, kind), 'unsupported', '', 0, fq, str(ex))
            run.pending_failures.append(('%s/supported.%s' % (prefix, kind), 'unsupported', str(ex)))
            continue
        need = {'sample': [prefix + '/sample.exactly-one-callstack', prefix + '/frame.attributed-to-greatest-image-not-above'],
                'image': [prefix + '/image.announced-once'], 'launch': [prefix + '/launch.announces-each-image']}.get(kind, [])
        discharge_paths(run, tier, prs, fq, prefix, need=need)
        run.hashes.update(sess.repo.hashes)


def frame_obligations(ctx, prefix, state, sess):
    f, new = state['frame_step']
    A, U, n = state['cp']
    ft = zi(f)
    zt = lambda g: z3.BoolVal(True) if g is True else g
    ok = len(new) >= 1 and all(isinstance(v, Obj) and v.cls.name == 'Frame' for g, v in new)
    ctx.oblige(prefix + '/frame.one-frame-per-word',
               z3.And(z3.BoolVal(ok), z3.Sum([z3.If(zt(g), 1, 0) for g, v in new]) == 1) if ok else z3.BoolVal(False))
    if not ok:
        return
    goals = {'addr': [], 'none-below': [], 'none-offset': [], 'offset': [], 'greatest': []}
    for g, item in new:
        fr = item.fields
        gz = zt(g)
        goals['addr'].append(z3.Implies(gz, zi(fr['address']) == ft if is_intlike(fr['address']) else z3.BoolVal(False)))
        if fr['uuid'] is None:
            goals['none-below'].append(z3.Implies(gz, z3.ForAll([J], z3.Implies(z3.And(J >= 0, J < n), z3.Select(A.arr, J) > ft))))
            goals['none-offset'].append(z3.BoolVal(fr['offset'] is None))
        else:
            off = fr['offset']
            ut = zi(fr['uuid'])
            idx = z3.Int('idx!w')
            base = ft - zi(off)
            goals['offset'].append(z3.Implies(gz, zi(off) >= 0))
            goals['greatest'].append(z3.Implies(gz, z3.Exists([idx], z3.And(
                idx >= 0, idx < n, z3.Select(A.arr, idx) == base, z3.Select(U.arr, idx) == ut,
                z3.ForAll([J], z3.Implies(z3.And(J >= 0, J < n, z3.Select(A.arr, J) <= ft), J <= idx))))))
    names = {'addr': 'frame.address-is-the-word', 'none-below': 'frame.no-image-only-if-none-below', 'none-offset': 'frame.no-image-no-offset',
             'offset': 'frame.offset-non-negative', 'greatest': 'frame.attributed-to-greatest-image-not-above'}
    for k, gs in goals.items():
        if gs:
            ctx.oblige(prefix + '/' + names[k], z3.And(gs))


def lemmas(run, tier):
    """lemmas over the insert_image contract (abstract view Dom, V)"""
    fn = MOD + ':CallstacksParser (lemmas over the contracts)'
    Dom = z3.Const('Dom', z3.ArraySort(I, Bs))
    V = z3.Const('V', z3.ArraySort(I, I))
    a, b, u, v = z3.Ints('a b u v')

    def ins(D, W, k, val):
        return (z3.If(z3.Select(D, k), D, z3.Store(D, k, True)), z3.If(z3.Select(D, k), W, z3.Store(W, k, val)))
    D1, W1 = ins(*ins(Dom, V, a, u), b, v)
    D2, W2 = ins(*ins(Dom, V, b, v), a, u)
    r = solve.prove([a != b], z3.And(D1 == D2, W1 == W2), 20000, tier)
    _rec(run, 'C15/lemma/announcements-of-distinct-images-commute', r, fn)
    D3, W3 = ins(*ins(Dom, V, a, u), a, v)
    r = solve.prove([], z3.And(z3.Select(W3, a) == z3.If(z3.Select(Dom, a), z3.Select(V, a), u)), 20000, tier)
    _rec(run, 'C15/lemma/address-announced-twice-keeps-first-identity', r, fn)
    # a lookup depends only on the view: two strictly sorted representations of the same view give the same answer
    A1, U1, A2, U2 = [z3.Const(nm, z3.ArraySort(I, I)) for nm in ('A1', 'U1', 'A2', 'U2')]
    n1, n2, f, i1, i2 = z3.Ints('n1 n2 f i1 i2')
    w12 = z3.Function('w12', I, I)
    w21 = z3.Function('w21', I, I)
    hyp = [n1 >= 0, n2 >= 0, heap.sorted_strict(A1, n1, 'l1'), heap.sorted_strict(A2, n2, 'l2'),
           z3.ForAll([J], z3.Implies(z3.And(J >= 0, J < n1), z3.And(w12(J) >= 0, w12(J) < n2, z3.Select(A2, w12(J)) == z3.Select(A1, J),
                                                                     z3.Select(U2, w12(J)) == z3.Select(U1, J)))),
           z3.ForAll([K], z3.Implies(z3.And(K >= 0, K < n2), z3.And(w21(K) >= 0, w21(K) < n1, z3.Select(A1, w21(K)) == z3.Select(A2, K)))),
           i1 >= 0, i1 < n1, z3.Select(A1, i1) <= f, z3.ForAll([J], z3.Implies(z3.And(J >= 0, J < n1, z3.Select(A1, J) <= f), J <= i1)),
           i2 >= 0, i2 < n2, z3.Select(A2, i2) <= f, z3.ForAll([K], z3.Implies(z3.And(K >= 0, K < n2, z3.Select(A2, K) <= f), K <= i2))]
    r = solve.prove(hyp, z3.And(z3.Select(A1, i1) == z3.Select(A2, i2), z3.Select(U1, i1) == z3.Select(U2, i2)), 30000, tier)
    _rec(run, 'C15/lemma/lookup-is-a-function-of-the-view', r, fn)


def _rec(run, name, v, fn):
    if v.status == 'proved':
        run.add(name, 'proved', v.backend, v.ms, fn, kind='lemma')
    else:
        run.add(name, v.status, v.backend, v.ms, fn, v.detail, kind='lemma')
        run.pending_failures.append((name, v.status, v.detail))


def verify_sample_frames(run, tier):
    """first clause of the property, on the real sampler decoder (perf.handle_event, with handle_stk_uhdr / handle_stk_udata
    inlined): the user stack of a sample is the first N words (N = the header's count) of the window's stack-data records in
    stream order, each record contributing its four words.  Same post-condition object as C20's sampler clause."""
    from pyvc import decoders
    from checks import c20
    sess = Session(policy=decoders.DecoderPolicy())
    tabs = decoders.handler_tables(sess)
    fq = c20.FQ['PERF_Event']
    try:
        paths = decoders.explore_decoder(sess, 'PERF_Event', tabs['PERF_Event'][0][1], post=c20.post_sampler(sess))
    except Unsupported as ex:
        run.add('C15/sample/supported', 'unsupported', '', 0, fq, str(ex))
        run.pending_failures.append(('C15/sample/supported', 'unsupported', str(ex)))
        return
    agg = {}
    for s in paths:
        if s.outcome != 'return':
            continue
        for ob in s.obligations:
            if 'user-stack' not in ob.name:
                continue
            name = ob.name.replace('C20/sampler/user-stack.', 'C15/sample/')
            v = solve.prove(ob.pc, ob.goal, 20000, tier)
            cur = agg.setdefault(name, {'status': 'proved', 'ms': 0.0, 'backend': v.backend, 'n': 0})
            cur['ms'] += v.ms
            cur['n'] += 1
            if v.status == 'refuted':
                cur['status'] = 'refuted'
            elif v.status != 'proved' and cur['status'] == 'proved':
                cur.update(status='unknown', detail=v.detail)
    if not agg:
        run.engine_error('C15 sample frames: no obligation generated')
    for name, cur in sorted(agg.items()):
        if cur['status'] == 'proved':
            run.add(name, 'proved', cur['backend'] + ' (%d paths)' % cur['n'], cur['ms'], fq)
        else:
            run.add(name, cur['status'], cur['backend'], cur['ms'], fq, cur.get('detail', ''))
            run.pending_failures.append((name, cur['status'], cur.get('detail', 'refuted on a path of the symbolic run')))
    run.hashes.update(sess.repo.hashes)


def verify_request_start(run, tier):
    """the images a sample is attributed to are those "announced earlier in the stream": a callstack request on a parser
    object that served earlier requests (arbitrary content of its image tables) starts its CallstacksParser with empty
    tables, and hands it the traces of this request unchanged"""
    from pyvc.interp import GenVal
    from checks import c13
    sess = Session()
    it = sess.it
    holder = {}
    c13.install_contracts(sess, holder)
    fq = 'pykdebugparser.pykdebugparser:PyKdebugParser.callstacks'
    prefix = 'C15/callstacks'
    traces_calls = []

    def traces_contract(it_, func, args, kwargs, node):
        r = Obj(ClassVal('TraceStream', None, 'plain'), {})
        traces_calls.append((args, kwargs, r))
        return r
    it.contracts['pykdebugparser.pykdebugparser:PyKdebugParser.traces'] = traces_contract

    def thunk(ctx):
        del traces_calls[:]
        self_, sets, _ = c13.setup(sess, ctx)
        n = z3.Int('old.images')
        ctx.facts.append(n >= 0)
        for nm in ('dyld_addresses', 'dyld_uuids'):
            self_.fields[nm] = SymList('old.' + nm, n, lambda j, nm=nm: SInt(z3.Select(z3.Array('old.%s.arr' % nm, I, I), j)), origin='old-images')
        reader = Obj(ClassVal('Reader', None, 'plain'), {})
        codes = Obj(ClassVal('Codes', None, 'plain'), {})
        g = it.call(it.lib.getattr_(it, self_, 'callstacks'), [reader, codes], {})
        ok = isinstance(g, GenVal) and g.func.name == 'feed_generator' and isinstance(g.frame.vars.get('self'), Obj)
        ctx.oblige(prefix + '/is-the-callstack-machine-over-the-traces', z3.BoolVal(bool(ok)))
        if not ok:
            return g
        cp = g.frame.vars['self']
        for nm in ('dyld_addresses', 'dyld_uuids'):
            t = cp.fields.get(nm)
            ln = t.length if isinstance(t, SymList) else (z3.IntVal(len(t.items)) if isinstance(t, PList) and t.is_concrete() else None)
            ctx.oblige('%s/starts-with-an-empty-image-table.%s' % (prefix, nm), (ln == 0) if ln is not None else z3.BoolVal(False))
        same = len(traces_calls) == 1 and g.frame.vars.get('generator') is traces_calls[0][2] and not traces_calls[0][1] \
            and len(traces_calls[0][0]) == 3 and traces_calls[0][0][1] is reader and traces_calls[0][0][2] is codes
        ctx.oblige(prefix + '/consumes-exactly-the-traces-of-this-request', z3.BoolVal(bool(same)))
        return g
    import checks.c02 as c02
    before = list(run.pending_failures)
    c02._explore(run, tier, sess, thunk, fq, prefix)
    mine = [x for x in run.pending_failures if x not in before]
    if mine:
        out = native({'kind': 'api_history_case'}, timeout=900)
        for x in mine:
            run.pending_failures.remove(x)
            if out.get('violates'):
                run.violation(x[0], {'request': {'kind': 'api_history_case'}, 'native': out, 'solver_output': '%s (%s)' % (x[1], x[2])}, True, what=out.get('what', ''))
            elif x[1] == 'refuted':
                run.violation(x[0], {'request': None, 'solver_output': x[2]}, False, what='obligation %s no longer holds' % x[0])
            else:
                run.undecide(x[0], x[2])


def run_check(run, tier):
    run.pending_failures = []
    run.trusted += ['pyvc interpreter + (array, length) list model', 'z3 5.1 / cvc5',
                    'assumed contracts: bisect.bisect on a sorted list, list.insert, `in` on a list']
    run.assumptions += ['frames are 64-bit words; image load addresses are ints',
                        ]
    verify_sample_frames(run, tier)
    verify_request_start(run, tier)
    verify_insert(run, tier)
    verify_feed(run, tier)
    lemmas(run, tier)
    if tier == 'thorough':
        out = native({'kind': 'conf_bisect', 'n': 20000, 'seed': run.seed})
        run.bounded.append({'what': 'assumed contracts of bisect / list.insert sampled against CPython (not proved)', 'result': out})
        if out.get('mismatches'):
            run.engine_error('bisect/insert contract disagrees with CPython: %s' % out['mismatches'][:2])
    finish(run)


def finish(run):
    if not run.pending_failures and run.tier != 'thorough':
        return
    sample = [x for x in run.pending_failures if x[0].startswith('C15/sample/')]
    if sample:
        out = native({'kind': 'composite_search', 'name': 'PERF_Event', 'budget': 2500, 'seed': run.seed}, timeout=600)
        run.bounded.append({'what': 'bounded native search of sampler windows against spec/composite.py (refute mode only)',
                            'windows_tried': out.get('tried'), 'bound': out.get('bound'), 'found': bool(out.get('found'))})
        f = out.get('found')
        for ob, status, detail in sample:
            run.pending_failures.remove((ob, status, detail))
            if f:
                run.violation(ob, {'request': f['request'], 'native': f, 'solver_output': '%s (%s)' % (status, detail)}, True, what='PERF_Event: ' + f.get('what', ''))
            elif status == 'refuted':
                run.violation(ob, {'request': None, 'solver_output': detail}, False, what='obligation %s no longer holds' % ob)
            else:
                run.undecide(ob, detail)
        if not run.pending_failures and run.tier != 'thorough':
            return
    out = native({'kind': 'callstack_search', 'seed': run.seed, 'budget': 20000 if run.tier == 'thorough' else 4000}, timeout=600)
    run.bounded.append({'what': 'bounded native search of announcement/sample sequences against the callstack specification (refute mode only)',
                        'cases_tried': out.get('tried'), 'bound': out.get('bound'), 'found': bool(out.get('found'))})
    found = out.get('found')
    if found and not run.pending_failures:
        run.pending_failures.append(('C15/bounded-search', 'refuted', 'native search'))
        run.add('C15/bounded-search', 'refuted', 'native bounded search', 0, MOD + ':CallstacksParser.feed_generator')
    for ob, status, detail in run.pending_failures:
        if found:
            run.violation(ob, {'request': found['request'], 'native': found, 'solver_output': '%s (%s); failing sequence found by the native search' % (status, detail)},
                          True, what=found.get('what', ''))
        elif status == 'refuted':
            run.violation(ob, {'request': None, 'solver_output': 'obligation refuted (%s); bounded native search found no failing sequence' % detail},
                          False, what='obligation %s no longer holds' % ob)
        else:
            run.undecide(ob, 'not proved (%s) and no failing sequence found' % detail)
