"""C16 - log records decode for every combination of optional fields.

from_raw_log_event is symbolically executed once over a raw record whose 31 optional keys each carry a
symbolic presence bit (the `if key in event` statements are merged, not enumerated: one run covers all 2^31
subsets); every field of the resulting OsLogEvent is compared with the specification (present -> the
record's value, through the string index where the format says so; absent -> the dataclass default).
parse_trace_identifier is proved to be the exact inverse of the firehose_tracepoint_id packing for every
64-bit word whose namespace/type the format defines, by interpreting the real construct declaration."""
import z3

from pyvc.harness import Session
from pyvc import solve, libattr, paths as pathsmod
from pyvc.report import native
from pyvc.values import *  # noqa
from pyvc.interp import DefaultPolicy
from pyvc.libops import OpaqueVal, OpaqueFloat, Instant, and_const, values_equal

MOD = 'pykdebugparser.os_log_event'
FQ = MOD + ':OsLogEvent.from_raw_log_event'

# raw key -> (field, kind)   kind: int | str (through the string index) | bytes | enum:<cls> | dict | special
OPTIONAL = {
    'pip': ('process_image_path', 'str'), 'p': ('process', 'str'), 'sip': ('sender_image_path', 'str'), 'send': ('sender', 'str'),
    'sio': ('sender_image_offset', 'int'), 'siu': ('sender_image_uuid', 'int'), 'lt': ('log_type', 'enum:OsLogType'),
    'ttl': ('time_to_live', 'int'), 'pid': ('process_identifier', 'int'), 'aid': ('activity_identifier', 'int'),
    'paid': ('parent_activity_identifier', 'int'), 'tai': ('transition_activity_identifier', 'int'),
    'sub': ('subsystem', 'str'), 'cat': ('category', 'str'), 'f': ('format_string', 'str'),
    'cai': ('creator_activity_identifier', 'int'), 'cpui': ('creator_process_unique_identifier', 'int'),
    'si': ('signpost_identifier', 'int'), 'sn': ('signpost_name', 'str'), 'st': ('signpost_type', 'int'), 'ss': ('signpost_scope', 'int'),
    'lsmct': ('loss_start_mach_continuous_timestamp', 'int'), 'lemct': ('loss_end_mach_continuous_timestamp', 'int'),
    'lsud': ('loss_start_unix_date', 'opaque'), 'leud': ('loss_end_unix_date', 'opaque'),
    'lsutz': ('loss_start_unix_timezone', 'tz'), 'leutz': ('loss_end_unix_timezone', 'tz'),
    'bt': ('backtrace', 'bt'), 'lc': ('loss_count', 'lc'), 'dm': ('decomposed_message', 'dm'), 'ti': ('trace_identifier', 'ti'),
}
MAX_SEC = 253402300799       # 9999-12-31T23:59:59Z
MANDATORY = {'cm': ('composed_message', 'str'), 't': ('type_', 'int'), 's': ('size', 'int'), 'tid': ('thread_identifier', 'int'),
             'ns': ('continuous_nanoseconds_since_boot', 'int'), 'mct': ('mach_continuous_timestamp', 'int'),
             'b': ('boot_uuid', 'int'), 'piu': ('process_image_uuid', 'int')}


class Policy(DefaultPolicy):
    """in-domain premises: referenced string indices are in the index; enum-typed fields hold values the format defines"""

    def raise_site(self, interp, kind, cond, exc_name, node):
        base = kind.split(':')[0]
        if base == 'table-key' and 'log_strings' in kind:
            return 'assume'
        if base == 'enum-value' and 'SingpostFlags' not in kind and 'LogFlags' not in kind:
            return 'assume'
        return 'fork'


def raw_event(ctx):
    ev = PDict()
    present = {}
    vals = {}

    def put(k, v, optional):
        g = True
        if optional:
            g = z3.Bool('has.' + k)
            present[k] = g
        ev.set_entry(k, g, v)
        vals[k] = v
    for k in MANDATORY:
        put(k, SInt(z3.Int('raw.' + k)), False)
    put('ud', PDict([('sec', SInt(z3.Int('raw.ud.sec'))), ('usec', SInt(z3.Int('raw.ud.usec')))]), False)
    # in-range date: within datetime's range (years 1970..9999), microseconds below 10^6
    ctx.facts.append(z3.And(z3.Int('raw.ud.sec') >= 0, z3.Int('raw.ud.sec') <= MAX_SEC, z3.Int('raw.ud.usec') >= 0, z3.Int('raw.ud.usec') < 1000000))
    put('utz', PDict([('mw', SInt(z3.Int('raw.utz.mw'))), ('dt', SInt(z3.Int('raw.utz.dt')))]), False)
    for k, (f, kind) in OPTIONAL.items():
        if kind in ('int', 'str') or kind.startswith('enum'):
            put(k, SInt(z3.Int('raw.' + k)), True)
        elif kind == 'ti':
            t = z3.Int('raw.ti')
            ctx.declare_range(t, 0, (1 << 64) - 1)
            put(k, SInt(t), True)
        elif kind == 'opaque':
            put(k, PDict([('sec', SInt(z3.Int('raw.%s.sec' % k)))]), True)
        elif kind == 'tz':
            put(k, PDict([('mw', SInt(z3.Int('raw.%s.mw' % k))), ('dt', SInt(z3.Int('raw.%s.dt' % k)))]), True)
        elif kind == 'lc':
            put(k, PDict([('c', SInt(z3.Int('raw.lc.c'))), ('s', SInt(z3.Int('raw.lc.s')))]), True)
        elif kind == 'bt':
            iu, io = z3.Function('raw.bt.iu', z3.IntSort(), z3.IntSort()), z3.Function('raw.bt.io', z3.IntSort(), z3.IntSort())
            lst = SymList('raw.bt', z3.Int('raw.bt.len'), lambda q: PDict([('iu', SInt(iu(q))), ('io', SInt(io(q)))]), origin='bt')
            ctx.facts.append(lst.length >= 0)
            put(k, lst, True)
        elif kind == 'dm':
            put(k, PDict([('pc', SInt(z3.Int('raw.dm.pc'))), ('s', SInt(z3.Int('raw.dm.s')))]), True)
    return ev, present, vals


def verify_main(run, tier):
    sess = Session(policy=Policy())
    it = sess.it
    prefix = 'C16/from_raw_log_event'
    calls = {}

    def pti(it_, func, args, kwargs, node):
        r = Obj(ClassVal('TraceIdentifierResult', None, 'plain'), {})
        calls.setdefault('ti', []).append((args[-1], r))
        return r
    it.contracts[MOD + ':OsLogEvent.parse_trace_identifier'] = pti

    def pdm(it_, func, args, kwargs, node):
        r = Obj(ClassVal('DecomposedResult', None, 'plain'), {})
        calls.setdefault('dm', []).append((args[-2], args[-1], r))
        return r
    it.contracts[MOD + ':OsLogEvent.parse_decomposed'] = pdm

    def thunk(ctx):
        calls.clear()
        cls = sess.module(MOD).ns['OsLogEvent']
        ev, present, vals = raw_event(ctx)
        strings = libattr.new_symmap('log_strings', 'atom', origin='log_strings')
        res = it.call(it.lib.getattr_(it, cls, 'from_raw_log_event'), [ev, strings], {})
        ok = isinstance(res, Obj) and res.cls is cls
        ctx.oblige(prefix + '/returns-a-log-event', z3.BoolVal(ok))
        if not ok:
            return res
        f = res.fields
        sidx = lambda k: z3.Select(strings.val, vals[k].t)
        defaults = dict(cls.fields)

        def same(a, b):
            e = values_equal(it, a, b)
            return z3.BoolVal(e) if isinstance(e, bool) else e
        for k, (fld, kind) in MANDATORY.items():
            want = atom_str(sidx(k)) if kind == 'str' else vals[k]
            ctx.oblige('%s/mandatory.%s' % (prefix, fld), same(f[fld], want))
        tz = f['unix_timezone']
        ctx.oblige(prefix + '/mandatory.unix_timezone', z3.BoolVal(isinstance(tz, PDict) and tz.keys() == ['minutes_west', 'dst_time']) if True else None)
        if isinstance(tz, PDict) and tz.keys() == ['minutes_west', 'dst_time']:
            ctx.oblige(prefix + '/mandatory.unix_timezone.values', z3.And(same(tz.d['minutes_west'][1], vals['utz'].d['mw'][1]),
                                                                           same(tz.d['dst_time'][1], vals['utz'].d['dt'][1])))
        ud = f['unix_date']
        sec, usec = z3.Int('raw.ud.sec'), z3.Int('raw.ud.usec')
        is_utc = lambda tz: isinstance(tz, OpaqueVal) and tz.args == ('utc',)
        if isinstance(ud, Instant):
            # exact integer arithmetic (fromtimestamp(int) + timedelta): the instant in microseconds since the epoch
            ctx.oblige(prefix + '/mandatory.unix_date.is-the-utc-instant-sec*10^6+usec', z3.And(z3.BoolVal(is_utc(ud.tz)), ud.us == sec * 1000000 + usec))
        elif isinstance(ud, OpaqueVal) and ud.kind == 'datetime' and is_utc(ud.args[1]) and isinstance(ud.args[0], OpaqueFloat):
            # a float timestamp: decided under the IEEE-754 error model (pyvc/floatmodel.py), assumed contract of fromtimestamp
            from pyvc import floatmodel
            try:
                hyp, goals = floatmodel.fromtimestamp_goals(ud.args[0], sec, usec)
            except Unsupported as ex:
                ctx.oblige(prefix + '/mandatory.unix_date.is-the-utc-instant-sec*10^6+usec', z3.BoolVal(False))
                goals = []
            for h in hyp if goals else []:
                ctx.assume(h)
            ctx.oblige(prefix + '/mandatory.unix_date.is-the-utc-instant-sec*10^6+usec', z3.And([g for _, g in goals]) if goals else z3.BoolVal(False))
        else:
            ctx.oblige(prefix + '/mandatory.unix_date.is-the-utc-instant-sec*10^6+usec', z3.BoolVal(False))
        for k, (fld, kind) in OPTIONAL.items():
            g = present[k]
            name = '%s/optional.%s' % (prefix, fld)
            if fld not in f:
                ctx.oblige(name, z3.BoolVal(False))
                continue
            got = f[fld]
            d = defaults.get(fld)
            if hasattr(d, 'fn'):
                d = PDict() if fld != 'backtrace' else PList()
            if kind == 'int':
                ctx.oblige(name, z3.And(z3.Implies(g, same(got, vals[k])), z3.Implies(z3.Not(g), same(got, d))))
            elif kind == 'str':
                ctx.oblige(name, z3.And(z3.Implies(g, same(got, atom_str(sidx(k)))), z3.Implies(z3.Not(g), same(got, d))))
            elif kind.startswith('enum'):
                ecls = sess.module(MOD).ns[kind.split(':')[1]]
                okv = isinstance(got, SOpt) and isinstance(got.val, SEnum) and got.val.cls is ecls
                ctx.oblige(name, z3.And(got.present == g, got.val.t == vals[k].t) if okv else z3.BoolVal(False))
            elif kind == 'ti':
                c = calls.get('ti', [])
                okc = len(c) == 1 and c[0][0] is vals[k]
                ctx.oblige(name, z3.BoolVal(okc and isinstance(got, SOpt) and got.val is c[0][1]) if okc else z3.BoolVal(False))
                if okc and isinstance(got, SOpt):
                    ctx.oblige(name + '.presence', got.present == g)
            elif kind == 'dm':
                c = calls.get('dm', [])
                okc = len(c) == 1 and c[0][0] is vals[k] and c[0][1] is strings
                ctx.oblige(name, z3.BoolVal(bool(okc)))
            elif kind in ('tz', 'lc', 'opaque', 'bt'):
                ctx.oblige(name, structured_field(it, got, g, vals[k], kind))
        return res
    try:
        prs = sess.explore(thunk)
    except Unsupported as ex:
        run.add(prefix + '/supported', 'unsupported', '', 0, FQ, str(ex))
        run.pending_failures.append((prefix + '/supported', 'unsupported', str(ex), None))
        return
    collect(run, tier, prs, FQ, prefix)
    run.hashes.update(sess.repo.hashes)
    run.extra['paths_main'] = len(prs)


def structured_field(it, got, g, raw, kind):
    """dict/list-valued optional fields: present -> the renamed copy of the record's entries, absent -> empty default"""
    T, F_ = z3.BoolVal(True), z3.BoolVal(False)
    zg = lambda x: T if x is True else x

    def eq(a, b):
        e = values_equal(it, a, b)
        return z3.BoolVal(e) if isinstance(e, bool) else e
    if kind == 'opaque':
        if not isinstance(got, PDict):
            return F_
        # every entry of the record's dict, present exactly when the key is; nothing else
        cs = [z3.BoolVal(set(got.keys()) <= set(raw.keys()))]
        for k in raw.keys():
            if k not in got.d:
                cs.append(z3.Not(g))
            else:
                cs.append(zg(got.d[k][0]) == g)
                cs.append(z3.Implies(g, eq(got.d[k][1], raw.d[k][1])))
        return z3.And(cs)
    if kind in ('tz', 'lc'):
        names = {'tz': [('minutes_west', 'mw'), ('dst_time', 'dt')], 'lc': [('count', 'c'), ('unknown', 's')]}[kind]
        if not isinstance(got, PDict) or not set(got.keys()) <= set(a for a, _ in names):
            return F_
        cs = []
        for a, b in names:
            if a not in got.d:
                cs.append(z3.Not(g))
                continue
            gg, v = got.d[a]
            cs.append(zg(gg) == g)
            cs.append(z3.Implies(g, eq(v, raw.d[b][1])))
        return z3.And(cs)
    if kind == 'bt':
        if isinstance(got, PList) and not got.items:
            return z3.Not(g)
        if isinstance(got, SymList) and isinstance(got.origin, tuple) and got.origin[0] == 'comp' and got.origin[1] is raw and got.origin[4] is None:
            q = z3.Int('bt.any')
            it.ctx.assume(z3.And(q >= 0, q < raw.length))
            e = got.elem(q)
            r = raw.elem(q)
            if not (isinstance(e, PDict) and e.keys() == ['image_uuid', 'image_offset']):
                return F_
            return z3.And(g, eq(e.d['image_uuid'][1], r.d['iu'][1]), eq(e.d['image_offset'][1], r.d['io'][1]))
        return F_
    return F_


def collect(run, tier, prs, fq, prefix, cex=None):
    agg = {}
    for p in prs:
        if p.outcome == 'raise':
            ob = '%s/noraise@%s:%s' % (prefix, p.exc.site[0] if p.exc.site else '?', (p.exc.kind or '').split(':')[0])
            r, m = solve.satisfiable(p.pc, 10000)
            agg[ob] = {'status': 'refuted', 'ms': 0.0, 'backend': 'z3-5.1', 'detail': '%s: %s' % (p.exc.cls_name, p.exc.msg), 'model': m}
            continue
        for ob in p.obligations:
            v = solve.prove(ob.pc, ob.goal, 30000, tier)
            cur = agg.setdefault(ob.name, {'status': 'proved', 'ms': 0.0, 'backend': v.backend})
            cur['ms'] += v.ms
            if v.status != 'proved' and cur['status'] == 'proved':
                cur.update(status='refuted' if v.status == 'refuted' else 'unknown', detail=v.detail or v.status, model=v.model)
    for ob, cur in sorted(agg.items()):
        if cur['status'] == 'proved':
            run.add(ob, 'proved', cur['backend'], cur['ms'], fq)
        else:
            run.add(ob, cur['status'], cur['backend'], cur['ms'], fq, cur.get('detail', ''))
            run.pending_failures.append((ob, cur['status'], cur.get('detail', ''), cur.get('model')))


# (namespace, type) pairs the format defines (firehose_types_private.h): the domain of "every namespace/type the format defines"
FIREHOSE_TYPES = {2: (1, 2, 3), 3: (0, 1, 2, 0x10, 0x11), 4: (0, 1, 2, 0x10, 0x11), 5: (1, 2, 3, 4),
                  6: tuple(k | sc for k in (0, 1, 2) for sc in (0, 0x40, 0x80, 0xc0))}
FIREHOSE_ANY_TYPE = (0, 7)          # unknown, loss: the type byte is not interpreted


class TraceIdPolicy(Policy):
    """the namespace and type enums are not taken on trust: their construction must succeed on every pair the format defines"""

    def raise_site(self, interp, kind, cond, exc_name, node):
        if kind.startswith('enum-value') and ('Type' in kind or 'Namespace' in kind):
            return 'fork'
        return Policy.raise_site(self, interp, kind, cond, exc_name, node)


def verify_trace_identifier(run, tier):
    sess = Session(policy=TraceIdPolicy())
    it = sess.it
    fq = MOD + ':OsLogEvent.parse_trace_identifier'
    prefix = 'C16/parse_trace_identifier'

    def thunk(ctx):
        cls = sess.module(MOD).ns['OsLogEvent']
        # the 64-bit word, declared bit by bit: every shift / mask / div / mod by a power of two is then a linear
        # term over the bits (libops.divmod_const), whatever way the code under proof slices the word
        bits = [z3.Int('ti.b%d' % i) for i in range(64)]
        for bt in bits:
            ctx.declare_range(bt, 0, 1)
        w = z3.Sum([bits[i] * (1 << i) for i in range(64)])
        ctx.facts.append(z3.Int('ti') == w)
        fld = lambda lo, n: z3.Sum([bits[lo + i] * (1 << i) for i in range(n)])
        defined = [z3.And(fld(0, 8) == ns_, z3.Or([fld(8, 8) == t_ for t_ in tys])) for ns_, tys in FIREHOSE_TYPES.items()]
        defined += [fld(0, 8) == ns_ for ns_ in FIREHOSE_ANY_TYPE]
        ctx.assume(z3.Or(defined), name='namespace/type pair defined by the format')
        res = it.call(it.lib.getattr_(it, cls, 'parse_trace_identifier'), [SInt(w)], {})
        f = res.fields
        ns, ty, code = fld(0, 8), fld(8, 8), fld(32, 32)
        val = lambda v: (v.t if isinstance(v, SEnum) else z3.IntVal(v.value) if isinstance(v, EnumVal) else zi(v))
        ctx.oblige(prefix + '/namespace', val(f['namespace']) == ns)
        ctx.oblige(prefix + '/type', val(f['type_']) == ty)
        ctx.oblige(prefix + '/code', zi(f['code']) == code)
        b = lambda x: (x.t if isinstance(x, SBool) else z3.BoolVal(bool(x)))
        ctx.oblige(prefix + '/has_current_aid', b(f['has_current_aid']) == (bits[16] == 1))
        ctx.oblige(prefix + '/pc_style', val(f['pc_style']) == fld(17, 3))
        ctx.oblige(prefix + '/has_unique_pid', b(f['has_unique_pid']) == (bits[20] == 1))
        ctx.oblige(prefix + '/has_large_offset', b(f['has_large_offset']) == (bits[21] == 1))
        nsflags = fld(24, 8)
        fg = f['flags']
        if fg is None:
            ctx.oblige(prefix + '/flags.only-namespaces-without-flags-omit-them', z3.And(ns != 4, ns != 3))
        else:
            ctx.oblige(prefix + '/flags', val(fg) == nsflags)
        return res
    try:
        prs = sess.explore(thunk)
    except Unsupported as ex:
        run.add(prefix + '/supported', 'unsupported', '', 0, fq, str(ex))
        run.pending_failures.append((prefix + '/supported', 'unsupported', str(ex), None))
        return
    collect(run, tier, prs, fq, prefix)
    run.extra['paths_trace_identifier'] = len(prs)


def verify_decomposed(run, tier):
    sess = Session(policy=Policy())
    it = sess.it
    fq = MOD + ':OsLogEvent.parse_decomposed'
    prefix = 'C16/parse_decomposed'
    calls = []

    def seg_c(it_, func, args, kwargs, node):
        r = Obj(ClassVal('Segment', None, 'plain'), {})
        calls.append((args[-2], args[-1], r))
        return r
    it.contracts[MOD + ':OsLogEvent.parse_decomposed_segment'] = seg_c

    def thunk(ctx):
        del calls[:]
        cls = sess.module(MOD).ns['OsLogEvent']
        segs = SymList('segs', z3.Int('segs.len'), lambda q: PDict([('id', SInt(q))]), origin='segs')
        ctx.facts.append(segs.length >= 0)
        pc = z3.Int('dm.pc')
        dm = PDict([('pc', SInt(pc)), ('s', SInt(z3.Int('dm.s'))), ('seg', segs)])
        strings = libattr.new_symmap('log_strings', 'atom', origin='log_strings')
        res = it.call(it.lib.getattr_(it, cls, 'parse_decomposed'), [dm, strings], {})
        ok = isinstance(res, PDict)
        ctx.oblige(prefix + '/returns-a-dict', z3.BoolVal(ok))
        if not ok:
            return res
        e1 = values_equal(it, res.d['placeholder_count'][1], SInt(pc)) if 'placeholder_count' in res.d else False
        ctx.oblige(prefix + '/placeholder-count-and-state', z3.And(z3.BoolVal(e1) if isinstance(e1, bool) else e1,
                                                                     z3.BoolVal('state' in res.d)))
        if 'segments' in res.d:
            sl = res.d['segments'][1]
            oks = isinstance(sl, SymList) and isinstance(sl.origin, tuple) and sl.origin[0] == 'comp' and sl.origin[1] is segs and sl.origin[4] is None
            ctx.oblige(prefix + '/segments-in-order-one-per-raw-segment', z3.BoolVal(bool(oks)))
            if oks:
                q = z3.Int('seg.any')
                ctx.assume(z3.And(q >= 0, q < segs.length))
                n0 = len(calls)
                e = sl.elem(q)
                okc = len(calls) == n0 + 1 and calls[-1][2] is e and calls[-1][1] is strings
                ctx.oblige(prefix + '/segment-decoded-with-the-string-index', z3.BoolVal(bool(okc)))
            # the entry may be present under a guard (an `if` whose two outcomes were merged): present only with placeholders,
            # absent only without
            g_ = res.d['segments'][0]
            gz = z3.BoolVal(True) if g_ is True else g_
            ctx.oblige(prefix + '/segments-only-with-placeholders', z3.Implies(gz, pc != 0))
            if g_ is not True:
                ctx.oblige(prefix + '/segments-omitted-only-without-placeholders', z3.Implies(z3.Not(gz), pc == 0))
        else:
            ctx.oblige(prefix + '/segments-omitted-only-without-placeholders', pc == 0)
        return res
    try:
        prs = sess.explore(thunk)
    except Unsupported as ex:
        run.add(prefix + '/supported', 'unsupported', '', 0, fq, str(ex))
        run.pending_failures.append((prefix + '/supported', 'unsupported', str(ex), None))
        return
    collect(run, tier, prs, fq, prefix)


def run_check(run, tier):
    run.pending_failures = []
    run.trusted += ['pyvc interpreter (if-merging over presence bits: one run for all 2^31 key subsets)', 'z3 5.1 / cvc5',
                    'construct declaration interpreter (Struct, Byte, BitStruct, Flag, BitsInteger, Padding, Int32ul, Int64ul.build)',
                    'firehose_tracepoint_id bit layout written from XNU libkern/firehose/firehose_types_private.h']
    run.assumptions += ['every string index a record references is present in the string index; enum-typed values are ones the format defines',
                        'datetime.fromtimestamp(int, utc) and datetime + timedelta are exact microsecond arithmetic within datetime range (assumed contract); a float date is decided under the assumed IEEE-754 error model of pyvc/floatmodel.py',
                        'in-range date: 0 <= sec <= 253402300799 (year 9999), 0 <= usec < 10^6',
                        ]
    verify_main(run, tier)
    verify_trace_identifier(run, tier)
    verify_decomposed(run, tier)
    verify_segment(run, tier)
    verify_v3_carrier(run, tier)
    finish(run)


def verify_v3_carrier(run, tier):
    """second observation point: KdBufParser.parse on a version-3 file carrying the records.  The clauses of C03 that carry a
    raw record to from_raw_log_event are discharged again here: the LOG_EVENTS / LOG_STRINGS blocks only accumulate (payload of
    that block), and every accumulated record is decoded with the string index of the whole trailer and yielded"""
    from checks import c03
    before = len(run.pending_failures)
    saved = run.pending_failures
    run.pending_failures = []
    c03.verify_chunk_loops(run, tier, wf=True, prefix='C16/parse_v3', only=('/logs.', 'blocks.step.TRACEV3_LOG', '/supported', '/noraise'))
    mine, run.pending_failures = run.pending_failures, saved
    if not mine:
        return
    out = native({'kind': 'v3_blocks_search', 'seed': run.seed, 'budget': 300}, timeout=900)
    f = out.get('found')
    for ob, status, detail in mine:
        if f:
            run.violation(ob, {'request': f['request'], 'native': f, 'solver_output': '%s (%s)' % (status, detail)}, True, what=f.get('what', ''))
        elif status == 'refuted':
            run.violation(ob, {'request': None, 'solver_output': detail}, False, what='obligation %s no longer holds' % ob)
        else:
            run.undecide(ob, 'not proved (%s)' % detail)


def finish(run):
    out = native({'kind': 'log_search', 'seed': run.seed, 'budget': 400 if run.tier == 'quick' else 5000}, timeout=600)
    run.bounded.append({'what': 'BOUNDED native stand-in: random raw log records (optional-key subsets, decomposed-message shapes, '
                                'a date grid up to year 9999) against spec/logrecord.py', 'records_tried': out.get('tried'),
                        'bound': out.get('bound'), 'found': bool(out.get('found'))})
    found = out.get('found')
    if found and not run.pending_failures:
        run.pending_failures.append(('C16/bounded-search', 'refuted', 'native search', None))
        run.add('C16/bounded-search', 'refuted', 'native bounded search', 0, FQ)
    for ob, status, detail, model in run.pending_failures:
        req = concretize(model) if model is not None else None
        out2 = native(req) if req else None
        if out2 and out2.get('violates'):
            run.violation(ob, {'request': req, 'native': out2, 'solver_output': 'obligation refuted (%s)' % detail}, True,
                          what=out2.get('what', ''))
        elif found:
            run.violation(ob, {'request': found['request'], 'native': found, 'solver_output': '%s (%s); failing record found by the native search' % (status, detail)},
                          True, what=found.get('what', ''))
        elif status == 'refuted':
            run.violation(ob, {'request': req, 'native': out2, 'solver_output': 'obligation refuted (%s)' % detail}, False, what='%s: %s' % (ob, detail))
        else:
            run.undecide(ob, 'not proved (%s) and no failing record found' % detail)


def concretize(model):
    tv = lambda t: z3.is_true(model.eval(t, model_completion=True))
    if any(str(d).startswith('seg.has.') for d in model.decls()):
        seg = {}
        if tv(z3.Bool('seg.has.lp')):
            seg['lp'] = 0
        if tv(z3.Bool('seg.has.p')):
            p = {'w': 1, 'p': 2}
            for k in ('rs', 'tn', 'ty'):
                if tv(z3.Bool('seg.has.p.' + k)):
                    p[k] = 1
            if tv(z3.Bool('seg.has.p.t')):
                p['t'] = [0, 1][:max(0, min(2, solve.model_int(model, z3.Int('seg.p.t.len'))))]
            seg['p'] = p
        if tv(z3.Bool('seg.has.a')):
            a = {}
            for k in ('a', 'p', 'c', 'sc', 'st', 'or'):
                if tv(z3.Bool('seg.has.a.' + k)):
                    a[k] = solve.model_int(model, z3.Int('seg.a.' + k)) % 4
            seg['a'] = a
        return {'kind': 'log_segment_case', 'segment': seg}
    keys = [k for k in OPTIONAL if tv(z3.Bool('has.' + k))]
    ti = solve.model_int(model, z3.Int('raw.ti'))
    names = set(str(d) for d in model.decls())
    ud = None
    if 'raw.ud.sec' in names:
        ud = {'sec': max(0, min(MAX_SEC, solve.model_int(model, z3.Int('raw.ud.sec')))), 'usec': solve.model_int(model, z3.Int('raw.ud.usec')) % 1000000}
    if not keys and 'raw.ud.sec' not in names:
        tiw = solve.model_int(model, z3.Int('ti'))
        return {'kind': 'log_case', 'keys': ['ti'], 'ti': tiw}
    return {'kind': 'log_case', 'keys': keys, 'ti': ti, 'ud': ud}


def verify_segment(run, tier):
    """parse_decomposed_segment over a segment whose optional keys carry symbolic presence bits"""
    sess = Session(policy=Policy())
    it = sess.it
    fq = MOD + ':OsLogEvent.parse_decomposed_segment'
    prefix = 'C16/parse_decomposed_segment'
    I_ = z3.IntSort()

    def thunk(ctx):
        cls = sess.module(MOD).ns['OsLogEvent']
        strings = libattr.new_symmap('log_strings', 'atom', origin='log_strings')
        g = lambda k: z3.Bool('seg.has.' + k)
        v = lambda k: SInt(z3.Int('seg.' + k))
        tok = z3.Function('seg.p.t.item', I_, I_)
        toks = SymList('seg.p.t', z3.Int('seg.p.t.len'), lambda q: SInt(tok(q)), origin='tokens')
        ctx.facts.append(toks.length >= 0)
        p = PDict()
        for k in ('rs', 'tn', 'ty'):
            p.set_entry(k, g('p.' + k), v('p.' + k))
        p.set_entry('t', g('p.t'), toks)
        p.set_entry('w', True, v('p.w'))
        p.set_entry('p', True, v('p.p'))
        a = PDict()
        for k in ('a', 'p', 'c', 'sc', 'st', 'or'):
            a.set_entry(k, g('a.' + k), v('a.' + k))
        seg = PDict()
        seg.set_entry('lp', g('lp'), v('lp'))
        seg.set_entry('p', g('p'), p)
        seg.set_entry('a', g('a'), a)
        res = it.call(it.lib.getattr_(it, cls, 'parse_decomposed_segment'), [seg, strings], {})
        ok = isinstance(res, PDict)
        ctx.oblige(prefix + '/returns-a-dict', z3.BoolVal(ok))
        if not ok:
            return res
        sidx = lambda t: atom_str(z3.Select(strings.val, t))
        T = z3.BoolVal(True)
        zg = lambda x: T if x is True else x

        def entry(d, k):
            e = d.d.get(k) if isinstance(d, PDict) else None
            return (z3.BoolVal(False), None) if e is None else (zg(e[0]), e[1])

        def same(x, y):
            e = values_equal(it, x, y)
            return z3.BoolVal(e) if isinstance(e, bool) else e
        gl, vl = entry(res, 'literal_prefix')
        ctx.oblige(prefix + '/literal_prefix', z3.And(gl == g('lp'), z3.Implies(g('lp'), same(vl, sidx(z3.Int('seg.lp'))) if vl is not None else z3.BoolVal(False))))
        gp, ph = entry(res, 'placeholder')
        ctx.oblige(prefix + '/placeholder.present-iff-key', gp == g('p'))
        if isinstance(ph, PDict):
            for rk, fk, through in (('rs', 'raw_string', True), ('tn', 'type_namespace', True), ('ty', 'type', True)):
                ge, ve = entry(ph, fk)
                ctx.oblige(prefix + '/placeholder.' + fk, z3.Implies(g('p'), z3.And(ge == g('p.' + rk), z3.Implies(g('p.' + rk),
                           same(ve, sidx(z3.Int('seg.p.' + rk))) if ve is not None else z3.BoolVal(False)))))
            for rk, fk in (('w', 'width'), ('p', 'precision')):
                ge, ve = entry(ph, fk)
                ctx.oblige(prefix + '/placeholder.' + fk, z3.Implies(g('p'), z3.And(ge, same(ve, SInt(z3.Int('seg.p.' + rk))) if ve is not None else z3.BoolVal(False))))
            ge, ve = entry(ph, 'tokens')
            okt = ve is None or (isinstance(ve, SymList) and isinstance(ve.origin, tuple) and ve.origin[0] == 'comp' and ve.origin[1] is toks and ve.origin[4] is None)
            ctx.oblige(prefix + '/placeholder.tokens', z3.And(z3.Implies(g('p'), ge == z3.And(g('p.t'), toks.length > 0)), z3.BoolVal(bool(okt))))
        ga, ar = entry(res, 'arg')
        ctx.oblige(prefix + '/arg.present-iff-key', ga == g('a'))
        if isinstance(ar, PDict):
            for rk, fk in (('a', 'availability'), ('p', 'privacy'), ('c', 'category')):
                ge, ve = entry(ar, fk)
                ctx.oblige(prefix + '/arg.' + fk, z3.Implies(g('a'), z3.And(ge == g('a.' + rk), z3.Implies(g('a.' + rk),
                           same(ve, SInt(z3.Int('seg.a.' + rk))) if ve is not None else z3.BoolVal(False)))))
            # the fields the format defines per category: scalar category / type of a scalar argument (category 1); the
            # representation of an argument that is available (availability absent or 3) - through the string index for a string
            # argument (category 2), as recorded otherwise.  "Present" is key presence: 0 and index 0 are values.
            cat = lambda n_: z3.And(g('a.c'), z3.Int('seg.a.c') == n_)
            for rk, fk in (('sc', 'scalar_category'), ('st', 'scalar_type')):
                ge, ve = entry(ar, fk)
                cond = z3.And(g('a.' + rk), cat(1))
                ctx.oblige(prefix + '/arg.' + fk, z3.Implies(g('a'), z3.And(ge == cond, z3.Implies(cond,
                           same(ve, SInt(z3.Int('seg.a.' + rk))) if ve is not None else z3.BoolVal(False)))))
            ge, ve = entry(ar, 'object_representation')
            cond = z3.And(g('a.or'), z3.Or(z3.Not(g('a.a')), z3.Int('seg.a.a') == 3))
            if ve is None:
                val_ok = z3.BoolVal(False)
            else:
                val_ok = z3.If(cat(2), same(ve, sidx(z3.Int('seg.a.or'))), same(ve, SInt(z3.Int('seg.a.or'))))
            ctx.oblige(prefix + '/arg.object_representation', z3.Implies(g('a'), z3.And(ge == cond, z3.Implies(cond, val_ok))))
        return res
    try:
        prs = sess.explore(thunk)
    except Unsupported as ex:
        run.add(prefix + '/supported', 'unsupported', '', 0, fq, str(ex))
        run.pending_failures.append((prefix + '/supported', 'unsupported', str(ex), None))
        return
    collect(run, tier, prs, fq, prefix)
    run.extra['paths_segment'] = len(prs)
