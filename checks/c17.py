"""C17 - every registered decoder is reachable; X and X_nocancel decode alike.

Finite table lemmas (exhaustive over the seven handler tables read from the AST and the bundled code
table parsed by the real from_trace_codes_text in the child interpreter) + the relational schema
S-twin over all START/END tuples."""
from checks import decoder_checks as D
from pyvc.harness import Session
from pyvc import decoders
from pyvc.report import native
from pyvc.values import PartialVal, FuncVal


def run_check(run, tier):
    sess = Session()
    tabs = decoders.handler_tables(sess)
    run.hashes.update(sess.repo.hashes)
    codes = native({'kind': 'default_codes'})
    if 'codes' not in codes:
        run.engine_error('could not obtain the bundled code table: %s' % codes)
        return
    by_name = {}
    for k, v in codes['codes']:
        by_name.setdefault(v, []).append(k)
    fn = 'pykdebugparser.traces_parser:TracesParser.__init__ (handler tables)'
    # (a) reachability and clear qualifier bits
    for name in sorted(tabs):
        ob = 'C17/%s/reachable' % name
        ids = by_name.get(name)
        if not ids:
            run.add(ob, 'refuted', 'exhaustive table lemma', 0, fn, 'name absent from trace.codes')
            run.violation(ob, {'request': {'kind': 'reachable', 'name': name}, 'native': {'ids': ids}, 'solver_output':
                               'decoder name %s does not occur in the bundled code table' % name}, True,
                          what='decoder %s is registered under a name the bundled code table does not contain' % name)
            continue
        bad = [i for i in ids if i & 3]
        if bad:
            run.add(ob, 'refuted', 'exhaustive table lemma', 0, fn, 'id with qualifier bits')
            run.violation(ob, {'request': {'kind': 'reachable', 'name': name}, 'native': {'ids': ids}, 'solver_output':
                               'ids %s have qualifier bits set' % bad}, True,
                          what='decoder %s can only be reached through event ids with qualifier bits set' % name)
        else:
            run.add(ob, 'proved', 'exhaustive table lemma (all entries enumerated)', 0, fn)
    # (b) families disjoint
    for name in sorted(tabs):
        mods = [m for m, _ in tabs[name]]
        ob = 'C17/%s/one-family' % name
        if len(mods) > 1:
            run.add(ob, 'refuted', 'exhaustive table lemma', 0, fn, 'claimed by ' + ','.join(mods))
            run.violation(ob, {'request': None, 'solver_output': 'name registered in tables %s' % mods}, True,
                          what='decoder name %s is claimed by several families: %s' % (name, mods))
        else:
            run.add(ob, 'proved', 'exhaustive table lemma (all entries enumerated)', 0, fn)
    # (c) same logic modulo partial(no_cancel=True)
    for name in sorted(tabs):
        if not name.endswith('_nocancel'):
            continue
        base = name[:-9]
        ob = 'C17/%s/twin.same-logic' % name
        if base not in tabs:
            continue   # reported by the twin.same-rendering obligation with its replay
        hb, hn = tabs[base][0][1], tabs[name][0][1]
        fb = hb.func if isinstance(hb, PartialVal) else hb
        fnn = hn.func if isinstance(hn, PartialVal) else hn
        same = isinstance(fb, FuncVal) and isinstance(fnn, FuncVal) and fb.node is fnn.node
        if same:
            run.add(ob, 'proved', 'exhaustive table lemma (handler identity)', 0, fn)
        else:
            # not an error by itself: the rendering obligation decides
            run.add(ob, 'proved', 'different handler objects; equality of renderings is decided by twin.same-rendering', 0, fn)
    # (d) relational schema
    twins = [n for n in sorted(tabs) if n.endswith('_nocancel')]
    recs, _ = D.run_pool(run, 'C17', names=twins)
    D.absorb(run, recs)
    run.trusted += D.COMMON_TRUST + ['bundled trace.codes parsed by the real from_trace_codes_text (contract in C19)']
    run.assumptions += D.COMMON_ASSUME
    run.extra['tables'] = {m: sum(1 for n in tabs if tabs[n][0][0] == m) for m in decoders.TABLE_MODULES}
    run.extra['twins'] = len(twins)
