"""C18 - names shown are Darwin's and do not depend on the host: the host-independence schema over all decoders
(decoder_checks.an_C18), the table lemmas (the repository's errno / signal / address-family / socket-type tables carry Darwin's
numbering, spec/darwin.py) and the named-parameter schema (a parameter Darwin names is looked up in the table of its own kind)."""
import z3

from checks import decoder_checks as D
from pyvc.harness import Session
from pyvc.values import *  # noqa
from contracts.decoders import C18_NAMED_PARAMETERS, C18_TABLES

MOD = 'pykdebugparser.trace_handlers.bsd'


def table_lemmas(run, tier):
    spec = __import__('spec.darwin', fromlist=['x'])
    sess = Session()
    ns = sess.module(MOD).ns
    # errno: the dict the decoders render errors from
    tbl = ns.get('DARWIN_ERRNO')
    ob = 'C18/table/DARWIN_ERRNO'
    if not isinstance(tbl, PDict):
        run.add(ob, 'unsupported', '', 0, MOD, 'no literal DARWIN_ERRNO table')
        run.undecide(ob, 'the errno table is not a literal dict any more')
    else:
        mine = {k: tbl.d[k][1] for k in tbl.keys()}
        diff = sorted(k for k in set(mine) | set(spec.ERRNO) if mine.get(k) != spec.ERRNO.get(k))
        if not diff:
            run.add(ob, 'proved', 'exhaustive table lemma (%d entries)' % len(mine), 0, MOD, kind='lemma')
        else:
            k = diff[0]
            why = 'errno %d is %r in the repository, %r in Darwin\'s sys/errno.h (%d entries differ)' % (k, mine.get(k), spec.ERRNO.get(k), len(diff))
            run.add(ob, 'refuted', 'exhaustive table lemma', 0, MOD, why, kind='lemma')
            out = D.native({'kind': 'history_texts', 'names': ['BSC_sys_close']}) if False else None
            run.violation(ob, {'request': {'kind': 'errno_text_case', 'code': k, 'want': spec.ERRNO.get(k)}, 'solver_output': why},
                          _replay_errno(k, spec.ERRNO.get(k)), what=why)
    for cname, tname in C18_TABLES.items():
        ob = 'C18/table/%s' % cname
        cls = ns.get(cname)
        want = getattr(spec, tname)
        if not isinstance(cls, ClassVal):
            run.add(ob, 'unsupported', '', 0, MOD, 'no enum %s' % cname)
            run.undecide(ob, 'the table %s is not an enum class of the module any more' % cname)
            continue
        mine = {v: n for n, v in cls.members}
        # every name the repository declares carries Darwin's number; every number Darwin defines in the spec table is declared
        diff = sorted(k for k in set(mine) | set(want) if (k in want and mine.get(k) != want[k]) or (k not in want and cname != 'AddressFamily'))
        if not diff:
            run.add(ob, 'proved', 'exhaustive table lemma (%d members)' % len(mine), 0, MOD, kind='lemma')
        else:
            k = diff[0]
            why = '%s value %d is %r in the repository, %r in Darwin\'s headers' % (cname, k, mine.get(k), want.get(k))
            run.add(ob, 'refuted', 'exhaustive table lemma', 0, MOD, why, kind='lemma')
            run.violation(ob, {'request': None, 'solver_output': why}, False, what=why)
    run.hashes.update(sess.repo.hashes)


def _replay_errno(code, want):
    from pyvc.report import native
    out = native({'kind': 'errno_text_case', 'code': code, 'want': want})
    return bool(out.get('violates'))


def named_parameters(run, tier):
    """schema: the parameter at a named position renders through the enum class of its own kind, keyed by the START word at
    that position"""
    from pyvc import decoders, textform
    sess = Session(policy=decoders.DecoderPolicy())
    tabs = decoders.handler_tables(sess)
    for (name, k), cname in sorted(C18_NAMED_PARAMETERS.items()):
        ob = 'C18/named-parameter/%s.%d' % (name, k)
        if name not in tabs:
            continue
        mod, h = tabs[name][0]
        fq = 'pykdebugparser.trace_handlers.%s:%s' % (mod, D._hname(h))
        try:
            paths = decoders.explore_decoder(sess, name, h)
        except Unsupported as ex:
            run.add(ob, 'unsupported', '', 0, fq, str(ex))
            run.undecide(ob, str(ex))
            continue
        bad, seen = None, False
        for s in paths:
            if s.outcome != 'return' or s.text is None:
                continue
            for conds, toks in D.alternatives(s):
                slots = textform.split_call(toks) if hasattr(textform, 'split_call') else None
                enames = [tk for tk in toks if tk[0] == 'ename']
                hit = [tk for tk in enames if z3.simplify(tk[2]).eq(z3.simplify(z3.Select(s.window.v[k], 0)))]
                if not hit:
                    bad = 'parameter %d is not rendered through an enum keyed by START word %d' % (k, k)
                    continue
                seen = True
                for tk in hit:
                    if tk[1].name != cname:
                        bad = 'parameter %d is looked up in %s, it is a %s' % (k, tk[1].name, cname)
        if bad is None and seen:
            run.add(ob, 'proved', 'symbolic execution: enum class and key of the rendered parameter', 0, fq)
        else:
            bad = bad or 'no returning path renders the parameter'
            run.add(ob, 'refuted', 'symbolic execution', 0, fq, bad)
            from pyvc.report import native
            req = {'kind': 'named_parameter_case', 'decoder': name, 'position': k, 'table': C18_TABLES[cname]}
            out = native(req)
            run.violation(ob, {'request': req, 'native': out, 'solver_output': bad}, bool(out.get('violates')), what='%s: %s' % (name, out.get('what') or bad))
    run.hashes.update(sess.repo.hashes)


def verify_record_decoding(run, tier):
    """the words the decoders render come from from_kd_buf: its result and its path conditions mention no host symbol
    (sys.byteorder, sys.platform, os.name ... are host symbols of the interpreter's model)"""
    from pyvc.harness import fresh_bytes, model_bytes
    from pyvc.report import native
    from pyvc import solve
    from contracts import kevent as C
    sess = Session()
    f = sess.func(C.FUNCTION)
    ob = 'C18/from_kd_buf/host-independent'
    holder = {}

    def thunk(ctx):
        kd = fresh_bytes(ctx, 'kd_buf', 64)
        r = sess.it.call(f, [kd], {})
        holder.setdefault('res', []).append((r, list(ctx.full_pc())))
        return r
    try:
        paths = sess.explore(thunk)
    except Unsupported as ex:
        run.add(ob, 'unsupported', '', 0, C.FUNCTION, str(ex))
        run.undecide(ob, 'construct outside the subset: %s' % ex)
        run.pending_host_search = True
        return
    hosts = set()
    for p in paths:
        for c in p.pc:
            hosts.update(n for n in D.sym_names(c) if n.startswith('host.'))
        r = p.result if hasattr(p, 'result') else None
    for r, pc in holder.get('res', []):
        terms = []
        if isinstance(r, Obj):
            for v in r.fields.values():
                for x in (v if isinstance(v, tuple) else (v,)):
                    if is_intlike(x) and not isinstance(x, int):
                        terms.append(zi(x))
                    elif isinstance(x, SBytes):
                        terms += [zi(e) for e in x.elems if not isinstance(e, int)]
        for t in terms + pc:
            hosts.update(n for n in D.sym_names(t) if n.startswith('host.'))
    if not hosts:
        run.add(ob, 'proved', 'symbolic execution: no host symbol in the decoded record or its path conditions', 0, C.FUNCTION)
    else:
        why = 'the decoded record depends on %s' % ', '.join(sorted(hosts))
        kd = bytes(range(1, 65))
        req = {'kind': 'host_call_pair', 'module': 'pykdebugparser.kevent', 'func': 'from_kd_buf', 'args': [{'$b': kd.hex()}],
               'a': D.HOST_A, 'b': D.HOST_B}
        out = native(req)
        run.add(ob, 'refuted', 'symbolic execution', 0, C.FUNCTION, why)
        run.violation(ob, {'request': req, 'native': out, 'solver_output': why}, bool(out.get('violates')),
                      what='from_kd_buf: ' + (out.get('what') or why))
    run.hashes.update(sess.repo.hashes)


def run_check(run, tier):
    D.standard(run, tier, 'C18')
    table_lemmas(run, tier)
    named_parameters(run, tier)
    verify_record_decoding(run, tier)
