"""C19 - code-table text maps every 'hex-id name' line; a supplied table is honoured.

(a) from_trace_codes_text is symbolically executed on a text made of an arbitrary number of lines
    `hexstr(id_j) ws name_j [rest_j]`: the dict comprehension's key and value expressions, evaluated on an arbitrary
    line j, are proved to be id_j and name_j; with the assumed semantics of a dict comprehension (insertion in
    iteration order, a later key overwrites) the result is exactly {id_j: name_j} with the last occurrence winning.
(b) the supplied table reaches the pairing machine and the listing (traces()/formatted_kevents() symbolic runs);
    no decoder may select records by a hard-coded event id (schema over all decoders); that undecodable ids
    are never decoded and decoders are chosen by the table's name are C04's obligations (parse_event_list, feed)."""
import z3

from pyvc.harness import Session
from pyvc import solve, libattr, decoders, textform
from pyvc.report import native
from pyvc.values import *  # noqa
from pyvc.interp import LazyIter, GenVal
from checks import decoder_checks as DCK

I = z3.IntSort()
LineId = z3.Function('line.id', I, I)
LineName = z3.Function('line.name', I, I)
J, K, X = z3.Ints('c19!j c19!k c19!x')


class HexTok:
    """the first whitespace-separated token of line j: a hexadecimal rendering of id_j (with or without 0x, any case)"""

    def __init__(self, j):
        self.j = j


class Tokens:
    def __init__(self, j):
        self.j = j

    def py_getitem(self, it, i, node=None):
        if i == 0:
            return HexTok(self.j)
        if i == 1:
            return atom_str(LineName(self.j))
        if isinstance(i, int) and i < 0:
            raise Unsupported('negative index into a line\'s tokens (their number is not fixed)')
        raise Unsupported('token %r of a code-table line' % (i,))

    def py_len(self, it):
        n = z3.Int(it.ctx.fresh('ntok'))
        it.ctx.assume(n >= 2)
        return mk_int(n)


class Line:
    def __init__(self, j):
        self.j = j

    def py_getattr(self, it, name, node=None):
        if name == 'split':
            def split(it_, a, k, n):
                if a or k:
                    raise Unsupported('split with arguments on a code-table line')
                return Tokens(self.j)
            return Builtin('line.split', split)
        if name == 'strip':
            return Builtin('line.strip', lambda it_, a, k, n: self)
        raise Unsupported('method %s of a code-table line' % name)


class CodeText:
    def __init__(self, n):
        self.n = n

    def py_getattr(self, it, name, node=None):
        if name == 'splitlines':
            return Builtin('text.splitlines', lambda it_, a, k, n: SymList('lines', self.n, lambda q: Line(q), origin='code-lines'))
        raise Unsupported('method %s of the code-table text' % name)


def verify_text(run, tier):
    sess = Session()
    it = sess.it
    fq = 'pykdebugparser.trace_codes:from_trace_codes_text'
    prefix = 'C19/from_trace_codes_text'
    # assumed contract of int(token, 16) on a hexadecimal rendering
    orig_int = it.builtins['int']

    def _int(it_, args, kw, n):
        if args and isinstance(args[0], HexTok):
            base = args[1] if len(args) > 1 else kw.get('base', 10)
            if base != 16:
                # int('0x..', 0) also accepts the prefixed form only; anything else is not the documented parse
                raise PyExc('ValueError', 'invalid literal for int() with base %r' % (base,), site=(getattr(n, 'lineno', None), 'int-parse'),
                            kind='int-parse')
            return SInt(LineId(args[0].j))
        return orig_int.impl(it_, args, kw, n)
    it.builtins['int'] = Builtin('int', _int)
    holder = {}

    def comp_hook(it_, node, g, src, fr, kind):
        """dict comprehension over the (mapped) lines: assumed semantics = fold with later keys overwriting"""
        base, fn = src, None
        if isinstance(src, LazyIter) and src.kind == 'map':
            base, fn = src.src, src.fn
        elif isinstance(src, SymList) and isinstance(src.origin, tuple) and src.origin[0] == 'comp' and len(src.origin) >= 4 \
                and len(src.origin[2].generators) == 1 and not src.origin[2].generators[0].ifs:
            # a generator expression / list comprehension over the lines instead of map(): same element-wise stage
            inner, inner_fr = src.origin[2], src.origin[3]
            base = src.origin[1]

            def mapped(it2, a, k, n2, inner=inner, inner_fr=inner_fr):
                f3 = Frame(parent=inner_fr)
                it2.assign(inner.generators[0].target, a[0], f3)
                return it2.eval(inner.elt, f3)
            fn = Builtin('comprehension-element', mapped)
        if not (isinstance(base, SymList) and base.origin == 'code-lines') or kind != 'dict':
            return None
        holder['comp'] = (node, g, base, fn, fr)
        m = libattr.new_symmap('result', 'atom', origin='result')
        holder['map'] = m
        return m
    it.comp_hook = comp_hook

    def thunk(ctx):
        holder.clear()
        n = z3.Int('lines.n')
        ctx.facts.append(n >= 0)
        res = it.call(sess.func(fq), [CodeText(n)], {})
        ok = 'comp' in holder and res is holder.get('map')
        ctx.oblige(prefix + '/result-is-the-comprehension-over-all-lines', z3.BoolVal(bool(ok)))
        if not ok:
            return res
        node, g, base, fn, fr = holder['comp']
        ctx.oblige(prefix + '/iterates-every-line-once-in-order', z3.And(base.length == n, z3.BoolVal(not g.ifs)))
        j = z3.Int('any.line')
        ctx.assume(z3.And(j >= 0, j < n))
        e = base.elem(j)
        if fn is not None:
            e = it.call(fn, [e], {})
        f2 = Frame(parent=fr)
        it.assign(g.target, e, f2)
        key = it.eval(node.key, f2)
        val = it.eval(node.value, f2)
        ctx.oblige(prefix + '/key-is-the-lines-id', zi(key) == LineId(j) if is_intlike(key) else z3.BoolVal(False))
        from pyvc.libops import _single_atom
        vt = _single_atom(val) if is_strlike(val) else None
        ctx.oblige(prefix + '/value-is-the-lines-name', vt == LineName(j) if vt is not None else z3.BoolVal(False))
        return res
    DCKexplore(run, tier, sess, thunk, fq, prefix)
    # lemma: the fold with overwriting yields exactly the pairs, last occurrence winning, nothing else
    dom, val = z3.Const('m.dom', z3.ArraySort(I, z3.BoolSort())), z3.Const('m.val', z3.ArraySort(I, I))
    n, last = z3.Int('n'), z3.Function('last', I, I)
    fold = [n >= 0, z3.ForAll([J], z3.Implies(z3.And(J >= 0, J < n), z3.Select(dom, LineId(J)))),
            z3.ForAll([X], z3.Implies(z3.Select(dom, X), z3.And(last(X) >= 0, last(X) < n, LineId(last(X)) == X,
                                                                 z3.Select(val, X) == LineName(last(X)),
                                                                 z3.ForAll([K], z3.Implies(z3.And(K > last(X), K < n), LineId(K) != X)))))]
    x, j = z3.Ints('sk.x sk.j')
    v = solve.prove(fold, z3.Implies(z3.And(j >= 0, j < n, z3.ForAll([K], z3.Implies(z3.And(K > j, K < n), LineId(K) != LineId(j)))),
                                     z3.And(z3.Select(dom, LineId(j)), z3.Select(val, LineId(j)) == LineName(j))), 20000, tier)
    rec(run, 'C19/lemma/last-occurrence-of-an-id-wins', v, fq)
    v = solve.prove(fold, z3.Implies(z3.Select(dom, x), z3.And(last(x) >= 0, last(x) < n, LineId(last(x)) == x)), 20000, tier)
    rec(run, 'C19/lemma/nothing-but-the-lines-ids', v, fq)
    run.hashes.update(sess.repo.hashes)


def rec(run, name, v, fq):
    if v.status == 'proved':
        run.add(name, 'proved', v.backend, v.ms, fq, kind='lemma')
    else:
        run.add(name, v.status, v.backend, v.ms, fq, v.detail, kind='lemma')
        run.pending_failures.append((name, v.status, v.detail))


def DCKexplore(run, tier, sess, thunk, fq, prefix):
    from checks import c02
    c02._explore(run, tier, sess, thunk, fq, prefix)


def verify_supplied(run, tier):
    """the caller's table is the one the pairing machine and the listing use"""
    from checks import c13
    sess = Session()
    it = sess.it
    holder = {}
    c13.install_contracts(sess, holder)
    fq = 'pykdebugparser.pykdebugparser:PyKdebugParser'
    prefix = 'C19/supplied-table'

    def thunk(ctx):
        self_, sets, cfg = c13.setup(sess, ctx)
        supplied = libattr.new_symmap('supplied', 'atom', origin='supplied')
        reader = Obj(ClassVal('Reader', None, 'plain'), {})
        res = it.call(it.lib.getattr_(it, self_, 'traces'), [reader, supplied], {})
        post, gen, evst, src = c13.split_pipeline(res)
        tp = gen.frame.vars.get('self') if gen is not None else None
        ok = isinstance(tp, Obj) and tp.fields.get('trace_codes') is supplied
        ctx.oblige(prefix + '/traces.pairing-machine-uses-the-supplied-table', z3.BoolVal(bool(ok)))
        # listing: name column from the supplied table, bare hex for an absent id
        from checks.c12 import arbitrary_kevent
        e = arbitrary_kevent(sess, ctx, 'e')
        for sw in ('show_timestamp', 'show_func_qual', 'show_tid', 'show_process', 'show_args'):
            self_.fields[sw] = False
        self_.fields['show_name'] = True
        txt = it.call(it.lib.getattr_(it, self_, '_format_kevent'), [e, supplied], {})
        eid = e.fields['eventid'].t
        alts = textform.flatten(txt)
        goals = []
        for conds, toks in alts:
            inner = [tk for tk in toks if tk[0] not in ('padopen', 'padclose')]
            cond = z3.And(conds) if conds else z3.BoolVal(True)
            if len(inner) == 1 and inner[0][0] == 'hex':
                goals.append(z3.Implies(cond, z3.And(z3.Not(z3.Select(supplied.dom, eid)), inner[0][1] == eid)))
            elif len(inner) == 4 and inner[0][0] == 'atom' and inner[1] == ('lit', ' (') and inner[2][0] == 'hex' and inner[3] == ('lit', ')'):
                goals.append(z3.Implies(cond, z3.And(z3.Select(supplied.dom, eid), inner[0][1] == z3.Select(supplied.val, eid), inner[2][1] == eid)))
            else:
                goals.append(z3.Implies(cond, z3.BoolVal(False)))
        ctx.oblige(prefix + '/listing.name-from-the-supplied-table-or-bare-hex', z3.And(goals) if goals else z3.BoolVal(False))
        return res
    DCKexplore(run, tier, sess, thunk, fq, prefix)


def an_C19(mod, name, paths, fq):
    """no decoder selects or interprets records through a hard-coded event id"""
    ob = 'C19/decoder-uses-table-names/%s.%s' % (mod, name)
    bad = None
    where = None
    for s in paths:
        terms = list(s.branch_pc)
        for t in terms:
            txt = t.sexpr()
            if 'w.eid' not in txt:
                continue
            # event ids may only be compared through the code table (select p.trace_codes...) or with each other
            if _compares_eid_with_constant(t):
                bad = str(t).replace('\n', ' ')[:120]
                where = s
    if bad is None:
        return [DCK.rec(ob, 'proved', 'symbolic execution: no path condition compares an event id with a constant', 0, fq)]
    viol = {'request': {'kind': 'codetable_vmfault'} if name == 'MACH_vmfault' else None,
            'what': '%s recognises records by a hard-coded event id instead of the supplied table: %s' % (name, bad), 'solver_output': bad}
    return [DCK.rec(ob, 'refuted', 'symbolic execution', 0, fq, bad, viol=viol)]


def _compares_eid_with_constant(t):
    seen = set()
    stack = [t]
    while stack:
        x = stack.pop()
        if x.get_id() in seen:
            continue
        seen.add(x.get_id())
        if z3.is_app(x) and x.decl().kind() in (z3.Z3_OP_LE, z3.Z3_OP_GE, z3.Z3_OP_LT, z3.Z3_OP_GT, z3.Z3_OP_EQ):
            a, b = x.arg(0), x.arg(1)
            for p, q in ((a, b), (b, a)):
                if z3.is_int_value(q) and q.as_long() > 3 and _is_eid(p):
                    return True
        if z3.is_app(x):
            stack.extend(x.children())
    return False


def _is_eid(p):
    if z3.is_select(p) and z3.is_const(p.arg(0)) and p.arg(0).decl().name() == 'w.eid':
        return True
    if z3.is_app(p) and p.decl().kind() in (z3.Z3_OP_ADD, z3.Z3_OP_MUL, z3.Z3_OP_IDIV, z3.Z3_OP_MOD):
        return any(_is_eid(c) for c in p.children())
    return False


DCK.ANALYSES['C19'] = an_C19


def verify_no_shared_state(run, tier):
    """a supplied table can only be honoured by every parser if no decoding state is shared between parser objects:
    the parser classes must not keep mutable class-level containers (frame condition on class attributes)"""
    sess = Session()
    for modname, cname in (('pykdebugparser.traces_parser', 'TracesParser'), ('pykdebugparser.pykdebugparser', 'PyKdebugParser'),
                           ('pykdebugparser.kd_buf_parser', 'KdBufParser'), ('pykdebugparser.callstacks_parser', 'CallstacksParser')):
        cls = sess.module(modname).ns[cname]
        from checks.common import class_container_escapes
        # a class-level container is shared decoding state unless it is a read-only table (never mutated, handed on or stored)
        bad = [k for k, v in cls.attrs.items() if (isinstance(v, (PDict, PList)) or type(v).__name__ in ('SymMapM',)) and class_container_escapes(cls, k)]
        ob = 'C19/no-state-shared-between-parsers/%s' % cname
        fq = '%s:%s' % (modname, cname)
        if not bad:
            run.add(ob, 'proved', 'class declaration: no mutable class-level container', 0, fq)
        else:
            out = native({'kind': 'supplied_table_case'})
            run.add(ob, 'refuted', 'class declaration', 0, fq, 'class-level mutable state: %s' % bad)
            run.violation(ob, {'request': {'kind': 'supplied_table_case'}, 'native': out, 'solver_output': 'class-level containers %s' % bad},
                          bool(out.get('violates')), what='%s keeps decoding state in class-level containers %s shared by all parser objects' % (cname, bad))
    run.hashes.update(sess.repo.hashes)


def run_check(run, tier):
    run.pending_failures = []
    run.trusted += ['pyvc interpreter', 'z3 5.1',
                    'assumed contracts: str.splitlines / str.split on lines of the stated shape, int(hex token, 16), dict comprehension = fold with overwrite',
                    'C04 obligations parse_event_list/* and feed/table-by-domain (proved with an arbitrary symbolic table)']
    run.assumptions += ['lines have the shape `hex-id name [anything]` (the quantifier of the property)',
                        'most of clause (a) lives in the string axioms above; CrossHair is not used']
    verify_text(run, tier)
    verify_supplied(run, tier)
    verify_no_shared_state(run, tier)
    out = native({'kind': 'supplied_table_case'})
    run.bounded.append({'what': 'native scenario: the same stream decoded by two parser objects under two different supplied tables', 'found': bool(out.get('violates'))})
    if out.get('violates'):
        run.add('C19/bounded/two-tables-two-parsers', 'refuted', 'native scenario', 0, 'pykdebugparser.traces_parser:TracesParser')
        run.violation('C19/bounded/two-tables-two-parsers', {'request': {'kind': 'supplied_table_case'}, 'native': out, 'solver_output': 'native scenario'}, True, what=out.get('what', ''))
    recs, _ = DCK.run_pool(run, 'C19')
    DCK.absorb(run, recs)
    for ob, status, detail in run.pending_failures:
        out = native({'kind': 'codes_search', 'seed': run.seed, 'budget': 300})
        if out.get('found'):
            run.violation(ob, {'request': out['found']['request'], 'native': out['found'], 'solver_output': '%s (%s)' % (status, detail)}, True,
                          what=out['found'].get('what', ''))
        elif status == 'refuted':
            run.violation(ob, {'request': None, 'solver_output': 'obligation refuted (%s)' % detail}, False, what='obligation %s no longer holds' % ob)
        else:
            run.undecide(ob, 'not proved (%s)' % detail)
    if tier == 'thorough':
        out = native({'kind': 'codes_search', 'seed': run.seed, 'budget': 3000})
        run.bounded.append({'what': 'bounded native search of code-table texts against the specification', 'tried': out.get('tried'),
                            'found': bool(out.get('found'))})
        if out.get('found'):
            run.add('C19/bounded-search', 'refuted', 'native bounded search', 0, 'pykdebugparser.trace_codes:from_trace_codes_text')
            run.violation('C19/bounded-search', {'request': out['found']['request'], 'native': out['found'], 'solver_output': 'native search'}, True,
                          what=out['found'].get('what', ''))
