"""C20 - composite traces reflect exactly the records nested in their window.

The three composite decoders are symbolically executed over an arbitrary window; their postconditions
(spec/composite.py is the statement) are obligations over the window's filter terms: a comprehension
over the window is the ordered list of the elements satisfying its condition (assumed Python semantics),
so "first nested record" / "every nested record" become (i) equivalence of the code's condition with
the specification's on an arbitrary event, and (ii) the source list / index the result is taken from."""
import re
import z3

from pyvc.harness import Session
from pyvc import decoders, solve, textform
from pyvc.report import native
from pyvc.values import *  # noqa
from pyvc.libops import and_const, values_equal
from checks.decoder_checks import window_refs, sym_names

FQ = {'MACH_vmfault': 'pykdebugparser.trace_handlers.mach:handle_mach_vmfault',
      'DBG_DYLD_TIMING_LAUNCH_EXECUTABLE': 'pykdebugparser.trace_handlers.dyld:handle_timing_launch_executable',
      'PERF_Event': 'pykdebugparser.trace_handlers.perf:handle_event'}


def fresh_event(it, ctx, w, tag):
    """an arbitrary event (not tied to a window position)"""
    i = z3.Int(tag + '.idx')
    return w.make_event(i)


def comp_pred(it, ctx, comp, ev):
    """condition of a recorded comprehension on event ev (z3 Bool)"""
    _, src, node, fr, pos = comp.origin
    g = node.generators[0]
    f2 = Frame(parent=fr)
    it.assign(g.target, ev, f2)
    cs = []
    for c in g.ifs:
        t = it.truth(it.eval(c, f2), c)
        cs.append(z3.BoolVal(t) if isinstance(t, bool) else t)
    return z3.And(cs) if cs else z3.BoolVal(True)


def name_is(p, ev, name):
    tc = p.fields['trace_codes']
    eid = ev.fields['eventid'].t
    return z3.And(z3.Select(tc.dom, eid), z3.Select(tc.val, eid) == intern_str(name))


def base_list(lst):
    """strip slices: (base list, description)"""
    o = lst.origin
    if isinstance(o, tuple) and o[0] == 'slice':
        return o[1], (o[2], o[3])
    return lst, None


def B(x):
    return z3.BoolVal(bool(x))


# ------------------------------------------------------------------------------------------- vmfault
def post_vmfault(sess):
    it = sess.it

    def post(ctx, w, p, result):
        f = result.fields
        last = z3.simplify(w.length - 1)
        endv = [z3.Select(w.v[j], last) for j in range(4)]
        ctx.oblige('C20/vmfault/result.from-END', zi(f['result']) == endv[2] if is_intlike(f['result']) else B(False))
        ft = f['fault_type']
        if ft is None:
            ctx.oblige('C20/vmfault/fault_type.from-END', endv[2] != 0)
        elif isinstance(ft, (SEnum, EnumVal)):
            t = ft.t if isinstance(ft, SEnum) else z3.IntVal(ft.value)
            ctx.oblige('C20/vmfault/fault_type.from-END', z3.And(t == endv[3], endv[2] == 0))
        else:
            ctx.oblige('C20/vmfault/fault_type.from-END', B(False))
        comps = ctx.notes.get('comps', [])
        pels = ctx.notes.get('pel', [])
        pid, prot = f['pid'], f['caller_prot']
        has = pid is not None
        # which list is searched, with which condition
        if comps:
            c = comps[0]
            src, sl = base_list(c.origin[1])
            ctx.oblige('C20/vmfault/nested.searched-inside-window', B(src is w.events and sl == (1, -1)))
            ev = fresh_event(it, ctx, w, 'any')
            P = comp_pred(it, ctx, c, ev)
            eid = ev.fields['eventid'].t
            tc = p.fields['trace_codes']
            named = z3.And(z3.Select(tc.dom, eid), z3.Function('str.startswith.RealFaultAddress', z3.IntSort(), z3.BoolSort())(z3.Select(tc.val, eid)))
            ctx.oblige('C20/vmfault/nested.condition', P == named)
        if has:
            ok = bool(comps)
            detail = ''
            if ok and not type(pid).__name__ == 'OpaqueVal':
                first = z3.simplify(1 + comps[0].origin[4](z3.IntVal(0))).sexpr()
                for v in (pid, prot):
                    for t in textform.value_terms(v):
                        for arr, idx in window_refs(t):
                            if idx != first:
                                ok = False
            ctx.oblige('C20/vmfault/pid-prot.from-first-nested', B(ok))
            # shown only when result == 0, a nested record exists and its kind has a decoder
            if pels and comps:
                ctx.oblige('C20/vmfault/pid-prot.only-when-decodable',
                           z3.And(endv[2] == 0, comps[0].length > 0, pels[0]['present'], pels[0]['known']))
            else:
                ctx.oblige('C20/vmfault/pid-prot.only-when-decodable', B(False))
        else:
            ctx.oblige('C20/vmfault/pid-prot.consistent', B(prot is None))
            # omitted only when there is nothing decodable to take them from
            if comps and pels:
                exp = z3.And(endv[2] == 0, comps[0].length > 0, pels[0]['present'], pels[0]['known'])
            elif comps:
                exp = z3.And(endv[2] == 0, comps[0].length > 0, B(False))
            else:
                exp = z3.And(endv[2] == 0, B(False)) if True else None
                # window never searched although result == 0 would require it
                exp = endv[2] == 0
            ctx.oblige('C20/vmfault/pid-prot.omitted-only-when-absent', z3.Not(exp))
    return post


# ------------------------------------------------------------------------------------------- launch
def post_launch(sess):
    it = sess.it

    def post(ctx, w, p, result):
        lst = result.fields.get('uuid_map_a')
        o = getattr(lst, 'origin', None)
        ok_sorted = isinstance(o, tuple) and o[0] == 'sorted'
        ctx.oblige('C20/launch/sorted', B(ok_sorted and not o[3]))
        if not ok_sorted:
            return
        key = o[2]
        dy = it.repo.import_module('pykdebugparser.trace_handlers.dyld')
        x = z3.Int('probe.load_addr')
        probe = Obj(dy.ns['DyldUuidMapA'], {'ktraces': PList(), 'uuid': None, 'load_addr': SInt(x), 'fsid': SInt(z3.Int('probe.fsid'))})
        if key is None:
            ctx.oblige('C20/launch/sorted.by-load-address', B(False))
        else:
            kv = it.call(key, [probe], {})
            ctx.oblige('C20/launch/sorted.by-load-address', zi(kv) == x if is_intlike(kv) else B(False))
        src = o[1]
        so = getattr(src, 'origin', None)
        parts = []
        if isinstance(so, tuple) and so[0] == 'concat':
            parts = [so[1], so[2]]
        elif isinstance(so, tuple) and so[0] == 'comp':
            parts = [src]
        want = ['DYLD_uuid_map_a', 'DYLD_uuid_shared_cache_a']
        handlers = dy.ns['handlers']
        for nm in want:
            found = False
            for c in parts:
                co = getattr(c, 'origin', None)
                if not (isinstance(co, tuple) and co[0] == 'comp'):
                    continue
                ev = fresh_event(it, ctx, w, 'any.' + nm)
                P = comp_pred(it, ctx, c, ev)
                S = name_is(p, ev, nm)
                r, _ = solve.satisfiable(ctx.full_pc() + [z3.Not(P == S)], 3000)
                if r != z3.unsat:
                    continue
                found = True
                ctx.oblige('C20/launch/lists-every.%s' % nm, B(co[1] is w.events))
                # element = the record's own decoding
                _, _, node, fr, pos = co
                f2 = Frame(parent=fr)
                it.assign(node.generators[0].target, ev, f2)
                got = it.eval(node.elt, f2)
                ref = it.call(handlers.d[nm][1], [p, PList([ev])], {})
                same = isinstance(got, Obj) and isinstance(ref, Obj) and got.cls is ref.cls
                if same:
                    eqs = []
                    for fn, _d in got.cls.fields:
                        if fn in ('ktraces', 'uuid'):
                            continue
                        e = values_equal(it, got.fields[fn], ref.fields[fn])
                        eqs.append(B(e) if isinstance(e, bool) else e)
                    ctx.oblige('C20/launch/element-decoding.%s' % nm, z3.And(eqs) if eqs else B(True))
                else:
                    ctx.oblige('C20/launch/element-decoding.%s' % nm, B(False))
            if not found:
                ctx.oblige('C20/launch/lists-every.%s' % nm, B(False))
        ctx.oblige('C20/launch/nothing-else-listed', B(len(parts) == 2))
    return post


# ------------------------------------------------------------------------------------------- sampler
def post_sampler(sess):
    it = sess.it

    def find_comp(ctx, w, p, name):
        for c in ctx.notes.get('comps', []):
            ev = fresh_event(it, ctx, w, 'any.' + name)
            P = comp_pred(it, ctx, c, ev)
            r, _ = solve.satisfiable(ctx.full_pc() + [z3.Not(P == name_is(p, ev, name))], 3000)
            if r == z3.unsat and c.origin[1] is w.events:
                return c
        return None

    def post(ctx, w, p, result):
        f = result.fields
        v0 = z3.Select(w.v[0], 0)
        th_bit = and_const(v0, 0x01) != 0
        us_bit = and_const(v0, 0x08) != 0
        thd = find_comp(ctx, w, p, 'PERF_THD_Data')
        hdr = find_comp(ctx, w, p, 'PERF_STK_UHdr')
        dat = find_comp(ctx, w, p, 'PERF_STK_UData')
        has_th = f.get('th_info') is not None
        has_cs = f.get('cs_frames') is not None
        exp_th = z3.And(th_bit, thd.length > 0) if thd is not None else None
        exp_cs = z3.And(us_bit, hdr.length > 0) if hdr is not None else None
        # th_info exactly when requested and present
        if has_th:
            ctx.oblige('C20/sampler/th_info.iff', exp_th if exp_th is not None else B(False))
        else:
            ctx.oblige('C20/sampler/th_info.iff', z3.Not(exp_th) if exp_th is not None else z3.Not(th_bit))
        if has_cs:
            ctx.oblige('C20/sampler/user-stack.iff', exp_cs if exp_cs is not None else B(False))
            ctx.oblige('C20/sampler/user-stack.flags-with-frames', B(f.get('cs_flags') is not None))
            # frames = first nframes words of the UData records, in stream order
            fr_ = f['cs_frames']
            o = getattr(fr_, 'origin', None)
            ok = isinstance(o, tuple) and o[0] == 'slice' and o[2] is None
            if ok:
                flat = o[1]
                fo = getattr(flat, 'origin', None)
                ok = isinstance(fo, tuple) and fo[0] == 'flatten' and dat is not None and fo[1] is dat
                hi = o[3]
                first_hdr = z3.simplify(hdr.origin[4](z3.IntVal(0))) if hdr is not None else None
                ok = ok and first_hdr is not None and is_intlike(hi) and zi(hi).eq(z3.Select(w.v[1], first_hdr))
            ctx.oblige('C20/sampler/user-stack.frames', B(ok))
            if dat is not None:
                ev = fresh_event(it, ctx, w, 'any.udata')
                _, _, node, frm, pos = dat.origin
                f2 = Frame(parent=frm)
                it.assign(node.generators[0].target, ev, f2)
                got = it.eval(node.elt, f2)
                okw = isinstance(got, PList) and got.is_concrete() and len(got.items) == 4 and all(
                    is_intlike(x) and zi(x).eq(zi(ev.fields['values'][i])) for i, x in enumerate(got.values()))
                ctx.oblige('C20/sampler/user-stack.words-of-record', B(okw))
        else:
            ctx.oblige('C20/sampler/user-stack.iff', z3.Not(exp_cs) if exp_cs is not None else z3.Not(us_bit))
            ctx.oblige('C20/sampler/user-stack.flags-with-frames', B(f.get('cs_flags') is None))
    return post


POSTS = {'MACH_vmfault': post_vmfault, 'DBG_DYLD_TIMING_LAUNCH_EXECUTABLE': post_launch, 'PERF_Event': post_sampler}


def verify_fault_records(run, tier, sess, tabs):
    """the nested records a page-fault trace takes its pid and protection from: their own decoding against the kernel's
    argument layout (XNU vm_fault: real address, (user_tag << 16) | (caller_prot << 8) | type, page offset, unique pid)"""
    for name in sorted(n for n in tabs if n.startswith('RealFaultAddress')):
        mod, h = tabs[name][0]
        fq = 'pykdebugparser.trace_handlers.%s:handle_real_fault_address[%s]' % (mod, name)
        try:
            paths = decoders.explore_decoder(sess, name, h, render=False)
        except Unsupported as ex:
            run.add('C20/%s/supported' % name, 'unsupported', '', 0, fq, str(ex))
            run.undecide('C20/%s/supported' % name, str(ex))
            continue
        agg = {}
        for s in paths:
            if s.outcome != "return" or not isinstance(s.result, Obj):
                continue
            f = s.result.fields
            w = s.window
            v = [z3.Select(w.v[j], 0) for j in range(4)]
            want = {'vaddr': v[0], 'pid': v[3], 'offset': v[2], 'user_tag': v[1] / 65536}
            for fld, t in want.items():
                got = f.get(fld)
                goal = (zi(got) == t) if is_intlike(got) else B(False)
                vv = solve.prove(list(s.pc), goal, 10000, tier)
                cur = agg.setdefault('C20/%s/field.%s' % (name, fld), {'status': 'proved', 'ms': 0.0, 'backend': vv.backend, 's': s})
                cur['ms'] += vv.ms
                if vv.status != 'proved' and cur['status'] == 'proved':
                    cur.update(status='refuted' if vv.status == 'refuted' else 'unknown', detail=vv.detail, s=s)
        if not agg:
            run.engine_error('C20 %s: no returning path' % name)
        for ob, cur in sorted(agg.items()):
            if cur['status'] == 'proved':
                run.add(ob, 'proved', cur['backend'], cur['ms'], fq)
            elif cur['status'] == 'refuted':
                run.add(ob, 'refuted', cur['backend'], cur['ms'], fq)
                req = {'kind': 'fault_record_case', 'name': name}
                out = native(req)
                run.violation(ob, {'request': req, 'native': out, 'solver_output': 'sat'}, bool(out.get('violates')),
                              what=out.get('what') or '%s does not take the field from the kernel\'s argument' % ob)
            else:
                run.add(ob, 'unknown', cur['backend'], cur['ms'], fq, cur.get('detail', ''))
                run.undecide(ob, cur.get('detail', ''))


def run_check(run, tier):
    sess = Session(policy=decoders.DecoderPolicy())
    tabs = decoders.handler_tables(sess)
    run.trusted += ['pyvc interpreter', 'z3 5.1', 'window shape: pairing operation contracts of C04, re-discharged here',
                    'spec/composite.py (statement of the property; oracle of the native replays)']
    run.assumptions += ['a list comprehension over the window is the ordered list of exactly the elements satisfying its '
                        'condition; sorted(key=) is a stable ascending sort; chain.from_iterable concatenates in order',
                        'a nested record in the real-fault id range whose name has a decoder outside the fault-address '
                        'family is not followed (foreign object; attribute reads assumed to succeed)']
    verify_fault_records(run, tier, sess, tabs)
    for name, mk in POSTS.items():
        fq = FQ[name]
        try:
            paths = decoders.explore_decoder(sess, name, tabs[name][0][1], post=mk(sess))
        except Unsupported as ex:
            run.add('C20/%s/supported' % name, 'unsupported', '', 0, fq, str(ex))
            run.undecide('C20/%s/supported' % name, str(ex))
            bounded_refute(run, name)
            continue
        agg = {}
        npaths = 0
        for s in paths:
            if s.outcome != 'return':
                continue      # raising paths are C07's obligations
            npaths += 1
            for ob in s.obligations:
                v = solve.prove(ob.pc, ob.goal, 20000, tier)
                cur = agg.setdefault(ob.name, {'status': 'proved', 'ms': 0.0, 'backend': v.backend, 'n': 0})
                cur['ms'] += v.ms
                cur['n'] += 1
                if v.status == 'refuted' and cur['status'] != 'refuted':
                    cur.update(status='refuted', path=s, goal=ob.goal)
                elif v.status not in ('proved', 'refuted') and cur['status'] == 'proved':
                    cur.update(status='unknown', detail=v.detail)
        if npaths == 0:
            run.engine_error('C20 %s: no returning path' % name)
        any_bad = False
        for ob, cur in sorted(agg.items()):
            if cur['status'] == 'proved':
                run.add(ob, 'proved', cur['backend'] + ' (%d paths)' % cur['n'], cur['ms'], fq)
            elif cur['status'] == 'refuted':
                any_bad = True
                run.add(ob, 'refuted', cur['backend'], cur['ms'], fq)
                hit = bounded_refute(run, name, report=False)
                if hit:
                    run.violation(ob, {'request': hit['request'], 'native': hit['native'], 'solver_output': 'obligation refuted on a path of the symbolic run'},
                                  True, what='%s: %s' % (name, hit['what']))
                else:
                    run.violation(ob, {'request': None, 'solver_output': 'obligation refuted on a path of the symbolic run; '
                                       'bounded native search (see coverage.bounded_standins) found no failing window'}, False,
                                  what='%s violates %s' % (name, ob))
            else:
                run.add(ob, 'unknown', cur['backend'], cur['ms'], fq, cur.get('detail', ''))
                run.undecide(ob, cur.get('detail', ''))
    run.hashes.update(sess.repo.hashes)
    # "exactly the records nested in their window": the window handed to a composite decoder is the one the pairing
    # operations build - their contracts (C04) are discharged again here, for windows of any length
    from checks import c04
    run.pending_failures = []
    for which in ('start', 'end', 'single'):
        c04.verify_op(run, tier, Session(), which, prefix_root='C20')
    c04.finish_failures(run, 'C20')
    if tier == 'thorough':
        for name in POSTS:
            bounded_refute(run, name, report=True, budget=4000)


def bounded_refute(run, name, report=True, budget=600):
    """refute mode (never counted as proof): native small-scope search of windows against spec/composite.py"""
    out = native({'kind': 'composite_search', 'name': name, 'budget': budget, 'seed': run.seed}, timeout=300)
    run.bounded.append({'what': 'bounded native search against spec/composite.py', 'decoder': name,
                        'windows_tried': out.get('tried'), 'bound': out.get('bound'), 'found': bool(out.get('found'))})
    if out.get('found'):
        hit = {'request': out['found']['request'], 'native': out['found'], 'what': out['found']['what']}
        if report:
            ob = 'C20/%s/bounded-search' % name
            run.add(ob, 'refuted', 'native bounded search', 0, FQ[name])
            run.violation(ob, {'request': hit['request'], 'native': hit['native'], 'solver_output': 'native search'}, True,
                          what='%s: %s' % (name, hit['what']))
        return hit
    return None
