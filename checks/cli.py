"""Command-line wiring (pykdebugparser/__main__.py): every listing command hands its options to the parser object unchanged
and prints exactly the parser's listing for that command, limited by --count (print_with_count itself is proved in C06)."""
import z3

from pyvc.harness import Session
from pyvc.values import *  # noqa

MAIN = 'pykdebugparser.__main__'
PK = 'pykdebugparser.pykdebugparser:PyKdebugParser.'
COMMANDS = {           # command -> (listing method, options that must reach the parser as attribute -> parameter)
    'kevents': ('formatted_kevents', {'filter_class': 'class_filters', 'filter_subclass': 'subclass_filters', 'filter_tid': 'tid', 'show_tid': 'show_tid'}),
    'traces': ('formatted_traces', {'filter_class': 'class_filters', 'filter_subclass': 'subclass_filters', 'filter_tid': 'tid', 'filter_process': 'process',
                                    'show_tid': 'show_tid', 'color': 'color'}),
    'callstacks': ('formatted_callstacks', {'filter_tid': 'tid', 'filter_process': 'process', 'show_tid': 'show_tid'}),
    'logs': ('formatted_logs', {'filter_tid': 'tid', 'filter_process': 'process', 'show_tid': 'show_tid'}),
}
ALL_LISTINGS = ('kevents', 'formatted_kevents', 'traces', 'formatted_traces', 'callstacks', 'formatted_callstacks', 'os_log_events', 'formatted_logs')


def _same_option(attr_val, arg_val):
    """the attribute is the option value itself, or a list copy of a tuple-valued multiple option"""
    if attr_val is arg_val:
        return True
    if isinstance(attr_val, PList) and isinstance(arg_val, (tuple, PList)):
        a = attr_val.values() if attr_val.is_concrete() else None
        b = list(arg_val) if isinstance(arg_val, tuple) else (arg_val.values() if arg_val.is_concrete() else None)
        return a is not None and b is not None and len(a) == len(b) and all(x is y for x, y in zip(a, b))
    return False


def verify_cli(run, tier, root):
    sess = Session()
    it = sess.it
    try:
        mod = sess.module(MAIN)
    except Unsupported as ex:
        run.add('%s/cli/supported' % root, 'unsupported', '', 0, MAIN, str(ex))
        run.undecide('%s/cli/supported' % root, str(ex))
        return
    for cmd, (meth, options) in COMMANDS.items():
        fq = '%s:%s' % (MAIN, cmd)
        prefix = '%s/cli/%s' % (root, cmd)
        rec = {'listing': [], 'printed': []}

        def listing_contract(name):
            def c(it_, func, args, kwargs, node):
                marker = Obj(ClassVal('Listing', None, 'plain'), {})
                rec['listing'].append((name, args[0], tuple(args[1:]), dict(kwargs), marker))
                return marker
            return c
        for m in ALL_LISTINGS:
            it.contracts[PK + m] = listing_contract(m)
        it.contracts[MAIN + ':print_with_count'] = lambda it_, func, args, kwargs, node: rec['printed'].append((tuple(args), dict(kwargs)))
        results = []

        def thunk(ctx, cmd=cmd, options=options, meth=meth):
            rec['listing'], rec['printed'] = [], []
            f = mod.ns.get(cmd)
            if not isinstance(f, FuncVal):
                raise Unsupported('command %s is not a plain function' % cmd)
            dump = Obj(ClassVal('DumpFile', None, 'plain'), {})
            params = [a.arg for a in f.node.args.args]
            vals = {'kdebug_dump': dump, 'count': SInt(z3.Int('opt.count')), 'tid': SOpt(z3.Bool('opt.tid.set'), SInt(z3.Int('opt.tid'))),
                    'process': SOpt(z3.Bool('opt.process.set'), atom_str(z3.Int('opt.process'))), 'show_tid': SBool(z3.Bool('opt.show_tid')),
                    'color': SBool(z3.Bool('opt.color')),
                    'class_filters': (SInt(z3.Int('opt.cf0')), SInt(z3.Int('opt.cf1'))), 'subclass_filters': (SInt(z3.Int('opt.sf0')),)}
            missing = [p for p in params if p not in vals]
            if missing:
                raise Unsupported('command %s has unknown parameters %s' % (cmd, missing))
            it.call(f, [], {p: vals[p] for p in params})
            ok_print = len(rec['printed']) == 1 and len(rec['listing']) == 1
            reached, wrong = False, []
            if ok_print:
                (pargs, pkw), (lname, parser, largs, lkw, marker) = rec['printed'][0], rec['listing'][0]
                ok_print = (len(pargs) == 2 and not pkw and pargs[0] is marker and pargs[1] is vals['count'] and lname == meth
                            and len(largs) == 1 and largs[0] is dump and not lkw)
                for attr, par in options.items():
                    if not _same_option(parser.fields.get(attr), vals[par]):
                        wrong.append('%s <- --%s' % (attr, par))
                reached = True
            results.append((ok_print, reached, wrong))
            return None
        try:
            sess.explore(thunk)
        except Unsupported as ex:
            run.add(prefix + '.supported', 'unsupported', '', 0, fq, str(ex))
            run.pending_cli.append((prefix + '.supported', 'unsupported', str(ex)))
            continue
        ob1 = prefix + '.prints-the-commands-listing-limited-by-count'
        ob2 = prefix + '.options-reach-the-parser-unchanged'
        if results and all(r[0] for r in results):
            run.add(ob1, 'proved', 'symbolic execution of the command', 0, fq)
        else:
            run.add(ob1, 'refuted', 'symbolic execution of the command', 0, fq, 'the command does not print print_with_count(parser.%s(dump), count)' % meth)
            run.pending_cli.append((ob1, 'refuted', 'the command does not print print_with_count(parser.%s(dump), count)' % meth))
        bad = sorted(set(w for r in results for w in r[2]))
        if results and all(r[1] for r in results) and not bad:
            run.add(ob2, 'proved', 'symbolic execution of the command', 0, fq)
        else:
            why = 'options that do not reach the parser unchanged: %s' % (bad or 'listing not reached')
            run.add(ob2, 'refuted', 'symbolic execution of the command', 0, fq, why)
            run.pending_cli.append((ob2, 'refuted', why))
    run.hashes.update(sess.repo.hashes)
