"""Frame obligations shared by every check (DESIGN 3.6): the per-function analyses of all twenty properties start from fresh
objects and from the repository's import state; these obligations are what justifies that.

  <id>/frame/<Class>.__init__.instances-share-no-state      a new parser object holds no container that is module-level state
                                                             or a shared default argument
  <id>/frame/<method>.request-leaves-the-parser-object-as-it-was
                                                             a listing request rewrites no attribute of the PyKdebugParser object
                                                             (its machines - KdBufParser, TracesParser, CallstacksParser - are
                                                             created in the call and are not kept)
A failing clause is replayed by the native API-history search (pyvc/native_history.py)."""
import z3

from pyvc.harness import Session
from pyvc.report import native
from pyvc import libattr
from pyvc.values import *  # noqa
from pyvc.values import GLOBAL_OBJS
from pyvc.interp import GenVal, LazyIter

LISTINGS = ('kevents', 'formatted_kevents', 'traces', 'formatted_traces', 'callstacks', 'formatted_callstacks', 'os_log_events', 'formatted_logs')


MUTATORS = ('append', 'extend', 'insert', 'pop', 'remove', 'clear', 'update', 'setdefault', 'popitem', 'sort', 'reverse', 'add', 'discard')


def class_container_escapes(cls, name):
    """is the class-level container `name` more than a read-only table?  True if some method of the class mutates it through
    self/cls, hands it to a call, stores or returns it (then another holder may mutate it); lookups, `in`, `.get`, `.items`
    and iteration leave it a constant.  Without the class's AST the answer is True."""
    import ast
    node = getattr(cls, 'node', None)
    if node is None:
        return True

    def is_ref(n):
        return isinstance(n, ast.Attribute) and n.attr == name and isinstance(n.value, ast.Name)
    parents = {}
    for n in ast.walk(node):
        for c in ast.iter_child_nodes(n):
            parents[id(c)] = n
    for n in ast.walk(node):
        if not is_ref(n):
            continue
        par = parents.get(id(n))
        if isinstance(n.ctx, (ast.Store, ast.Del)):
            continue                                    # rebinding the attribute itself (an instance attribute from then on)
        if isinstance(par, ast.Subscript) and par.value is n:
            if isinstance(par.ctx, (ast.Store, ast.Del)):
                return True
            gp = parents.get(id(par))
            if isinstance(gp, ast.AugAssign) and gp.target is par:
                return True
            continue                                    # a lookup
        if isinstance(par, ast.Attribute) and par.value is n:
            gp = parents.get(id(par))
            if isinstance(gp, ast.Call) and gp.func is par and par.attr in MUTATORS:
                return True
            continue                                    # .get / .items / .keys ...
        if isinstance(par, ast.Compare) or isinstance(par, (ast.For, ast.comprehension)):
            continue
        return True                                     # argument of a call, right-hand side, return value, ...
    return False


def shared_parts(obj, depth=0):
    """what a new object shares: attributes (one level of nesting) that are registered module-level / default-argument
    objects, mutable containers declared at class level and not re-created by the constructor, and two attributes that are
    one and the same mutable object"""
    out = []
    fields = getattr(obj, 'fields', {})
    for k, v in list(fields.items()):
        if id(v) in GLOBAL_OBJS:
            out.append('%s (%s)' % (k, GLOBAL_OBJS[id(v)][0]))
        elif depth == 0 and isinstance(v, Obj):
            out += ['%s.%s' % (k, x) for x in shared_parts(v, 1)]
    if depth == 0:
        cls = getattr(obj, 'cls', None)
        seen = set()
        while cls is not None:
            for a, av in list(getattr(cls, 'attrs', {}).items()):
                if a in seen or a in fields:
                    continue
                seen.add(a)
                if isinstance(av, (PDict, PList, SymMap, SymList)) and class_container_escapes(cls, a):
                    out.append('%s (mutable container declared at class level, never re-created per instance)' % a)
            bases = getattr(cls, 'bases', None) or []
            cls = bases[0] if bases and isinstance(bases[0], ClassVal) else None
        names = sorted(k for k, v in fields.items() if isinstance(v, (PDict, PList, SymList)))
        for i, a in enumerate(names):
            for b in names[i + 1:]:
                if fields[a] is fields[b]:
                    out.append('%s and %s are one and the same object' % (a, b))
    return out


def _machines(v, acc):
    while isinstance(v, (LazyIter, GenVal)):
        if isinstance(v, LazyIter):
            v = v.src
        else:
            s = v.frame.vars.get('self')
            if s is not None:
                acc.append(s)
            nxt = [x for x in v.frame.vars.values() if isinstance(x, (LazyIter, GenVal))]
            v = nxt[0] if nxt else None
    return acc


def _same(a, b):
    if a is b:
        return True
    simple = (int, str, bool, float, bytes, type(None))
    return isinstance(a, simple) and isinstance(b, simple) and type(a) is type(b) and a == b


NO_WIRING = ('C01', 'C02', 'C03', 'C04', 'C12', 'C16')      # C04 proves these clauses itself; the others do not go through TracesParser


def run_wiring(run, tier):
    """every property observed through TracesParser relies on how a record reaches its decoder: the three pairing operations,
    the dispatch in feed() and the table lookup in parse_event_list() (contracts of C04) are discharged again in each of
    those checks, unless the check already did so"""
    pid = run.pid
    if pid in NO_WIRING:
        return
    from checks import c04
    saved = getattr(run, 'pending_failures', [])
    run.pending_failures = []
    have = lambda pre: any(o['name'].startswith(pre) for o in run.obligations)
    for which in ('start', 'end', 'single'):
        if not have('%s/_feed_%s_event/' % (pid, which)):
            c04.verify_op(run, tier, Session(), which, prefix_root=pid)
    if not have('%s/feed/' % pid):
        c04.verify_feed(run, tier, Session(), prefix_root=pid)
    if not have('%s/parse_event_list/' % pid):
        c04.verify_pel(run, tier, Session(), prefix_root=pid)
    if run.pending_failures:
        c04.finish_failures(run, pid)
    run.pending_failures = saved


def run_pipeline(run, tier):
    """every listing of PyKdebugParser is a chain of lazy element-wise stages over KdBufParser.parse (contract proved in C06):
    what a line shows is decided when its trace is produced, not after later records were read"""
    pid = run.pid
    if pid == 'C06':
        return
    from checks import c06
    saved = getattr(run, 'pending_failures', [])
    run.pending_failures = []
    c06.verify_pipeline(run, tier, root=pid)
    mine, run.pending_failures = run.pending_failures, saved
    if not mine:
        return
    found = None
    for req in ({'kind': 'process_column_case'}, {'kind': 'truncation_search', 'seed': run.seed, 'budget': 40}, {'kind': 'api_history_case'}):
        out = native(req, timeout=900)
        if out.get('violates'):
            f = out.get('found') if isinstance(out.get('found'), dict) else out
            found = {'request': f.get('request', req), 'native': f, 'what': f.get('what', out.get('what', ''))}
            break
    for ob, status, why in mine:
        if found:
            run.violation(ob, {'request': found['request'], 'native': found['native'], 'solver_output': '%s (%s)' % (status, why)}, True, what=found['what'])
        elif status == 'refuted':
            run.violation(ob, {'request': None, 'solver_output': why}, False, what=why)
        else:
            run.undecide(ob, why)


def run_cli(run, tier):
    """command-line entry point: options reach the parser unchanged, the command prints its listing limited by --count"""
    from checks import cli
    run.pending_cli = []
    cli.verify_cli(run, tier, run.pid)
    if not run.pending_cli:
        return
    out = native({'kind': 'cli_case'}, timeout=600)
    for ob, status, why in run.pending_cli:
        if out.get('violates'):
            run.violation(ob, {'request': {'kind': 'cli_case'}, 'native': out, 'solver_output': why}, True, what=out.get('what', ''))
        else:
            # a structural clause that no longer matches is not a refutation by itself (the command may still do the same)
            run.undecide(ob, why + ' (no failing command line found)')


def run_data(run, tier):
    """data lemma over the bundled code table (exhaustive): every name the code relies on - the keys of the decoder tables
    and the name constants by which decoders and the pairing code select records - is carried by exactly one event id, so
    that "the records named X" is what the property means by it"""
    import ast
    import os
    pid = run.pid
    if pid in ('C01', 'C02', 'C03', 'C12', 'C16'):
        return
    from pyvc import decoders
    from pyvc.harness import bundled_codes_contract, REPO
    sess = Session()
    ob = '%s/data/bundled-table.names-the-code-relies-on-are-unambiguous' % pid
    fq = 'pykdebugparser/trace.codes'
    try:
        table = bundled_codes_contract(sess.it, None, [], {}, None)
        by_name = {}
        for k in table.order:
            by_name.setdefault(table.d[k][1], []).append(k)
        names = set(decoders.handler_tables(sess))
        for root, _, files in os.walk(os.path.join(REPO, 'pykdebugparser')):
            for f in files:
                if not f.endswith('.py') or not (root.endswith('trace_handlers') or f == 'traces_parser.py'):
                    continue
                tree = ast.parse(open(os.path.join(root, f)).read())
                for fn in ast.walk(tree):
                    if isinstance(fn, (ast.FunctionDef, ast.Lambda)):
                        for c in ast.walk(fn):
                            if isinstance(c, ast.Constant) and isinstance(c.value, str) and c.value in by_name:
                                names.add(c.value)
    except Unsupported as ex:
        run.add(ob, 'unsupported', '', 0, fq, str(ex))
        run.undecide(ob, str(ex))
        return
    bad = sorted(n for n in names if len(by_name.get(n, [])) > 1)
    if not bad:
        run.add(ob, 'proved', 'exhaustive table lemma (%d names)' % len(names), 0, fq, kind='lemma')
    else:
        why = 'names carried by several event ids: %s' % ', '.join('%s (%s)' % (n, ' '.join(hex(i) for i in by_name[n])) for n in bad[:6])
        run.add(ob, 'refuted', 'exhaustive table lemma', 0, fq, why, kind='lemma')
        run.violation(ob, {'request': None, 'solver_output': why}, False, what='bundled trace.codes: ' + why)


def run_generic(run, tier):
    pid = run.pid
    failures = []
    run_data(run, tier)
    run_wiring(run, tier)
    run_pipeline(run, tier)
    run_cli(run, tier)
    # ---- constructors
    sess = Session()
    it = sess.it
    ctors = [('pykdebugparser.traces_parser', 'TracesParser', 3), ('pykdebugparser.pykdebugparser', 'PyKdebugParser', 0),
             ('pykdebugparser.kd_buf_parser', 'KdBufParser', 2), ('pykdebugparser.callstacks_parser', 'CallstacksParser', 2)]
    for modname, cname, nargs in ctors:
        ob = '%s/frame/%s.__init__.instances-share-no-state' % (pid, cname)
        fq = '%s:%s.__init__' % (modname, cname)
        res = {}

        def thunk(ctx, modname=modname, cname=cname, nargs=nargs):
            cls = sess.module(modname).ns[cname]
            args = [libattr.new_symmap('arg%d' % i, 'int') for i in range(nargs)]
            if cname == 'CallstacksParser':
                args = [PList(), PList()]
            o = it.call(cls, args, {})
            res.setdefault('shared', []).extend(shared_parts(o))
            return o
        try:
            sess.explore(thunk)
        except Unsupported as ex:
            run.add(ob, 'unsupported', '', 0, fq, str(ex))
            failures.append((ob, 'unsupported', str(ex)))
            continue
        if res.get('shared'):
            why = 'a new %s shares %s with every other instance' % (cname, ', '.join(sorted(set(res['shared']))))
            run.add(ob, 'refuted', 'symbolic execution of the constructor', 0, fq, why, kind='frame')
            failures.append((ob, 'refuted', why))
        else:
            run.add(ob, 'proved', 'symbolic execution of the constructor', 0, fq, kind='frame')
    # ---- requests
    from checks import c13
    sess = Session()
    it = sess.it
    holder = {}
    c13.install_contracts(sess, holder)
    for meth in LISTINGS:
        ob = '%s/frame/%s.request-leaves-the-parser-object-as-it-was' % (pid, meth)
        fq = 'pykdebugparser.pykdebugparser:PyKdebugParser.' + meth
        res = {'changed': set(), 'kept': set(), 'n': 0}

        def thunk(ctx, meth=meth):
            holder.clear()
            self_, sets, _ = c13.setup(sess, ctx)
            before = dict(self_.fields)
            reader = Obj(ClassVal('Reader', None, 'plain'), {})
            r = it.call(it.lib.getattr_(it, self_, meth), [reader], {})
            # drive every stage once on an arbitrary element, so that lazily filled caches show
            v = r
            while isinstance(v, LazyIter):
                if v.fn is not None and v.kind == 'filter':
                    try:
                        x = c13.arbitrary_kevent(sess, ctx, 'drv%d' % res['n'])
                        it.call(v.fn, [x], {})
                    except (Unsupported, PyExc):
                        pass
                v = v.src
            res['n'] += 1
            for k in set(before) | set(self_.fields):
                if k not in before or k not in self_.fields or not _same(before[k], self_.fields[k]):
                    res['changed'].add(k)
            for m in _machines(r, []):
                if any(m is fv for fv in self_.fields.values()):
                    res['kept'].add(type(m).__name__ if not isinstance(m, Obj) else m.cls.name)
            return r
        try:
            sess.explore(thunk)
        except Unsupported as ex:
            run.add(ob, 'unsupported', '', 0, fq, str(ex))
            failures.append((ob, 'unsupported', str(ex)))
            continue
        if res['changed'] or res['kept']:
            why = 'the request rewrites %s%s' % (sorted(res['changed']), (' and keeps its %s' % sorted(res['kept'])) if res['kept'] else '')
            run.add(ob, 'refuted', 'symbolic execution of the request', 0, fq, why, kind='frame')
            failures.append((ob, 'refuted', why))
        else:
            run.add(ob, 'proved', 'symbolic execution of the request (%d configurations)' % res['n'], 0, fq, kind='frame')
    run.hashes.update(sess.repo.hashes)
    if failures:
        out = native({'kind': 'api_history_case'}, timeout=900)
        for ob, status, why in failures:
            if out.get('violates'):
                run.violation(ob, {'request': {'kind': 'api_history_case'}, 'native': out, 'solver_output': why}, True, what=out.get('what', ''))
            else:
                # shared or surviving state is not a refutation by itself (a counter, a complete-key cache): without a failing
                # history the isolation argument is gone and the property is undecided
                run.undecide(ob, why + ' (no failing history found)')
