"""Schema contracts over the table-registered decoders: one symbolic run of handler + __str__ per
decoder (pyvc.decoders), analysed per property.  Runs in a process pool; every refutation is
concretised and replayed natively by the parent."""
import multiprocessing as mp
import os
import re
import time
import traceback
import z3

from pyvc.harness import Session
from pyvc import decoders, textform, solve
from pyvc.report import native
from pyvc.values import Unsupported, SStr, SOpt, Obj, PartialVal, FuncVal, interned
from contracts import decoders as DC

SEL_RE = re.compile(r'\(select (w\.v\d|w\.ts|w\.eid|w\.fq|w\.data) ([^()]+|\([^()]*\))\)')


def rec(name, status, backend='', ms=0.0, function=None, detail='', kind='post', viol=None):
    return {'name': name, 'status': status, 'backend': backend, 'ms': ms, 'function': function, 'detail': detail,
            'kind': kind, 'viol': viol}


def window_refs(t):
    """{(array name, index sexpr)} of window reads in a term"""
    return set(SEL_RE.findall(t.sexpr()))


def sym_names(t):
    return decoders.z3_vars(t)


def sN(v, bits):
    m = v % (1 << bits)
    return z3.If(m >= (1 << (bits - 1)), m - (1 << bits), m)


def feasible(fs, ms=3000):
    r, _ = solve.satisfiable(fs, ms)
    return r != z3.unsat


# =============================================================================== per-property analyses
def an_C07(mod, name, paths, fq):
    out = []
    seen = set()
    any_raise = False
    for s in paths:
        for site, exc in s.discharged_sites:
            ob = 'C07/%s.%s/noraise@%s:%s' % (mod, name, site[0], site[1].split(':')[0])
            if ob not in seen:
                seen.add(ob)
                out.append(rec(ob, 'proved', 'z3-5.1 (raise condition infeasible on every path)', 0, fq, kind='noraise'))
    for s in paths:
        if s.outcome != 'raise':
            continue
        any_raise = True
        site = s.exc.site or (None, s.exc.kind or '?')
        ob = 'C07/%s.%s/noraise@%s:%s' % (mod, name, site[0], str(site[1]).split(':')[0])
        if ob in seen and any(r['name'] == ob and r['status'] == 'refuted' for r in out):
            continue
        seen.add(ob)
        out = [r for r in out if r['name'] != ob]
        req, model = decoders.concretize(s)
        viol = None
        if req is not None:
            req = dict(req, kind='decoder', expect={'no_raise': True})
            viol = {'request': req, 'what': '%s decoder raises %s (%s phase, line %s) on in-domain events' % (
                name, s.exc.cls_name, s.phase, site[0]), 'solver_output': 'sat: feasible path to raise site %s' % (site,)}
        else:
            viol = {'request': None, 'what': '%s raise site %s feasible' % (name, site), 'solver_output': 'sat (no model concretised)'}
        out.append(rec(ob, 'refuted', 'z3-5.1', 0, fq, '%s %s' % (s.exc.cls_name, s.exc.msg), 'noraise', viol))
    if not any_raise:
        out.append(rec('C07/%s.%s/total' % (mod, name), 'proved',
                       'symbolic execution: %d paths, none exceptional' % len(paths), 0, fq, kind='noraise'))
    return out


def alternatives(s):
    """[(conds, toks)] of the rendered text of a returning path whose condition is feasible."""
    alts = []
    for conds, toks in textform.flatten(s.text):
        if conds and not feasible(s.pc + conds):
            continue
        alts.append((conds, toks))
    return alts


def _numeric_terms(tk):
    if tk[0] in ('dec', 'hex', 'hexraw', 'hexpad'):
        return [tk[1]]
    if tk[0] in ('ename', 'flagname'):
        return [tk[2]]
    return []


def an_C09(mod, name, paths, fq):
    if not (mod == 'bsd' or name.startswith('MSC_')):
        return []
    out = []
    res = {}   # obligation -> (ok, detail, viol)

    def note(ob, ok, detail='', viol=None):
        cur = res.get(ob)
        if cur is None or (cur[0] and not ok):
            res[ob] = (ok, detail, viol)
    t0 = time.time()
    for s in paths:
        if s.outcome != 'return':
            continue
        w = s.window
        L = w.length
        for conds, toks in alternatives(s):
            cs = textform.split_call(toks)
            if not cs.ok:
                note('C09/%s/shape' % name, False, cs.why + ': ' + textform.toks_repr(toks)[:120])
                continue
            note('C09/%s/shape' % name, True)
            # call part: no END word, no word of another event, no parser table
            call_terms = []
            for k, slot in enumerate(cs.slots):
                for tk in slot:
                    real = tk[1] if tk[0] == 'incomment' else tk
                    for t in textform.token_terms(real):
                        call_terms.append((k, tk, t))
            bad_end = None
            for k, tk, t in call_terms:
                for arr, idx in window_refs(t):
                    if idx != '0':
                        bad_end = (k, arr, idx)
                names = sym_names(t)
                if any(n.startswith('p.') and not n.startswith('p.trace_codes') for n in names):
                    bad_end = (k, 'parser-table', ','.join(sorted(n for n in names if n.startswith('p.'))))
            if bad_end:
                viol = None
                req, model = decoders.concretize(s, conds)
                if req is not None:
                    import copy
                    b = copy.deepcopy(req)
                    for e in b['events'][1:]:
                        e['values'] = [(v + 0x1111) & decoders.W64 for v in e['values']]
                        e.pop('data', None) if e.get('code_name') != 'VFS_LOOKUP' else None
                    viol = {'request': {'kind': 'decoder_pair', 'a': req, 'b': b, 'part': 'call', 'mode': 'must_equal'},
                            'what': '%s: call part depends on %s[%s] (slot %d)' % (name, bad_end[1], bad_end[2], bad_end[0]),
                            'solver_output': 'structural: token term mentions a non-START word'}
                note('C09/%s/call.start-only' % name, False, str(bad_end), viol)
            else:
                note('C09/%s/call.start-only' % name, True)
            for k, slot in enumerate(cs.slots):
                ob_src = 'C09/%s/slot%d.source' % (name, k)
                ob_form = 'C09/%s/slot%d.faithful' % (name, k)
                toks_k = [(tk[1] if tk[0] == 'incomment' else tk, tk[0] == 'incomment') for tk in slot]
                # source: every window value word mentioned is START word k
                src_ok = True
                for tk, _ in toks_k:
                    for t in textform.token_terms(tk):
                        for arr, idx in window_refs(t):
                            if arr.startswith('w.v') and (idx != '0' or int(arr[3:]) != k):
                                src_ok = (arr, idx)
                            if arr in ('w.ts', 'w.eid', 'w.fq', 'w.data'):
                                src_ok = (arr, idx)
                if k > 3:
                    if any(tk[0] != 'lit' and tk[0] != 'atom' for tk, _ in toks_k):
                        src_ok = ('slot beyond the four recorded arguments shows a value', '')
                viol = None
                if src_ok is not True:
                    viol = _slot_violation(s, conds, name, k, toks_k)
                note(ob_src, src_ok is True, '' if src_ok is True else 'uses %s[%s]' % src_ok, viol)
                if k > 3:
                    continue
                vk = z3.Select(w.v[k], 0)
                narrow = DC.C09_NARROW.get((name.replace('_nocancel', ''), k))
                forms = [vk, sN(vk, 64)]
                if narrow == 's32':
                    forms.append(sN(vk, 32))
                if narrow == 'u32':
                    forms.append(vk % (1 << 32))
                form_ok = True
                for tk, incomment in toks_k:
                    if incomment:
                        continue
                    for t in _numeric_terms(tk):
                        ts = z3.simplify(t)
                        if any(ts.eq(z3.simplify(f)) for f in forms):
                            continue
                        v = solve.prove(s.pc + conds, z3.Or([t == f for f in forms]), 5000)
                        if v.status != 'proved':
                            form_ok = (tk[0], str(ts)[:80], v.status)
                viol = None
                if form_ok is not True:
                    viol = _slot_violation(s, conds, name, k, toks_k, narrow)
                note(ob_form, form_ok is True, '' if form_ok is True else str(form_ok), viol)
    ms = (time.time() - t0) * 1000
    n = max(1, len(res))
    for ob, (ok, detail, viol) in res.items():
        if ok:
            out.append(rec(ob, 'proved', 'token structure + z3-5.1', ms / n, fq))
        else:
            if viol is None:
                viol = {'request': None, 'what': '%s: %s' % (ob, detail), 'solver_output': detail}
            out.append(rec(ob, 'refuted', 'token structure + z3-5.1', ms / n, fq, detail, viol=viol))
    return out


def _slot_violation(s, conds, name, k, toks_k, narrow=None):
    """concretise an input on which slot k's text is not a faithful rendering of START word k."""
    w = s.window
    if k > 3:
        return None
    vk = z3.Select(w.v[k], 0)
    extra = list(conds)
    for tk, incomment in toks_k:
        if incomment:
            continue
        for t in _numeric_terms(tk):
            allowed = [vk, sN(vk, 64)] + ([sN(vk, 32)] if narrow == 's32' else []) + ([vk % (1 << 32)] if narrow == 'u32' else [])
            extra.append(z3.And([t != f for f in allowed]))
    # make the words pairwise different and recognisable
    for j in range(4):
        for i in range(j):
            extra.append(z3.Select(w.v[j], 0) != z3.Select(w.v[i], 0))
    req, model = decoders.concretize(s, extra)
    if req is None:
        req, model = decoders.concretize(s, conds)
        if req is None:
            return None
    word = solve.model_int(model, vk)
    return {'request': {'kind': 'decoder_slot', 'run': req, 'slot': k, 'word': word, 'narrow': narrow},
            'what': '%s: text at position %d is not a rendering of START argument %d' % (name, k, k),
            'solver_output': 'sat'}


def an_C10(mod, name, paths, fq):
    if mod != 'bsd' or name in DC.C10_EXEMPT:
        return []
    res = {}

    def note(ob, ok, detail='', viol=None):
        cur = res.get(ob)
        if cur is None or (cur[0] and not ok):
            res[ob] = (ok, detail, viol)
    t0 = time.time()
    words_ok = DC.C10_RESULT_WORDS.get(name.replace('_nocancel', ''), (1,))
    for s in paths:
        if s.outcome != 'return':
            continue
        w = s.window
        last = z3.simplify(w.length - 1)
        err = z3.Select(w.v[0], last)
        for conds, toks in alternatives(s):
            cs = textform.split_call(toks)
            if not cs.ok:
                note('C10/%s/shape' % name, False, cs.why)
                continue
            # call part does not depend on the END record
            bad = None
            for slot in cs.slots:
                for tk in slot:
                    real = tk[1] if tk[0] == 'incomment' else tk
                    for t in textform.token_terms(real):
                        for arr, idx in window_refs(t):
                            if idx != '0':
                                bad = (arr, idx)
            for c in conds:
                pass
            note('C10/%s/call.independent-of-END' % name, bad is None, '' if bad is None else 'call part reads %s[%s]' % bad,
                 None if bad is None else _pair_violation(s, conds, name, 'call', 'end'))
            # output-path annotations ( name: "<looked-up path>") after the result are not part of it
            tail_toks = strip_path_annotations(cs.tail)
            cs.tail = tail_toks
            # result part depends only on the END record
            bad = None
            for tk in cs.tail:
                for t in textform.token_terms(tk):
                    for arr, idx in window_refs(t):
                        if idx == '0':
                            bad = (arr, idx)
                    if any(n.startswith('p.') or n.startswith('lk') for n in sym_names(t)):
                        bad = ('parser/lookups', '')
            # conditions selecting the tail must not mention START words either
            tail_conds = [c for c in conds if _cond_affects_tail(c, toks, cs)]
            note('C10/%s/result.end-only' % name, bad is None, '' if bad is None else 'result part reads %s[%s]' % bad,
                 None if bad is None else _pair_violation(s, conds, name, 'tail', 'start'))
            # error form / success form
            for case, cc in (('error', err != 0), ('success', err == 0)):
                if not feasible(s.pc + conds + [cc]):
                    continue
                ok, detail = _tail_form(case, cs.tail, s, conds + [cc], err, w, last, words_ok)
                viol = None
                if not ok:
                    req, model = decoders.concretize(s, conds + [cc])
                    if req is not None:
                        viol = {'request': {'kind': 'decoder_result', 'run': req, 'words': list(words_ok)},
                                'what': '%s: result part has the wrong form when the END error word is %s' % (
                                    name, 'non-zero' if case == 'error' else 'zero'), 'solver_output': detail}
                        if any(tk[0] == 'opaque' for tk in cs.tail):
                            # part of the text is a call the token model does not open: the form cannot be read off it
                            viol['must_reproduce'] = True
                note('C10/%s/%s.form' % (name, case), ok, detail, viol)
    ms = (time.time() - t0) * 1000
    out = []
    n = max(1, len(res))
    for ob, (ok, detail, viol) in res.items():
        if ok:
            out.append(rec(ob, 'proved', 'token structure + z3-5.1', ms / n, fq))
        else:
            if viol is None:
                viol = {'request': None, 'what': '%s: %s' % (ob, detail), 'solver_output': detail}
            out.append(rec(ob, 'refuted', 'token structure + z3-5.1', ms / n, fq, detail, viol=viol))
    return out


def strip_path_annotations(tail):
    """drop trailing ` word: "<atom from a lookup>"` groups (fsgetpath shows the returned path there)."""
    t = list(tail)
    while len(t) >= 3 and t[-1] == ('lit', '"') and t[-2][0] == 'atom' and t[-3][0] == 'lit' \
            and re.search(r' \w+: "$', t[-3][1]) and all(n.startswith('lk') for n in sym_names(t[-2][1])):
        head = re.sub(r' \w+: "$', '', t[-3][1])
        t = t[:-3] + ([('lit', head)] if head else [])
    return textform.merge_lits(t)


def _cond_affects_tail(c, toks, cs):
    return True


def _pair_violation(s, conds, name, part, vary):
    import copy
    req, model = decoders.concretize(s, conds)
    if req is None:
        return None
    b = copy.deepcopy(req)
    evs = b['events']
    targets = evs[-1:] if vary == 'end' else evs[:1]
    if len(evs) == 1:
        return None
    for e in targets:
        e['values'] = [(v + 0x1111) & decoders.W64 for v in e['values']]
    # keep the error / success case the same when varying the END record
    if vary == 'end':
        e = evs[-1]
        e['values'][0] = req['events'][-1]['values'][0]
    return {'request': {'kind': 'decoder_pair', 'a': req, 'b': b, 'part': part, 'mode': 'must_equal'},
            'what': '%s: %s part changes when only the %s record changes' % (name, part, 'END' if vary == 'end' else 'START'),
            'solver_output': 'structural: token term mentions a word of the other record'}


def _tail_form(case, tail, s, hyps, err, w, last, words_ok):
    toks = list(tail)
    lits = ''.join(tk[1] for tk in toks if tk[0] == 'lit')
    if case == 'error':
        # ', errno: NAME(code)'  |  ', errno: code'
        if len(toks) == 2 and toks[0] == ('lit', ', errno: ') and toks[1][0] == 'dec':
            v = solve.prove(s.pc + hyps, toks[1][1] == err, 5000)
            return v.status == 'proved', 'code shown is not the END error word' if v.status != 'proved' else ''
        if (len(toks) == 5 and toks[0] == ('lit', ', errno: ') and toks[1][0] == 'atom' and toks[2] == ('lit', '(')
                and toks[3][0] == 'dec' and toks[4] == ('lit', ')')):
            v = solve.prove(s.pc + hyps, toks[3][1] == err, 5000)
            return v.status == 'proved', 'code shown is not the END error word' if v.status != 'proved' else ''
        if len(toks) == 1 and toks[0][0] == 'lit':
            m = re.fullmatch(r', errno: (?:[A-Z0-9_]+\()?(\d+)\)?', toks[0][1])
            if m:
                v = solve.prove(s.pc + hyps, err == int(m.group(1)), 5000)
                return v.status == 'proved', ''
        return False, 'with a non-zero error word the result part is %r' % textform.toks_repr(toks)[:120]
    # success
    if 'errno' in lits:
        return False, 'errno shown although the END error word is zero'
    allowed = []
    for j in words_ok:
        vj = z3.Select(w.v[j], last)
        allowed += [vj, sN(vj, 64), sN(vj, 32)]
    for tk in toks:
        if tk[0] == 'lit':
            continue
        for t in textform.token_terms(tk):
            if tk[0] in ('dec', 'hex', 'hexraw', 'hexpad', 'ename', 'flagname'):
                ts = z3.simplify(t)
                if any(ts.eq(z3.simplify(f)) for f in allowed):
                    continue
                v = solve.prove(s.pc + hyps, z3.Or([t == f for f in allowed]), 5000)
                if v.status != 'proved':
                    return False, 'success value %s is not a rendering of the END return word' % str(ts)[:80]
            else:
                refs = window_refs(t)
                for arr, idx in refs:
                    if not (arr.startswith('w.v') and int(arr[3:]) in words_ok):
                        return False, 'success part reads %s[%s]' % (arr, idx)
    return True, ''


def an_C18(mod, name, paths, fq):
    """no host symbol may influence the text, the result object or the tables."""
    out = []
    hosts = set()
    where = None
    for s in paths:
        terms = []
        if s.text is not None:
            for conds, toks in textform.flatten(s.text):
                terms.extend(conds)
                for tk in toks:
                    if tk[0] == 'ename' and tk[1].kind == 'host-enum':
                        hosts.add('host.' + tk[1].name)
                        where = where or s
                    terms.extend(textform.token_terms(tk))
        for t in terms:
            hs = [n for n in sym_names(t) if n.startswith('host.')]
            if hs:
                hosts.update(hs)
                where = where or s
        for c in s.pc:
            hs = [n for n in sym_names(c) if n.startswith('host.')]
            if hs:
                hosts.update(hs)
                where = where or s
    ob = 'C18/%s.%s/host-independent' % (mod, name)
    if not hosts:
        out.append(rec(ob, 'proved', 'symbolic execution: no host symbol in text, guards or path conditions', 0, fq))
    else:
        hs = sorted(set(h.split('.dom')[0].split('.val')[0] for h in hosts))
        viol = {'request': None, 'what': '%s: text depends on host table(s) %s' % (name, ', '.join(hs)),
                'solver_output': 'host symbols occur in the symbolic result: %s' % ', '.join(hs), 'hosts': hs}
        # candidate paths: those that *show* a host value first, then those that only branch on one
        cands = [x for x in paths if x.text is not None and any(n.startswith('host.') for conds, toks in textform.flatten(x.text)
                                                                for tk in toks for t in textform.token_terms(tk) for n in sym_names(t))]
        cands += [x for x in paths if x not in cands and any(n.startswith('host.') for c in x.pc for n in sym_names(c))]
        reqs = []
        for cand in cands[:4]:
            req, model = decoders.concretize(cand, host_key_constraints(cand))
            if req is not None:
                reqs.append({'kind': 'decoder_pair', 'a': dict(req, host=HOST_A), 'b': dict(req, host=HOST_B), 'mode': 'must_equal'})
        if reqs:
            viol['request'] = reqs[0]
            viol['alternatives'] = reqs[1:]
        out.append(rec(ob, 'refuted', 'symbolic execution', 0, fq, ', '.join(hs), viol=viol))
    return out


HOST_A = {'name': 'platform-A', 'errorcode': {str(i): 'EA%d' % i for i in range(1, 200)},
          'Signals': {str(i): 'SIGA%d' % i for i in range(1, 65)},
          'AddressFamily': {str(i): 'AF_A%d' % i for i in range(0, 64)},
          'SocketKind': {str(i): 'SOCK_A%d' % i for i in range(1, 16)}, 'SOL_SOCKET': 1}
HOST_B = {'name': 'platform-B', 'errorcode': {str(i): 'EB%d' % i for i in range(1, 200)},
          'Signals': {str(i): 'SIGB%d' % i for i in range(1, 65)},
          'AddressFamily': {str(i): 'AF_B%d' % i for i in range(0, 64)},
          'SocketKind': {str(i): 'SOCK_B%d' % i for i in range(1, 16)}, 'SOL_SOCKET': 0xffff, 'shift_constants': 1000,
          'byteorder': 'big', 'platform': 'platform-b', 'c_long_bits': 32}


def host_key_constraints(s):
    """steer the counterexample to keys on which two platforms' tables differ."""
    out = []
    seen = set()

    def walk(t):
        if t.get_id() in seen:
            return
        seen.add(t.get_id())
        if z3.is_select(t) and z3.is_const(t.arg(0)) and t.arg(0).decl().name().startswith('host.'):
            k = t.arg(1)
            out.append(z3.And(k >= 1, k <= 199))
        if z3.is_app(t) and t.decl().kind() == z3.Z3_OP_UNINTERPRETED and t.decl().name().startswith('host.') \
                and t.num_args() == 1:
            k = t.arg(0)
            out.append(z3.And(k >= 1, k <= 10))
        if z3.is_eq(t):
            a, b = t.arg(0), t.arg(1)
            for x, y in ((a, b), (b, a)):
                if z3.is_const(x) and x.decl().name() == 'host.socket.SOL_SOCKET':
                    out.append(y == 1)
                    out.append(x == 1)
        if z3.is_app(t):
            for c in t.children():
                walk(c)
    terms = list(s.pc)
    if s.text is not None:
        for conds, toks in textform.flatten(s.text):
            terms.extend(conds)
            for tk in toks:
                terms.extend(textform.token_terms(tk))
    for t in terms:
        walk(t)
    return out


def toks_equal_under(pc, ta, tb):
    """token sequences equal for all values satisfying pc?  (True/False, detail)"""
    ta, tb = textform.merge_lits(ta), textform.merge_lits(tb)
    if len(ta) != len(tb):
        return False, 'different token structure: %s / %s' % (textform.toks_repr(ta)[:100], textform.toks_repr(tb)[:100])
    for x, y in zip(ta, tb):
        if x[0] != y[0]:
            return False, 'token kinds differ: %s / %s' % (x[0], y[0])
        if x[0] == 'lit':
            if x[1] != y[1]:
                return False, 'literal text differs: %r / %r' % (x[1][:60], y[1][:60])
        elif x[0] in ('dec', 'hex', 'hexraw', 'atom', 'hexpad'):
            if not x[1].eq(y[1]):
                v = solve.prove(pc, x[1] == y[1], 5000)
                if v.status != 'proved':
                    return False, 'value differs: %s / %s' % (str(x[1])[:60], str(y[1])[:60])
            if x[0] == 'hexpad' and x[2] != y[2]:
                return False, 'pad width differs'
        elif x[0] in ('ename', 'flagname'):
            if x[1] is not y[1] and x[1].name != y[1].name:
                return False, 'enum class differs'
            if not x[2].eq(y[2]):
                v = solve.prove(pc, x[2] == y[2], 5000)
                if v.status != 'proved':
                    return False, 'enum value differs'
        elif x[0] == 'join':
            if x[1] != y[1] or len(x[2]) != len(y[2]):
                return False, 'flag list differs'
            for (g1, s1), (g2, s2) in zip(x[2], y[2]):
                z1 = z3.BoolVal(True) if g1 is True else g1
                z2 = z3.BoolVal(True) if g2 is True else g2
                if not z1.eq(z2):
                    v = solve.prove(pc, z1 == z2, 5000)
                    if v.status != 'proved':
                        return False, 'flag guard differs'
                ok, d = toks_equal_under(pc, list(s1.toks), list(s2.toks))
                if not ok:
                    return False, d
        elif x[0] in ('padopen',):
            if x[1:] != y[1:]:
                return False, 'padding differs'
        elif x[0] in ('padclose', 'loweropen', 'lowerclose'):
            pass
        else:
            if repr(x) != repr(y):
                return False, 'opaque token differs'
    return True, ''


def an_C17_twin(mod, name, paths, fq, explore):
    """X_nocancel renders exactly like X apart from the suffix, for all START/END tuples."""
    if not name.endswith('_nocancel'):
        return []
    base = name[:-len('_nocancel')]
    ob = 'C17/%s/twin.same-rendering' % name
    t0 = time.time()
    bpaths = explore(base)
    if bpaths is None:
        return [rec(ob, 'refuted', 'table', 0, fq, 'base call %s is not decoded' % base,
                    viol={'request': {'kind': 'reachable', 'name': base}, 'what': '%s is decoded but %s is not registered' % (name, base),
                          'solver_output': 'table lookup: %s absent from the decoder tables' % base})]
    bad = None
    badpair = None
    compared = 0
    for a in bpaths:
        for b in paths:
            joint = list(a.pc) + list(b.pc)
            # window/parser symbols have the same names in both runs: the two runs share their input
            if not feasible(joint):
                continue
            compared += 1
            if a.outcome != b.outcome:
                bad = 'one raises (%s), the other returns' % (a.exc or b.exc)
                badpair = (a, b, [])
                break
            if a.outcome != 'return':
                continue
            for ca, ta in textform.flatten(a.text):
                for cb, tb in textform.flatten(b.text):
                    jc = joint + ca + cb
                    if (ca or cb) and not feasible(jc):
                        continue
                    tb2 = list(tb)
                    m = re.match(r'(\w+)\(', ta[0][1]) if ta and ta[0][0] == 'lit' else None
                    if m and tb2 and tb2[0][0] == 'lit' and tb2[0][1].startswith(m.group(1) + '_nocancel('):
                        tb2[0] = ('lit', tb2[0][1].replace('_nocancel', '', 1))
                        ok, d = toks_equal_under(jc, ta, tb2)
                    else:
                        ok, d = False, 'call name of the twin is not <name>_nocancel: %s / %s' % (
                            textform.toks_repr(ta)[:50], textform.toks_repr(tb)[:50])
                    if not ok:
                        bad = d
                        badpair = (a, b, ca + cb)
                        break
                if bad:
                    break
            if bad:
                break
        if bad:
            break
    ms = (time.time() - t0) * 1000
    if not bad and compared == 0:
        return [rec(ob, 'engine-error', '', ms, fq, 'vacuous twin comparison: no jointly feasible pair of paths')]
    if not bad:
        return [rec(ob, 'proved', 'token structure + z3-5.1 (relational, shared symbolic input, %d path pairs)' % compared, ms, fq)]
    a, b, conds = badpair
    viol = {'request': None, 'what': '%s and %s render differently: %s' % (base, name, bad), 'solver_output': bad}
    req, model = decoders.concretize(b, list(a.pc) + conds)
    if req is not None:
        ra = dict(req, name=base)
        viol['request'] = {'kind': 'decoder_pair', 'a': ra, 'b': req, 'mode': 'twin'}
    return [rec(ob, 'refuted', 'token structure + z3-5.1', ms, fq, bad, viol=viol)]


def an_C04_window(mod, name, paths, fq):
    """S-window: a decoder returns a trace object whose event list is the delivered window itself"""
    ob = 'C04/window/%s.%s' % (mod, name)
    bad = None
    n = 0
    for s in paths:
        if s.outcome != 'return':
            continue
        n += 1
        r = s.result
        if not isinstance(r, Obj) or 'ktraces' not in r.fields:
            bad = 'decoder returned %s' % type(r).__name__
        elif r.fields['ktraces'] is not s.window.events:
            kt = r.fields['ktraces']
            o = getattr(kt, 'origin', None)
            src = o[1] if isinstance(o, tuple) and len(o) > 1 else None
            so = getattr(src, 'origin', None)
            from_window = src is s.window.events or (isinstance(so, tuple) and so[0] == 'comp' and so[1] is s.window.events)
            if name == 'TRACE_STRING_GLOBAL' and isinstance(o, tuple) and o[0] == 'loop-havoc' and from_window:
                continue      # re-slices its window up to the first END-bit record: stated and proved in C08
            bad = 'ktraces is not the delivered window'
    if n == 0:
        return []
    if bad:
        # object identity of the event list is read off the symbolic run; a list that reaches the trace by a route the model does
        # not follow (state object, helper) looks like "another list": a violation only with a failing window
        return [rec(ob, 'refuted', 'symbolic execution', 0, fq, bad, viol={'request': {'kind': 'window_order_case', 'decoder': name},
                                                                           'what': '%s: %s' % (name, bad), 'solver_output': bad,
                                                                           'must_reproduce': True})]
    return [rec(ob, 'proved', 'symbolic execution (object identity on %d paths)' % n, 0, fq)]


def an_C07_full(mod, name, paths, fq):
    """C07 also at the observation point formatted_traces: the formatters and the trace-level filters read trace.ktraces[0],
    so every decoder must hand back its delivered window (the S-window clause of C04, discharged again under C07's name)"""
    out = an_C07(mod, name, paths, fq)
    for r in an_C04_window(mod, name, paths, fq):
        r = dict(r)
        r['name'] = r['name'].replace('C04/window/', 'C07/window/', 1)
        if r.get('viol'):
            r['viol'] = dict(r['viol'], request={'kind': 'headless_window_case', 'decoder': name},
                             alternatives=[{'kind': 'window_order_case', 'decoder': name}])
        out.append(r)
    return out


ANALYSES = {'C04': an_C04_window, 'C07': an_C07_full, 'C09': an_C09, 'C10': an_C10, 'C18': an_C18, 'C17': an_C17_twin}


# =============================================================================== pool
XCHK_SKIP = ('VFS_LOOKUP', 'TRACE_STRING_GLOBAL', 'TRACE_STRING_NEWTHREAD', 'TRACE_STRING_EXEC', 'TRACE_STRING_PROC_EXIT',
             'TRACE_STRING_THREADNAME', 'TRACE_STRING_THREADNAME_PREV')


def _xchk_worker(job):
    names, samples, seed = job
    from pyvc import crosscheck
    sess = Session(policy=decoders.DecoderPolicy())
    tabs = decoders.handler_tables(sess)
    out = {'compared': 0, 'skipped': 0, 'mismatches': []}
    for name in names:
        try:
            c, sk, mm = crosscheck.crosscheck_decoder(sess, name, tabs[name][0][1], samples, seed)
        except Unsupported:
            continue
        out['compared'] += c
        out['skipped'] += sk
        out['mismatches'] += mm[:3]
    return out


def engine_crosscheck(run, tier):
    """translation validation of the encoder on sampled inputs (DESIGN 3.4): engine result == native result"""
    sess = Session()
    tabs = decoders.handler_tables(sess)
    names = [n for n in sorted(tabs) if n not in XCHK_SKIP]
    if tier != 'thorough':
        import random
        rnd = random.Random(run.seed)
        names = rnd.sample(names, 32)
    procs = min(16, os.cpu_count() or 4)
    chunks = [names[i::procs] for i in range(procs)]
    with mp.Pool(procs) as pool:
        res = pool.map(_xchk_worker, [(c, 2 if tier == 'thorough' else 1, run.seed) for c in chunks if c])
    compared = sum(r['compared'] for r in res)
    mism = [m for r in res for m in r['mismatches']]
    run.bounded.append({'what': 'engine cross-check (sampled, not a proof): symbolic decoder result evaluated under a model vs the real decoder on the '
                                'concretised input', 'decoders': len(names), 'comparisons': compared, 'skipped_opaque': sum(r['skipped'] for r in res),
                        'mismatches': len(mism)})
    for m in mism[:3]:
        run.engine_error('engine cross-check mismatch for %s: engine %r, native %r' % (m['decoder'], m['engine'][:120], str(m['native'])[:120]))


def _worker(job):
    pid, names = job
    os.environ.setdefault('PYTHONHASHSEED', '0')
    sess = Session(policy=decoders.DecoderPolicy())
    tabs = decoders.handler_tables(sess)
    out = []
    hashes = {}
    for name in names:
        for mod, h in tabs[name]:
            fq = 'pykdebugparser.trace_handlers.%s:%s' % (mod, _hname(h))
            t0 = time.time()
            try:
                paths = decoders.explore_decoder(sess, name, h)
                if not paths:
                    out.append(rec('%s/%s.%s/cover' % (pid, mod, name), 'engine-error', '', 0, fq,
                                   'no feasible path: window/parser hypotheses are contradictory'))
                    continue
                if pid == 'C17':
                    def explore(other, mod=mod, name=name):
                        for m2, h2 in tabs.get(other, []):
                            # same window as the twin (its first event carries the twin's code)
                            return decoders.explore_decoder(sess, other, h2, window_name=name)
                        return None
                    recs = ANALYSES[pid](mod, name, paths, fq, explore)
                else:
                    recs = ANALYSES[pid](mod, name, paths, fq)
                for r in recs:
                    r['npaths'] = len(paths)
                out.extend(recs)
                if pid != 'C07' and not any(s.outcome == 'return' for s in paths):
                    # vacuity guard: the clauses above speak about returned texts; a decoder that raises on every window has none.
                    # Reported as a violation only with a failing input (the decoder really raises), otherwise undecided.
                    s0 = paths[0]
                    req, _m = decoders.concretize(s0)
                    site = s0.exc.site if getattr(s0, 'exc', None) is not None else None
                    viol = None
                    if req is not None:
                        viol = {'request': dict(req, kind='decoder', expect={'no_raise': True}),
                                'what': '%s decoder raises %s on every window, so no text is produced' % (name, getattr(s0.exc, 'cls_name', '?')),
                                'solver_output': 'no returning path; first raise site %s' % (site,), 'must_reproduce': True}
                    out.append(rec('%s/%s.%s/decodes-some-window' % (pid, mod, name), 'refuted' if viol else 'unsupported', 'symbolic execution',
                                   0, fq, 'every path of the decoder ends in an exception', viol=viol))
            except Unsupported as e:
                from pyvc.values import FrameViolation
                if isinstance(e, FrameViolation):
                    out.append(rec('%s/%s.%s/frame.pairing-tables-untouched' % (pid, mod, name), 'refuted', 'symbolic execution', (time.time() - t0) * 1000, fq,
                                   str(e), viol={'request': {'kind': 'pairing_search', 'budget': 4000, 'depth': 4}, 'what': '%s: %s' % (name, e),
                                                 'solver_output': str(e)}))
                else:
                    out.append(rec('%s/%s.%s/supported' % (pid, mod, name), 'unsupported', '', (time.time() - t0) * 1000, fq, str(e)))
            except Exception:
                out.append(rec('%s/%s.%s/engine' % (pid, mod, name), 'engine-error', '', 0, fq,
                               traceback.format_exc()[-800:]))
    hashes.update(sess.repo.hashes)
    from pyvc import values as _values
    hashes['$global_writes'] = dict(_values.GLOBAL_WRITES)
    hashes['$dropped'] = list(_values.DROPPED)
    for _k, _v in _values.GLOBAL_READS.items():
        hashes['$global_writes']['read of the rebindable module variable ' + _k] = _v
    return out, hashes


def _hname(h):
    if isinstance(h, PartialVal):
        return _hname(h.func) + '[partial]'
    if isinstance(h, FuncVal):
        return h.name
    return type(h).__name__


def run_pool(run, pid, names=None, procs=None):
    sess = Session()
    tabs = decoders.handler_tables(sess)
    run.hashes.update(sess.repo.hashes)
    allnames = sorted(tabs) if names is None else names
    procs = procs or min(16, os.cpu_count() or 4)
    chunks = [allnames[i::procs * 3] for i in range(procs * 3)]
    chunks = [c for c in chunks if c]
    with mp.Pool(procs) as pool:
        results = pool.map(_worker, [(pid, c) for c in chunks])
    recs = []
    for out, hashes in results:
        recs.extend(out)
        run.global_writes.update(hashes.pop('$global_writes', {}))
        for _d in hashes.pop('$dropped', []):
            if list(_d) not in run.dropped:
                run.dropped.append(list(_d))
        run.hashes.update(hashes)
    recs.sort(key=lambda r: r['name'])
    return recs, tabs


def absorb(run, recs, replay=True):
    """record obligations; replay refutations natively."""
    for r in recs:
        st = r['status']
        if st == 'proved':
            run.add(r['name'], 'proved', r['backend'], r['ms'], r['function'], kind=r['kind'])
        elif st == 'unsupported':
            run.add(r['name'], 'unsupported', '', r['ms'], r['function'], r['detail'])
            run.undecide(r['name'], 'construct outside the subset: ' + r['detail'])
        elif st == 'engine-error':
            run.add(r['name'], 'engine-error', '', 0, r['function'], r['detail'])
            run.engine_error(r['name'] + ': ' + r['detail'][-300:])
        elif st == 'refuted':
            v = r['viol'] or {}
            reproduced = False
            nat = None
            if v.get('request') is not None and replay and run.native_replays < 60:
                for rq in [v['request']] + list(v.get('alternatives') or []):
                    run.native_replays += 1
                    nat = native(rq)
                    reproduced = bool(nat.get('violates'))
                    if reproduced:
                        v['request'] = rq
                        break
            if v.get('must_reproduce') and not reproduced:
                run.add(r['name'], 'unsupported', '', r['ms'], r['function'], r['detail'])
                run.undecide(r['name'], 'not reproduced on the real code: ' + r['detail'])
                continue
            known = run.known_for(r['name'])
            run.add(r['name'], 'known-finding' if known else 'refuted', r['backend'], r['ms'], r['function'], r['detail'], r['kind'])
            run.violation(r['name'], {'request': v.get('request'), 'native': nat, 'solver_output': v.get('solver_output', ''),
                                      'what': v.get('what', '')}, reproduced, what=v.get('what', ''))


COMMON_TRUST = ['pyvc interpreter (symbolic execution of the real handler and __str__ ASTs)', 'z3 5.1',
                'window shape guaranteed by TracesParser (proved separately in C04)',
                'assumed contract of TracesParser.parse_vnodes at call sites (its body is verified in C08)',
                'token-level text model: decimal/hex renderings contain no , ( ) or "; paths always inside "..."']
COMMON_ASSUME = ['enum construction / constant-dict lookup / utf-8 decoding of a single event\'s own fields succeed '
                 '(the per-event in-domain premise of C07); host modules errno/signal/socket are uninterpreted',
                 'CPython semantics of f-strings, str(int), hex(int), enum iteration order (validated against the child interpreter in thorough tier)']


def standard(run, tier, pid):
    run.pending_failures = []
    if pid in ('C07', 'C09'):
        # the window a decoder receives is what the pairing code delivers: re-discharge those clauses here
        # (C07: the pipeline functions themselves never raise; C09: the window begins with the most recent START)
        from checks import c04
        for which in (('start', 'end', 'single') if pid == 'C07' else ('start',)):
            c04.verify_op(run, tier, Session(), which, prefix_root=pid)
        if pid == 'C07':
            c04.verify_feed(run, tier, Session(), prefix_root=pid)
            c04.verify_pel(run, tier, Session(), prefix_root=pid)
    recs, tabs = run_pool(run, pid)
    run.trusted += COMMON_TRUST
    run.assumptions += COMMON_ASSUME
    absorb(run, recs)
    if run.pending_failures:
        from checks import c04
        c04.finish_failures(run, pid)
    if pid == 'C07':
        engine_crosscheck(run, tier)
    run.extra['decoders_explored'] = len(tabs)
    run.extra['paths_explored'] = sum(r.get('npaths', 0) for r in recs if r['name'].endswith('/total'))
    for r in recs[:3]:
        run.samples.append({k: r[k] for k in ('name', 'status', 'backend', 'function')})
