"""Sidecar data of the decoder schema contracts (DESIGN 3.5).

C09_NARROW: parameters that Darwin declares as 32-bit (`int`, `unsigned int`): the recorded 64-bit word
may be shown through its low 32 bits.  Every other numeric slot must render the full word (decimal,
hex, or two's-complement signed 64-bit)."""

C09_NARROW = {
    ('BSC_getrusage', 0): 's32',                     # int getrusage(int who, struct rusage *)
    ('MSC_semaphore_timedwait_trap', 1): 'u32',      # kern_return_t semaphore_timedwait_trap(name, unsigned int sec, clock_res_t nsec)
}

# C10: the property's own exemptions (cannot fail / do not return)
C10_EXEMPT = {
    'BSC_getpid', 'BSC_getuid', 'BSC_geteuid', 'BSC_getppid', 'BSC_getegid', 'BSC_getgid', 'BSC_getpgrp',
    'BSC_umask', 'BSC_sync', 'BSC_sys_getdtablesize', 'BSC_getlogin', 'BSC_execve', 'BSC_vfork',
    'BSC_bsdthread_create', 'BSC_abort_with_payload',
}

# END words a success value may be rendered from (default: the return word, values[1])
C10_RESULT_WORDS = {
    'BSC_pipe': (1, 2),
}

# C08: "path arguments equal to the looked-up paths, in lookup order": the k-th path a decoder shows is the k-th lookup of
# its window.  Two decoders take their paths from other positions for a reason the kernel gives, and only have to keep
# lookup order (strictly increasing positions):
C08_ORDER_ONLY = {
    'BSC_posix_spawn',      # file actions (stdin/stdout/stderr opens) are looked up before the executable's path
    'BSC_symlinkat',        # only the new path is resolved by the kernel (the link's contents is not): handler convention = last lookup
}

# C14: the records through which the dump declares which process a thread belongs to, and what each one declares when it is
# read (key, value of the update of parser.threads_pids; 'v<j>' = word j of the record, 'tid' = the emitting thread).
# From XNU: kdbg_trace_data(proc, &pid, &uniqueid); TRACE_DATA_NEWTHREAD(new thread id, pid, ...);
# TRACE_DATA_THREAD_TERMINATE_PID(pid, uniqueid) emitted by the terminating thread; PERF_TI_DATA(pid, tid, dq_addr, runmode).
C14_THREAD_DECLARATIONS = {
    'TRACE_DATA_NEWTHREAD': ('v0', 'v1'),
    'TRACE_DATA_THREAD_TERMINATE_PID': ('tid', 'v0'),
    'PERF_THD_Data': ('v1', 'v0'),
}
# the records that (re)name a process: the name record follows its data record on the same thread
C14_PROCESS_NAMINGS = {'TRACE_STRING_NEWTHREAD': 'last_data_newthread', 'TRACE_STRING_EXEC': 'last_data_exec'}

# C18: parameters that Darwin's headers give symbolic names to, by decoder and parameter position, and the table of names
# (from the syscall signatures: sigaction(int sig, ...), socket(int domain, int type, int protocol), socketpair(...)).
C18_NAMED_PARAMETERS = {
    ('BSC_sigaction', 0): 'Signals',
    ('BSC_socket', 0): 'AddressFamily', ('BSC_socket', 1): 'SocketKind',
    ('BSC_socketpair', 0): 'AddressFamily', ('BSC_socketpair', 1): 'SocketKind',
    ('BSC_socket_delegate', 0): 'AddressFamily', ('BSC_socket_delegate', 1): 'SocketKind',
}
C18_TABLES = {'Signals': 'SIGNALS', 'AddressFamily': 'ADDRESS_FAMILIES', 'SocketKind': 'SOCKET_TYPES'}       # class -> spec/darwin.py table
