"""C11 contracts: which function decodes which flag family, against which Darwin table (spec/darwin.py).

fields: multi-bit fields of the word (mask, {value: name}); zero: the name a zero word gets."""

FUNCTIONS = [
    # (module, function, enum class, spec table, fields spec name or None, zero name or None)
    ('bsd', 'serialize_open_flags', 'BscOpenFlags', 'OPEN_FLAGS', 'OPEN_ACCMODE', None),
    ('bsd', 'serialize_stat_flags', 'StatFlags', 'STAT_FLAGS', 'STAT_IFMT', None),
    ('bsd', 'serialize_access_flags', 'BscAccessFlags', 'ACCESS_FLAGS', None, 'F_OK'),
    ('mach', 'to_ast_reasons', 'AsynchronousSystemTrapsReason', 'AST_REASONS', None, 'AST_NONE'),
    ('mach', 'to_thread_state', 'ThreadState', 'THREAD_STATE', None, None),
    ('mach', 'to_vm_prot', 'VmProtection', 'VM_PROT', None, 'VM_PROT_NONE'),
    ('perf', 'to_sampler_action', 'SamplerAction', 'SAMPLER_ACTIONS', None, None),
    ('perf', 'to_kperf_ti_state', 'KperfTiState', 'KPERF_TI_STATE', None, None),
    ('perf', 'to_callstack_flags', 'CallstackFlag', 'CALLSTACK_FLAGS', None, None),
    ('dyld', 'to_rtld_flags', 'RtldFlag', 'RTLD_FLAGS', None, None),
]

# flag lists built inline in a decoder: (decoder name, result field, START word index, module, enum, spec table)
INLINE = [
    ('BSC_recvfrom', 'flags', 3, 'bsd', 'SocketMsgFlags', 'MSG_FLAGS'),
    ('BSC_chflags', 'flags', 1, 'bsd', 'BscChangeableFlags', 'FILE_FLAGS'),
    ('BSC_fchflags', 'flags', 1, 'bsd', 'BscChangeableFlags', 'FILE_FLAGS'),
    ('BSC_sys_flock', 'operation', 1, 'bsd', 'FlockOperation', 'LOCK_OPS'),
]

# names that are masks, not flags
MASK_NAMES = {'O_ACCMODE'}
