"""Contract of pykdebugparser.kevent:from_kd_buf (property C01).

Postconditions are taken from the property statement and from struct kd_buf (spec/kdebug.py), not
from the implementation: offsets, widths and byte order are written here independently.
Each clause is a Python expression over `kd_buf` (64 symbolic bytes) and `result`."""

FUNCTION = 'pykdebugparser.kevent:from_kd_buf'
SPEC = ['spec.kdebug']

REQUIRES = ['len(kd_buf) == 64']

ENSURES = {
    'timestamp': 'result.timestamp == le(kd_buf[0:8])',
    'data': 'result.data == kd_buf[8:40]',
    'values.len': 'len(result.values) == 4',
    'values.0': 'result.values[0] == le(kd_buf[8:16])',
    'values.1': 'result.values[1] == le(kd_buf[16:24])',
    'values.2': 'result.values[2] == le(kd_buf[24:32])',
    'values.3': 'result.values[3] == le(kd_buf[32:40])',
    'values.of.data': 'all(result.values[i] == le(result.data[8 * i:8 * i + 8]) for i in range(4))',
    'tid': 'result.tid == le(kd_buf[40:48])',
    'debugid': 'result.debugid == le(kd_buf[48:52])',
    'eventid': 'result.eventid == spec_eventid(le(kd_buf[48:52]))',
    'qualifier': 'result.func_qualifier == spec_qualifier(le(kd_buf[48:52]))',
    'qualifier.range': '0 <= result.func_qualifier and result.func_qualifier <= 3',
    'reassemble.or': '(result.eventid | result.func_qualifier) == result.debugid',
    'reassemble.low_bits_clear': 'result.eventid & 3 == 0',
    'rebuild52': 'pack_kd_buf52(result) == kd_buf[0:52]',
    'shape': 'len(result) == 7',
}

# non-interference: output field -> byte range of the record it may depend on
FIELD_RANGES = {
    'timestamp': (0, 8),
    'data': (8, 40),
    'values': (8, 40),
    'tid': (40, 48),
    'debugid': (48, 52),
    'eventid': (48, 52),
    'func_qualifier': (48, 52),
}
