"""Contracts of pykdebugparser.traces_parser (properties C04, C07, C19; used by C05, C13).

Abstract view of a pairing table S:  view(S)[t][c] = list of events (absent = closed), encoded by
pyvc.heap.Snap (tdom, cdom, ln, el).  An event e is identified by its history id n; t = e.tid,
c = e.eventid.  Every clause below is a separately named obligation."""
import z3

from pyvc.heap import Snap, I

T = z3.Int('q!t')
C = z3.Int('q!c')
J = z3.Int('q!j')


def appended(S0, S1, t, c, n):
    """view1[t][c] == view0[t][c] ++ [n]"""
    return z3.And(S1.length(t, c) == S0.length(t, c) + 1,
                  S1.row_el(t, c) == z3.Store(S0.row_el(t, c), S0.length(t, c), n))


def same_list(S0, S1, t, c):
    return z3.And(S1.length(t, c) == S0.length(t, c), S1.row_el(t, c) == S0.row_el(t, c))


def other_threads_unchanged(S0, S1, t):
    return z3.ForAll([T], z3.Implies(T != t, z3.And(
        z3.Select(S1.tdom, T) == z3.Select(S0.tdom, T),
        z3.Select(S1.cdom, T) == z3.Select(S0.cdom, T),
        z3.Select(S1.ln, T) == z3.Select(S0.ln, T),
        z3.Select(S1.el, T) == z3.Select(S0.el, T))))


def wf(S):
    """state invariant: every open window holds at least one event (its START)"""
    return z3.ForAll([T, C], z3.Implies(S.is_open(T, C), S.length(T, C) >= 1))


# ------------------------------------------------------------------ loop invariant of the three key loops
def inv_append_all(entry, cur, i, enum, t, n):
    """`for code in state[t]: state[t][code].append(e)` after i keys of an arbitrary enumeration:
    the domains are those at loop entry; exactly the first i keys have e appended; the rest is untouched."""
    cd0 = z3.Select(entry.cdom, t)
    done = lambda c: z3.And(z3.Select(cd0, c), enum.kpos(c) < i)
    return [
        ('tdom', cur.tdom == entry.tdom),
        ('cdom', cur.cdom == entry.cdom),
        ('other-threads', other_threads_unchanged(entry, cur, t)),
        ('done', z3.ForAll([C], z3.Implies(done(C), appended(entry, cur, t, C, n)))),
        ('todo', z3.ForAll([C], z3.Implies(z3.Not(done(C)), same_list(entry, cur, t, C)))),
    ]


# ------------------------------------------------------------------ operation postconditions
def post_start(S0, S1, t, c, n):
    open0 = lambda cc: S0.is_open(t, cc)
    return [
        ('start.thread-known', z3.ForAll([T], z3.Select(S1.tdom, T) == z3.Or(z3.Select(S0.tdom, T), T == t))),
        ('start.window-is-the-start', z3.And(S1.is_open(t, c), S1.length(t, c) == 1, S1.elem(t, c, 0) == n)),
        ('start.other-codes-open-status', z3.ForAll([C], z3.Implies(C != c, S1.is_open(t, C) == open0(C)))),
        ('start.other-open-codes-appended', z3.ForAll([C], z3.Implies(z3.And(C != c, open0(C)), appended(S0, S1, t, C, n)))),
        ('start.other-threads-unchanged', other_threads_unchanged(S0, S1, t)),
        ('start.wf', z3.Implies(wf(S0), wf(S1))),
    ]


def post_end_open(S0, S1, t, c, n, arr, ln):
    """case view0[t][c] open; (arr, ln) is the list handed to parse_event_list"""
    open0 = lambda cc: S0.is_open(t, cc)
    return [
        ('end.delivers-window-plus-end', z3.And(ln == S0.length(t, c) + 1, z3.Select(arr, S0.length(t, c)) == n,
                                               z3.ForAll([J], z3.Implies(z3.And(J >= 0, J < S0.length(t, c)),
                                                                         z3.Select(arr, J) == S0.elem(t, c, J))))),
        ('end.code-closed', z3.Not(S1.is_open(t, c))),
        ('end.thread-known', S1.tdom == S0.tdom),
        ('end.other-codes-open-status', z3.ForAll([C], z3.Implies(C != c, S1.is_open(t, C) == open0(C)))),
        ('end.other-open-codes-appended', z3.ForAll([C], z3.Implies(z3.And(C != c, open0(C)), appended(S0, S1, t, C, n)))),
        ('end.other-threads-unchanged', other_threads_unchanged(S0, S1, t)),
        ('end.wf', z3.Implies(wf(S0), wf(S1))),
    ]


def post_unchanged(S0, S1):
    return [('end.stray-changes-nothing', z3.And(S1.tdom == S0.tdom, S1.cdom == S0.cdom, S1.ln == S0.ln, S1.el == S0.el))]


def single_is_continuation(S0, t, c, qual):
    """a NONE-qualified record whose own code is open on its thread continues a split path / string (C08):
    it is collected like any other record but reported only with the last record"""
    return z3.And(qual == 0, S0.is_open(t, c))


def post_single(S0, S1, t, n):
    open0 = lambda cc: S0.is_open(t, cc)
    return [
        ('single.thread-known', S1.tdom == S0.tdom),
        ('single.open-status', z3.ForAll([C], S1.is_open(t, C) == open0(C))),
        ('single.open-codes-appended', z3.ForAll([C], z3.Implies(open0(C), appended(S0, S1, t, C, n)))),
        ('single.other-threads-unchanged', other_threads_unchanged(S0, S1, t)),
        ('single.wf', z3.Implies(wf(S0), wf(S1))),
    ]
