"""Parsing semantics of the `construct` declarations used by the repository (assumed contracts, read off
construct 2.10.70's _parse methods), interpreted over the *real declaration trees* extracted from the
source and the symbolic reader of pyvc.stream.

  IntNNul / Byte   read n bytes (StreamError if fewer are left), little-endian value
  Padding(n)       read n bytes
  Bytes(n)         read n bytes, value = the slice
  Const(v, sub)    parse sub; ConstError if != v
  Struct           fields in order; named values into a Container; lambdas receive the Container so far
  Array(c, sub)    c times sub (sub of fixed size here); RangeError for a negative count
  GreedyRange(sub) repeat sub until it fails; the failed attempt is undone (stream seeks back)
  FixedSized(n, CString('utf8'))  read n bytes; text up to the first NUL (fails without NUL / invalid text)
  Prefixed(Int64ul, sub)          read the length, then parse sub on exactly that many bytes
  GreedyBytes      the rest of the (sub)stream
  Aligned(m, sub)  parse sub, then read (-consumed) % m bytes
  Select(a, b)     first alternative that parses (the stream is rewound on failure)
  Adapter subclass parse its sub-construct, then the class's own _decode(obj, ctx, path) (real code)"""
import z3

from .values import *  # noqa
from .construct_sem import CDecl
from .stream import FBytes, Reader, FileModel, AII

I = z3.IntSort()
Bsort = z3.BoolSort()

ElemOK = z3.Function('construct.entry_ok', AII, I, Bsort)      # a fixed-size text entry at this offset parses
CStrOf = z3.Function('construct.cstring', AII, I, I, I)        # (file, offset, n) -> string atom

INT_SIZES = {'Int8ul': 1, 'Int16ul': 2, 'Int32ul': 4, 'Int64ul': 8, 'Byte': 1}


def need(it, reader, n, node=None):
    # ghost count of the bytes the stream hands out: n, or whatever is left when the read comes up short (construct reads
    # what there is and fails afterwards)
    avail = reader.end() - reader.pos
    nt = n if not isinstance(n, int) else z3.IntVal(n)
    got = z3.If(reader.pos + nt > reader.end(), z3.If(avail > 0, avail, 0), nt)
    reader._write('nbytes', z3.simplify(getattr(reader, 'nbytes', z3.IntVal(0)) + got))
    it.raise_if(reader.pos + n > reader.end(), 'StreamError', 'stream-eof', node)


def static_size(d):
    """size in bytes of a fixed-size declaration, or None"""
    if isinstance(d, Obj):
        return None
    k = d.kind
    if k in INT_SIZES:
        return INT_SIZES[k]
    if k in ('Padding', 'Bytes', 'FixedSized'):
        n = d.args[0]
        return n if isinstance(n, int) else None
    if k == 'Const':
        return static_size(d.args[1]) if len(d.args) > 1 else (len(d.args[0]) if isinstance(d.args[0], bytes) else None)
    if k == 'Struct':
        tot = 0
        for s in d.args:
            z = static_size(s)
            if z is None:
                return None
            tot += z
        return tot
    return None


def container(it, fields):
    cls = ClassVal('Container', None, 'plain')
    return Obj(cls, fields)


def text_offset(d):
    """offset of the (first) fixed-size text field inside a fixed-size declaration"""
    if isinstance(d, Obj):
        return None
    if d.kind == 'FixedSized':
        return 0
    if d.kind == 'Struct':
        off = 0
        for s in d.args:
            r = text_offset(s)
            if r is not None:
                return off + r
            off += static_size(s) or 0
    return None


def has_text_entry(d):
    if isinstance(d, Obj):
        return False
    if d.kind == 'FixedSized':
        return True
    if d.kind == 'Struct':
        return any(has_text_entry(s) for s in d.args)
    return False


def parse(it, d, reader, ctxobj=None, node=None):
    """parse declaration d at the reader's position; returns the value"""
    if isinstance(d, Obj):
        return parse_adapter(it, d, reader, ctxobj, node)
    k = d.kind
    f = reader.file
    if k in INT_SIZES:
        n = INT_SIZES[k]
        need(it, reader, n, node)
        v = f.le(reader.pos, n)
        reader._write('pos', z3.simplify(reader.pos + n))
        t = z3.Int(it.ctx.fresh('int'))
        it.ctx.facts.append(t == v)
        it.ctx.declare_range(t, 0, (1 << (8 * n)) - 1)
        return SInt(t)
    if k == 'Padding':
        n = d.args[0]
        need(it, reader, n, node)
        reader._write('pos', z3.simplify(reader.pos + n))
        return None
    if k == 'Bytes':
        n = d.args[0]
        if isinstance(n, (FuncVal, Builtin)):
            n = it.call(n, [ctxobj], {}, node)          # length given as a function of the fields parsed so far
        if not isinstance(n, int):
            if not is_intlike(n):
                raise Unsupported('Bytes length %s' % type(n).__name__)
            n = zi(n)
        need(it, reader, n, node)
        b = FBytes(f, reader.pos, n)
        reader._write('pos', z3.simplify(reader.pos + n))
        return b
    if k == 'Const':
        if len(d.args) == 1 and isinstance(d.args[0], bytes):
            want = d.args[0]
            need(it, reader, len(want), node)
            b = FBytes(f, reader.pos, len(want))
            reader._write('pos', z3.simplify(reader.pos + len(want)))
            it.raise_if(z3.Not(b.equals_const(want)), 'ConstError', 'const-mismatch', node)
            return want
        want, sub = d.args[0], d.args[1]
        v = parse(it, sub, reader, ctxobj, node)
        e = it.lib.values_equal(it, v, want)
        it.raise_if(z3.Not(e) if not isinstance(e, bool) else (not e), 'ConstError', 'const-mismatch', node)
        return want
    if k == 'Struct':
        fields = {}
        c = container(it, fields)
        for s in d.args:
            v = parse(it, s, reader, c, node)
            nm = s.fields.get('$name') if isinstance(s, Obj) else s.name
            if nm is not None:
                c.fields[nm] = v
        return c
    if k == 'Array':
        count, sub = d.args
        if isinstance(count, (FuncVal, BoundMethod, Builtin)):
            count = it.call(count, [ctxobj], {})
        ct = zi(count)
        it.raise_if(ct < 0, 'RangeError', 'array-count', node)
        S = static_size(sub)
        if S is None:
            raise Unsupported('Array of variable-size elements')
        start = reader.pos
        need(it, reader, S * ct, node)
        if has_text_entry(sub):
            j = z3.Int(it.ctx.fresh('j'))
            bad = z3.Exists([j], z3.And(j >= 0, j < ct, z3.Not(ElemOK(f.F, start + S * j + text_offset(sub)))))
            it.raise_if(bad, 'StreamError', 'entry-text', node)
        reader._write('pos', z3.simplify(start + S * ct))
        lst = SymList(it.ctx.fresh('array'), ct, lambda q, start=start: parse_at(it, sub, f, z3.simplify(start + S * q)),
                      origin=('construct-array', start, S))
        return lst
    if k == 'GreedyRange':
        return parse_greedy(it, d, reader, ctxobj, node)
    if k == 'FixedSized':
        n, sub = d.args
        need(it, reader, n, node)
        start = reader.pos
        reader._write('pos', z3.simplify(start + n))
        if getattr(sub, 'kind', None) == 'CString':
            it.raise_if(z3.Not(ElemOK(f.F, start)), 'StreamError', 'entry-text', node)
            return atom_str(CStrOf(f.F, start, z3.IntVal(n)))
        raise Unsupported('FixedSized(%s)' % getattr(sub, 'kind', '?'))
    if k == 'Prefixed':
        lf, sub = d.args
        L = parse(it, lf, reader, ctxobj, node)
        Lt = zi(L)
        need(it, reader, Lt, node)
        start = reader.pos
        inner = Reader(f, start)
        inner.limit = z3.simplify(start + Lt)
        v = parse(it, sub, inner, ctxobj, node)
        reader._write('pos', z3.simplify(start + Lt))
        return v
    if k == 'GreedyBytes':
        start = reader.pos
        n = z3.simplify(reader.end() - start)
        reader._write('pos', reader.end())
        return FBytes(f, start, z3.If(n > 0, n, 0))
    if k == 'Aligned':
        m, sub = d.args
        start = reader.pos
        v = parse(it, sub, reader, ctxobj, node)
        consumed = reader.pos - start
        pad = z3.simplify((-consumed) % m)
        need(it, reader, pad, node)
        reader._write('pos', z3.simplify(reader.pos + pad))
        return v
    if k == 'Select':
        last = None
        for alt in d.args:
            save = reader.pos
            try:
                return parse(it, alt, reader, ctxobj, node)
            except PyExc as e:
                if e.cls_name == 'ExplicitError':      # construct: Select swallows every exception of an alternative but this one
                    raise
                reader._write('pos', save)
                last = e
        raise PyExc('SelectError', 'no alternative parsed', site=getattr(last, 'site', None), kind='select')
    if k == 'BitStruct':
        return parse_bitstruct(it, d, reader, node)
    if k == 'Computed':
        v = d.args[0] if d.args else None
        if isinstance(v, (int, str, bytes, bool, type(None))):
            return v                   # a constant: nothing is read
        raise Unsupported('Computed(<function>)')
    raise Unsupported('construct %s' % k)


def parse_at(it, d, f, off):
    """value of a fixed-size declaration at a given offset (no reader; bounds were checked by the caller)"""
    r = Reader(f, off)
    r.limit = None
    r_end = f.N
    # element parses inside bounds already checked: disable the eof raise by giving an unbounded limit
    r.limit = z3.simplify(off + (static_size(d) or 0))
    return parse(it, d, r)


def parse_greedy(it, d, reader, ctxobj, node):
    sub = d.args[0]
    f = reader.file
    ctx = it.ctx
    if getattr(sub, 'kind', None) == 'Const' and getattr(sub.args[1], 'kind', None) == 'Byte' and sub.args[0] == 0:
        # GreedyRange(Const(0, Byte)): consume zero bytes up to the first non-zero byte or the end
        p0 = reader.pos
        p1 = z3.Int(ctx.fresh('pad_end'))
        i = z3.Int(ctx.fresh('i'))
        ctx.facts.append(z3.And(p1 >= p0, z3.Or(p1 <= reader.end(), p1 == p0),
                                z3.ForAll([i], z3.Implies(z3.And(i >= p0, i < p1), f.byte(i) == 0)),
                                z3.Implies(z3.And(p1 < reader.end(), p1 >= p0), f.byte(p1) != 0),
                                z3.Implies(p0 >= reader.end(), p1 == p0)))
        reader._write('pos', p1)
        ctx.notes.setdefault('greedy_pad', []).append((p0, p1))
        return SymList(ctx.fresh('zeros'), z3.simplify(p1 - p0), lambda q: 0, origin='zero-padding')
    S = static_size(sub)
    if S is not None:
        # fixed-size elements: as many as parse; the first failing attempt is undone
        p0 = reader.pos
        cnt = z3.Int(ctx.fresh('greedy_n'))
        j = z3.Int(ctx.fresh('j'))
        ctx.facts.append(z3.And(cnt >= 0, p0 + S * cnt <= z3.If(reader.end() > p0, reader.end(), p0)))
        if has_text_entry(sub):
            r_ = text_offset(sub)
            ctx.facts.append(z3.ForAll([j], z3.Implies(z3.And(j >= 0, j < cnt), ElemOK(f.F, p0 + S * j + r_))))
            ctx.facts.append(z3.Or(p0 + S * (cnt + 1) > reader.end(), z3.Not(ElemOK(f.F, p0 + S * cnt + r_))))
        else:
            ctx.facts.append(p0 + S * (cnt + 1) > reader.end())
        reader._write('pos', z3.simplify(p0 + S * cnt))
        ctx.notes.setdefault('greedy_fixed', []).append((p0, cnt, S))
        return SymList(ctx.fresh('greedy'), cnt, lambda q, p0=p0: parse_at(it, sub, f, z3.simplify(p0 + S * q)),
                       origin=('construct-array', p0, S))
    hook = getattr(it, 'greedy_hook', None)
    if hook is not None:
        return hook(it, d, reader, ctxobj, node)
    raise Unsupported('GreedyRange of variable-size elements needs a loop contract')


def parse_adapter(it, d, reader, ctxobj, node):
    """instance of a repository subclass of construct.Adapter: sub-construct, then the real _decode"""
    args = d.fields.get('$args', ())
    if not args:
        raise Unsupported('adapter without sub-construct')
    obj = parse(it, args[0], reader, ctxobj, node)
    dec = d.cls.lookup('_decode')
    if dec is MISSING:
        raise Unsupported('adapter without _decode')
    return it.call(dec, [d, obj, ctxobj, None], {})


def parse_bitstruct(it, d, reader, node):
    """BitStruct of Padding / Flag / BitsInteger fields, most significant bit first, whole bytes"""
    total = 0
    for s in d.args:
        total += bit_width(s)
    if total % 8:
        raise Unsupported('BitStruct not a whole number of bytes')
    n = total // 8
    need(it, reader, n, node)
    f = reader.file
    val = z3.Sum([f.byte(reader.pos + k) * (1 << (8 * (n - 1 - k))) for k in range(n)])   # big-endian bit order
    direct = None
    if isinstance(f, BuiltFile) and n == 1 and z3.is_int_value(z3.simplify(reader.pos)):
        # one byte of build(v) at offset o: bit field (shift, width) of it is (v div 2^(8o+shift)) mod 2^width
        direct = 8 * z3.simplify(reader.pos).as_long()
    reader._write('pos', z3.simplify(reader.pos + n))
    fields = {}
    shift = total
    for s in d.args:
        w = bit_width(s)
        shift -= w
        if s.kind == 'Padding':
            continue
        piece = (val / (1 << shift)) % (1 << w) if direct is None else f.field(direct + shift, w)
        if s.kind == 'Flag':
            fields[s.name] = mk_bool(piece != 0)
        else:
            fields[s.name] = mk_int(piece)
    return container(it, fields)


def bit_width(s):
    if s.kind == 'Padding':
        return s.args[0]
    if s.kind == 'Flag':
        return 1
    if s.kind == 'BitsInteger':
        return s.args[0]
    raise Unsupported('bit field %s' % s.kind)


# ------------------------------------------------------------------------------ methods of declarations
def decl_getattr(it, d, name, node=None):
    if name == 'parse_stream':
        def ps(it_, a, k, n):
            r = a[0]
            if not isinstance(r, Reader):
                raise Unsupported('parse_stream on %s' % type(r).__name__)
            return parse(it, d, r, None, n)
        return Builtin('construct.parse_stream', ps)
    if name == 'parse':
        def p(it_, a, k, n):
            data = a[0]
            if isinstance(data, BuiltInt):
                return parse_built(it, d, data, n)
            raise Unsupported('parse of %s' % type(data).__name__)
        return Builtin('construct.parse', p)
    if name == 'build':
        def b(it_, a, k, n):
            if getattr(d, 'kind', None) in INT_SIZES:
                v = a[0]
                size = INT_SIZES[d.kind]
                it.raise_if(z3.Or(zi(v) < 0, zi(v) >= (1 << (8 * size))), 'FormatFieldError', 'build-range', n)
                return BuiltInt(zi(v), size)
            raise Unsupported('build of %s' % getattr(d, 'kind', '?'))
        return Builtin('construct.build', b)
    if name == 'sizeof':
        return Builtin('construct.sizeof', lambda it_, a, k, n: static_size(d))
    raise Unsupported('construct method %s' % name)


class BuiltInt:
    """bytes produced by IntNul.build(v): the little-endian encoding of v"""

    def __init__(self, v, size):
        self.v = v
        self.size = size


class BuiltFile:
    """the bytes of IntNul.build(v): byte i is (v div 256^i) mod 256; a little-endian field of n bytes at a concrete
    offset o is (v div 256^o) mod 256^n (exact, no byte recomposition needed)"""

    def __init__(self, v, size, it=None):
        self.v = v
        self.N = z3.IntVal(size)
        self.F = None
        self.it = it

    def field(self, shift, width):
        """(v div 2^shift) mod 2^width; linear when v is declared digit-wise (libops.divmod_const)"""
        from .libops import divmod_const
        if self.it is None:
            return (self.v / (1 << shift)) % (1 << width)
        q = divmod_const(self.it, self.v, 1 << shift)[0] if shift else self.v
        return divmod_const(self.it, q, 1 << width)[1]

    def byte(self, i):
        i = z3.simplify(i) if not isinstance(i, int) else z3.IntVal(i)
        if not z3.is_int_value(i):
            raise Unsupported('symbolic offset into built bytes')
        return self.field(8 * i.as_long(), 8)

    def le(self, off, n):
        off = z3.simplify(off) if not isinstance(off, int) else z3.IntVal(off)
        if not z3.is_int_value(off):
            raise Unsupported('symbolic offset into built bytes')
        return self.field(8 * off.as_long(), 8 * n)


def parse_built(it, d, data, node):
    """parse a declaration out of IntNul.build(v): the file is the little-endian bytes of v"""
    r = Reader(BuiltFile(data.v, data.size, it), 0)
    return parse(it, d, r, None, node)


CDecl.py_getattr = lambda self, it, name, node=None: decl_getattr(it, self, name, node)
