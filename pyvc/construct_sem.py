"""construct declarations as trees (CDecl).  Parsing semantics (assumed contracts read off
construct 2.10.70's _parse methods) live in construct_parse.py and interpret these trees."""
import z3

from .values import *  # noqa


class CDecl:
    construct_decl = True

    def __init__(self, kind, args=(), kwargs=None, name=None):
        self.kind = kind
        self.args = tuple(args)
        self.kwargs = kwargs or {}
        self.name = name

    def renamed(self, name):
        return CDecl(self.kind, self.args, self.kwargs, name)

    def __repr__(self):
        return 'CDecl(%s%s)' % (self.kind, '' if self.name is None else ' as ' + self.name)


ATOMS = ['Int8ul', 'Int16ul', 'Int32ul', 'Int64ul', 'Int8ub', 'Int16ub', 'Int32ub', 'Int64ub', 'Byte', 'GreedyBytes',
         'Flag', 'Pass']
COMBINATORS = ['Struct', 'Const', 'Padding', 'Array', 'GreedyRange', 'FixedSized', 'CString', 'Prefixed', 'Aligned',
               'Bytes', 'Select', 'BitStruct', 'BitsInteger', 'Padded', 'Enum', 'Switch', 'Optional', 'Computed',
               'PaddedString', 'Hex']


def install(it, m):
    from . import construct_parse  # noqa: installs the parse methods on CDecl
    for a in ATOMS:
        m.ns[a] = CDecl(a)
    for c in COMBINATORS:
        m.ns[c] = Builtin('construct.' + c, (lambda kind: lambda it_, args, kw, n: CDecl(kind, args, kw))(c))
    def struct_(it_, args, kw, n):
        # Struct(name=subcon, ...): keyword subcons are the named subcons 'name' / subcon, after the positional ones, in order
        subs = list(args)
        for name, sub in kw.items():
            if isinstance(sub, CDecl):
                subs.append(sub.renamed(name))
            elif isinstance(sub, Obj):
                sub.fields['$name'] = name
                subs.append(sub)
            else:
                raise Unsupported('Struct keyword subcon %s' % type(sub).__name__)
        return CDecl('Struct', subs, {})
    m.ns['Struct'] = Builtin('construct.Struct', struct_)

    class ThisExpr:
        """construct's `this`: this.name is the function of the context that reads the field `name` parsed so far"""

        def py_getattr(self, it_, name, node=None):
            from . import libattr
            return Builtin('this.' + name, lambda it2, a, k, n, name=name: libattr.getattr_(it2, a[0], name, n))
    m.ns['this'] = ThisExpr()
    ad = ClassVal('Adapter', m, 'stub')
    m.ns['Adapter'] = ad
    m.ns['Container'] = ClassVal('Container', m, 'plain')
