"""construct declarations as trees (CDecl).  Parsing semantics (assumed contracts read off
construct 2.10.70's _parse methods) live in construct_parse.py and interpret these trees."""
import z3

from .values import *  # noqa


class CDecl:
    construct_decl = True

    def __init__(self, kind, args=(), kwargs=None, name=None):
        self.kind = kind
        self.args = tuple(args)
        self.kwargs = kwargs or {}
        self.name = name

    def renamed(self, name):
        return CDecl(self.kind, self.args, self.kwargs, name)

    def __repr__(self):
        return 'CDecl(%s%s)' % (self.kind, '' if self.name is None else ' as ' + self.name)


ATOMS = ['Int8ul', 'Int16ul', 'Int32ul', 'Int64ul', 'Int8ub', 'Int16ub', 'Int32ub', 'Int64ub', 'Byte', 'GreedyBytes',
         'Flag', 'Pass']
COMBINATORS = ['Struct', 'Const', 'Padding', 'Array', 'GreedyRange', 'FixedSized', 'CString', 'Prefixed', 'Aligned',
               'Bytes', 'Select', 'BitStruct', 'BitsInteger', 'Padded', 'Enum', 'Switch', 'Optional', 'Computed',
               'PaddedString', 'Hex', 'this']


def install(it, m):
    from . import construct_parse  # noqa: installs the parse methods on CDecl
    for a in ATOMS:
        m.ns[a] = CDecl(a)
    for c in COMBINATORS:
        m.ns[c] = Builtin('construct.' + c, (lambda kind: lambda it_, args, kw, n: CDecl(kind, args, kw))(c))
    ad = ClassVal('Adapter', m, 'stub')
    m.ns['Adapter'] = ad
    m.ns['Container'] = ClassVal('Container', m, 'plain')
