"""Engine cross-check (translation validation of the encoder): for sampled models of explored decoder paths the
symbolic result (token sequence) is evaluated under the model and compared with what the *real* decoder prints
on the concretised input in the child interpreter.  A mismatch means the engine is unsound (exit 3) - it says
nothing about the repository."""
import z3

from .values import *  # noqa
from . import decoders, solve, libattr
from .report import native


class Skip(Exception):
    pass


def _int(model, t):
    v = model.eval(t, model_completion=True)
    try:
        return v.as_long()
    except Exception:
        raise Skip('non-integer value')


def _bool(model, t):
    if t is True:
        return True
    return z3.is_true(model.eval(t, model_completion=True))


def atom_text(model, t, path_names):
    """string denoted by an atom term under the model (only shapes whose concrete value the replay fixes)"""
    ts = z3.simplify(t)
    if z3.is_app(ts) and ts.decl().kind() == z3.Z3_OP_UNINTERPRETED and ts.num_args() == 1:
        nm = ts.decl().name()
        if nm.endswith('.path') and nm.startswith('lk'):
            j = _int(model, ts.arg(0))
            return path_names.get((nm.split('.')[0], j), 'p%d' % j)
    if z3.is_app(ts) and ts.decl().kind() == z3.Z3_OP_ITE:
        return atom_text(model, ts.arg(1) if _bool(model, ts.arg(0)) else ts.arg(2), path_names)
    v = model.eval(ts, model_completion=True)
    if z3.is_int_value(v):
        names = [n for n in decoders.z3_vars(ts)]
        if all(n.startswith('p.') for n in names) or not names:
            k = v.as_long()
            s = interned(k)
            return s if s is not None else 'S%d' % (k % 100000)
    raise Skip('opaque string atom')


def eval_tokens(model, toks, path_names):
    out = ''
    for tk in toks:
        k = tk[0]
        if k == 'lit':
            out += tk[1]
        elif k == 'dec':
            out += str(_int(model, tk[1]))
        elif k == 'hex':
            v = _int(model, tk[1])
            out += hex(v)
        elif k == 'hexraw':
            out += format(_int(model, tk[1]), 'x')
        elif k == 'hexpad':
            out += format(_int(model, tk[1]), '0%dx' % tk[2])
        elif k == 'ename':
            v = _int(model, tk[2])
            cls = tk[1]
            name = None
            for n, mv in cls.canonical_members():
                if mv == v:
                    name = n
            if name is None:
                raise Skip('enum value without a name')
            out += name
        elif k == 'atom':
            out += atom_text(model, tk[1], path_names)
        elif k == 'cond':
            out += eval_tokens(model, to_sstr(tk[2] if _bool(model, tk[1]) else tk[3]).toks, path_names)
        elif k == 'join':
            parts = [eval_tokens(model, to_sstr(s).toks, path_names) for g, s in tk[2] if _bool(model, g)]
            out += tk[1].join(parts)
        elif k == 'pad':
            inner = eval_tokens(model, to_sstr(tk[1]).toks, path_names)
            out += format(inner, '%s%d' % (tk[3], tk[2]))
        elif k == 'lower':
            out += eval_tokens(model, to_sstr(tk[1]).toks, path_names).lower()
        elif k == 'opaque' and tk[1] == 'chr':
            out += chr(_int(model, tk[2][0]))
        else:
            raise Skip('token %s' % k)
    return out


def crosscheck_decoder(sess, name, handler, samples_per_path=1, seed=0):
    """returns (compared, skipped, mismatches[list of dict])"""
    paths = decoders.explore_decoder(sess, name, handler)
    compared = skipped = 0
    mism = []
    for pi, s in enumerate(paths):
        if s.outcome != 'return' or s.text is None:
            continue
        for k in range(samples_per_path):
            extra = []
            w = s.window
            # spread the samples: pseudo-random low bits for the START words
            for j in range(4):
                extra.append(z3.Select(w.v[j], 0) % 7 == (seed + 3 * j + k + pi) % 7)
            # the replay gives every lookup a non-empty path ("p<j>"): say so in the model
            for tag, arg, lst in s.lookups:
                for key, el in list(lst.cache.items()):
                    pth = getattr(el, 'fields', {}).get('path') if isinstance(el, Obj) else None
                    if isinstance(pth, SStr) and pth.toks and pth.toks[0][0] == 'atom':
                        extra.append(StrNonEmpty(pth.toks[0][1]))
            req, model = decoders.concretize(s, extra)
            if req is None:
                req, model = decoders.concretize(s)
            if req is None:
                skipped += 1
                continue
            path_names = {}
            for tag, arg, lst in s.lookups:
                for j in range(8):
                    path_names[(tag, j)] = 'p%d' % j
            try:
                want = eval_tokens(model, to_sstr(s.text).toks if not isinstance(s.text, str) else [('lit', s.text)], path_names)
            except Skip:
                skipped += 1
                continue
            out = native(dict(req, kind='decoder'))
            if out.get('raised') is not None or out.get('text') is None:
                mism.append({'decoder': name, 'engine': want, 'native': out.get('raised'), 'request': req})
                continue
            compared += 1
            if out['text'] != want:
                mism.append({'decoder': name, 'engine': want, 'native': out['text'], 'request': req})
    return compared, skipped, mism
