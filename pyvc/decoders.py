"""Symbolic execution of the table-registered decoders (handlers) and their __str__ over a symbolic
window and a symbolic parser state: the *path summaries* every decoder-schema contract is stated over.

Window = what TracesParser guarantees to a decoder (contract proved in C04): a non-empty list of
same-thread events; either one NONE/ALL-qualified event, or events[0] a START and events[-1] an END of
the same code; the code's name under the parser's code table is the decoder's registered name."""
import z3

from .values import *  # noqa
from . import libattr, libstubs
from .interp import DefaultPolicy
from .libops import to_str

I = z3.IntSort()
B = z3.BoolSort()
W64 = (1 << 64) - 1
TABLE_MODULES = ['bsd', 'dyld', 'fsystem', 'mach', 'perf', 'trace', 'turnstile']


def z3_vars(t, acc=None):
    """names of the uninterpreted constants / functions / arrays occurring in a term."""
    if acc is None:
        acc = set()
    seen = set()
    stack = [t]
    while stack:
        x = stack.pop()
        if x.get_id() in seen:
            continue
        seen.add(x.get_id())
        if z3.is_app(x):
            d = x.decl()
            if d.kind() == z3.Z3_OP_UNINTERPRETED:
                acc.add(d.name())
            stack.extend(x.children())
        elif z3.is_quantifier(x):
            stack.append(x.body())
    return acc


class Window:
    """events: SymList over arrays indexed by position in the window."""

    def __init__(self, it, ctx, tag='w'):
        self.it = it
        self.ctx = ctx
        self.tag = tag
        self.kevent_cls = it.repo.import_module('pykdebugparser.kevent').ns['Kevent']
        self.length = z3.Int(tag + '.len')
        ctx.facts.append(self.length >= 1)
        self.tid = z3.Int(tag + '.tid')
        ctx.declare_range(self.tid, 0, W64)
        self.ts = z3.Array(tag + '.ts', I, I)
        self.v = [z3.Array('%s.v%d' % (tag, j), I, I) for j in range(4)]
        self.eid = z3.Array(tag + '.eid', I, I)
        self.fq = z3.Array(tag + '.fq', I, I)
        self.data = z3.Array(tag + '.data', I, I)
        self.events = SymList(tag + '.events', self.length, self.make_event, origin='window')
        self.events.contains_fn = None
        self.made = {}

    def make_event(self, i):
        i = z3.simplify(i)
        key = i.sexpr()
        if key in self.made:
            return self.made[key]
        ctx = self.ctx
        ts = z3.Select(self.ts, i)
        ctx.declare_range(ts, 0, W64)
        vals = []
        for j in range(4):
            t = z3.Select(self.v[j], i)
            ctx.declare_range(t, 0, W64)
            vals.append(SInt(t))
        eid = z3.Select(self.eid, i)
        ctx.declare_range(eid, 0, (1 << 32) - 4)
        ctx.facts.append(eid % 4 == 0)
        fq = z3.Select(self.fq, i)
        ctx.declare_range(fq, 0, 3)
        data = OBytes(z3.Select(self.data, i), origin=('event-data', self, i))
        ctx.facts.append(libattr.BLen(data.t) == 32)
        ev = Obj(self.kevent_cls, {'timestamp': SInt(ts), 'data': data, 'values': tuple(vals), 'tid': SInt(self.tid),
                                   'debugid': mk_int(eid + fq), 'eventid': SInt(eid), 'func_qualifier': SInt(fq)})
        ev.index = i
        ev.window = self
        self.made[key] = ev
        return ev

    def assume_shape(self, name_atom, trace_codes):
        """the window shape TracesParser guarantees (see module docstring)."""
        ctx = self.ctx
        L = self.length
        e0 = z3.Select(self.eid, 0)
        f0 = z3.Select(self.fq, 0)
        fl = z3.Select(self.fq, L - 1)
        el = z3.Select(self.eid, L - 1)
        ctx.facts.append(z3.Or(z3.And(L == 1, z3.Or(f0 == 0, f0 == 3)),
                               z3.And(L >= 2, f0 == 1, fl == 2, el == e0)))
        ctx.facts.append(z3.Select(trace_codes.dom, e0))
        ctx.facts.append(z3.Select(trace_codes.val, e0) == name_atom)


PARSER_TABLE_KINDS = {'trace_codes': 'atom', 'threads_pids': 'int', 'pids_names': 'atom', 'tids_names': 'atom',
                      'global_strings': 'atom'}
PARSER_OBJ_TABLES = {'last_data_newthread': ('TraceDataNewthread', ('tid', 'pid', 'is_exec_copy', 'uniqueid')),
                     'last_data_exec': ('TraceDataExec', ('pid', 'fsid', 'fileid'))}
PARSER_KEEP = ('handlers', 'qualifiers_actions', 'on_going_events', 'on_going_traces')


def make_parser(it, ctx, tag='p', guard_pairing=False):
    """an arbitrary reachable TracesParser: the real __init__ is executed to learn the attributes and
    their shapes; every dict-valued attribute then holds an arbitrary table, every None-initialised
    attribute an arbitrary optional object (state invariant of the parser, by shape)."""
    tp = it.repo.import_module('pykdebugparser.traces_parser').ns['TracesParser']
    tr = it.repo.import_module('pykdebugparser.trace_handlers.trace')

    def table(nm, kind):
        m = libattr.new_symmap('%s.%s' % (tag, nm), kind, origin='parser.' + nm)
        m.reads = []
        return m
    args = [table(nm, PARSER_TABLE_KINDS[nm]) for nm in ('trace_codes', 'threads_pids', 'pids_names')]
    p = it.call(tp, args, {})
    for nm in list(p.fields):
        v = p.fields[nm]
        if nm in PARSER_KEEP or isinstance(v, SymMap):
            continue
        if isinstance(v, PDict) and not v.keys():
            if nm in PARSER_OBJ_TABLES:
                cn, flds = PARSER_OBJ_TABLES[nm]
                kind = libattr.ObjKind(tr.ns[cn], flds, '%s.%s' % (tag, nm))
            else:
                kind = PARSER_TABLE_KINDS.get(nm, 'int')
            p.fields[nm] = table(nm, kind)
        elif v is None:
            if nm in PARSER_OBJ_TABLES:
                cn, flds = PARSER_OBJ_TABLES[nm]
                o = Obj(tr.ns[cn], dict({f: SInt(z3.Int('%s.%s.%s' % (tag, nm, f))) for f in flds}, ktraces=PList()))
            else:
                o = ForeignObj('%s.%s' % (tag, nm))
            p.fields[nm] = SOpt(z3.Bool('%s.%s.present' % (tag, nm)), o)
    if guard_pairing:
        # a decoder's frame: the pairing tables belong to the pairing operations (C04/C05), no decoder may read or write them
        for nm in ('on_going_events', 'on_going_traces'):
            if nm in p.fields:
                p.fields[nm] = GuardedState('the decoder touches the pairing table %s' % nm)
    p.tag = tag
    p.initial_fields = dict(p.fields)
    return p


def window_lookups_arg(arg, w):
    """is `arg` the window itself or a filtered comprehension over the whole window (the lookup records)?"""
    if arg is w.events:
        return True
    o = getattr(arg, 'origin', None)
    return isinstance(o, tuple) and o[0] == 'comp' and o[1] is w.events


class VnodeContract:
    """call-site contract of TracesParser.vnode_generator (proved on the real body in C08): yields, in order, one
    Vnode(records, vnode word, text) per END-bit record of its argument: a sequence of symbolic length n >= 0."""

    def __init__(self, it):
        self.it = it
        self.calls = []

    def __call__(self, it, func, args, kwargs, node):
        events = args[-1]
        ctx = it.ctx
        k = len(self.calls)
        tag = ctx.fresh('lk')
        n = z3.Int(tag + '.n')
        ctx.facts.append(n >= 0)
        if isinstance(events, SymList):
            ctx.facts.append(n <= events.length)
        vn_cls = it.repo.import_module('pykdebugparser.traces_parser').ns['Vnode']
        vid = z3.Function(tag + '.vnode_id', I, I)
        path = z3.Function(tag + '.path', I, I)
        member = z3.Function(tag + '.member', I, I, B)   # (lookup index, window index)

        def elem(j):
            j = z3.simplify(j)
            t = vid(j)
            ctx.declare_range(t, 0, W64)
            kt = SymList('%s.ktraces[%s]' % (tag, j), z3.Int('%s.nk[%s]' % (tag, j)), lambda q: None,
                         origin=('vnode-ktraces', tag, j))

            def contains(x, j=j):
                idx = getattr(x, 'index', None)
                if idx is None:
                    raise Unsupported('membership of non-window event in lookup records')
                return member(j, idx)
            kt.contains_fn = contains
            o = Obj(vn_cls, {'ktraces': kt, 'vnode_id': SInt(t), 'path': atom_str(path(j))})
            o.lookup = (tag, j)
            return o
        lst = SymList(tag, n, elem, origin=('lookups', events, tag))
        self.calls.append((tag, events, lst))
        return lst




class DecoderPolicy(DefaultPolicy):
    """C07's premise: every event is individually in-domain.  A raise site whose condition only
    mentions fields of one event (enum construction, constant-dict lookup, text decoding, uuid length) is
    an in-domain premise (assumed); every other raise site (context) is forked and reported."""
    DOMAIN_KINDS = ('enum-value', 'const-dict-key', 'decode', 'uuid-len', 'uuid')

    def __init__(self):
        self.domain_assumed = []

    def raise_site(self, interp, kind, cond, exc_name, node):
        base = kind.split(':')[0]
        if base == 'foreign-attr':
            self.domain_assumed.append((getattr(node, 'lineno', None), kind))
            return 'assume'
        if base in self.DOMAIN_KINDS and own_event_only(cond):
            self.domain_assumed.append((getattr(node, 'lineno', None), kind))
            return 'assume'
        return 'fork'


def own_event_only(cond):
    """does the condition mention fields of at most one event (one window index) and no parser table?"""
    idxs = set()
    ok = [True]
    seen = set()

    def walk(t):
        if t.get_id() in seen:
            return
        seen.add(t.get_id())
        if z3.is_select(t):
            arr = t.arg(0)
            if z3.is_const(arr) and arr.decl().kind() == z3.Z3_OP_UNINTERPRETED:
                nm = arr.decl().name()
                if nm.startswith('w.'):
                    idxs.add(z3.simplify(t.arg(1)).sexpr())
                    return
                if nm.startswith('p.'):
                    ok[0] = False
                    return
        if z3.is_app(t):
            nm = t.decl().name()
            if t.decl().kind() == z3.Z3_OP_UNINTERPRETED and (nm.startswith('p.') or nm.startswith('lk') or nm.startswith('flt')):
                ok[0] = False
            for c in t.children():
                walk(c)
    walk(cond)
    return ok[0] and len(idxs) <= 1


class PathSummary:
    def __init__(self, name, pr, result, text, parser, window, vn):
        self.name = name
        self.pc = pr.pc
        self.branch_pc = getattr(pr, 'branch_pc', pr.pc)
        self.outcome = pr.outcome
        self.exc = pr.exc
        self.result = result
        self.text = text
        self.parser = parser
        self.window = window
        self.lookups = vn.calls if vn else []
        self.assumptions = pr.assumptions
        self.discharged_sites = pr.discharged_sites
        self.phase = pr.notes.get('phase')


def handler_tables(sess):
    out = {}
    for mod in TABLE_MODULES:
        m = sess.module('pykdebugparser.trace_handlers.' + mod)
        h = m.ns['handlers']
        for k in h.keys():
            out.setdefault(k, []).append((mod, h.d[k][1]))
    return out


def explore_decoder(sess, name, handler, render=True, extra_setup=None, window_name=None, post=None):
    """all paths of handler(parser, events) followed by str(result)."""
    it = sess.it
    vn = VnodeContract(it)
    # the generator is used through its contract (proved on its body in C08); parse_vnodes / parse_vnode run as real code
    it.contracts['pykdebugparser.traces_parser:TracesParser.vnode_generator'] = vn
    allh = {}
    if not hasattr(sess, '_tabs'):
        sess._tabs = handler_tables(sess)
    for k, lst in sess._tabs.items():
        allh[k] = lst[-1][1]
    it.contracts['pykdebugparser.traces_parser:TracesParser.parse_event_list'] = ParseEventListContract(
        it, allh, lambda k, h: isinstance(h, PartialVal) and getattr(h.func, 'name', '') == 'handle_real_fault_address')
    holder = {}

    def thunk(ctx):
        vn.calls = []
        w = Window(it, ctx)
        p = make_parser(it, ctx, guard_pairing=True)
        w.assume_shape(z3.IntVal(intern_str(window_name or name)), p.fields['trace_codes'])
        holder['w'], holder['p'] = w, p
        if extra_setup:
            extra_setup(ctx, w, p)
        ctx.notes['phase'] = 'decode'
        ctx.notes['holder'] = (w, p, None)
        ctx.notes['lookups'] = vn.calls
        result = it.call(handler, [p, w.events], {})
        ctx.notes['result'] = result
        ctx.notes['phase'] = 'render'
        text = to_str(it, result) if render else None
        ctx.notes['text'] = text
        ctx.notes['phase'] = 'done'
        if post:
            post(ctx, w, p, result)
        return result

    prs = sess.explore(thunk)
    out = []
    for pr in prs:
        w, p, _ = pr.notes['holder']
        s = PathSummary(name, pr, pr.notes.get('result'), pr.notes.get('text'), p, w, None)
        s.lookups = pr.notes.get('lookups', [])
        s.obligations = pr.obligations
        s.notes = pr.notes
        out.append(s)
    return out


# ------------------------------------------------------------------------------ concretisation for replay
def _atom_text(k):
    s = interned(k)
    if s is not None:
        return s
    return 'S%d' % (k % 100000)


def concretize(s, extra=(), timeout_ms=10000):
    """a concrete native request (kind-less: events / parser / name) from a model of s.pc + extra,
    preferring small windows.  Returns (request, model) or (None, None)."""
    from . import solve
    w, p = s.window, s.parser
    base = list(s.pc) + list(extra)
    model = None
    nsum = [lst.length for _, _, lst in s.lookups]
    for bound in (2, 4, 8, None):
        fs = list(base)
        if bound is not None:
            fs.append(w.length <= bound + 2)
            fs.append(w.length >= 2)
            for n in nsum:
                fs.append(n <= bound)
        r, m = solve.satisfiable(fs, timeout_ms)
        if r == z3.sat:
            model = m
            break
    if model is None:
        r, m = solve.satisfiable(base, timeout_ms)
        if r != z3.sat:
            return None, None
        model = m
    ev = lambda t: solve.model_int(model, t)
    L = ev(w.length)
    idxs = set([0, L - 1])
    for key, e in w.made.items():
        i = ev(e.index)
        if 0 <= i < L:
            idxs.add(i)
    tc = p.fields['trace_codes']
    extra_codes = []

    def event_at(i):
        iv = z3.IntVal(i)
        eid = ev(z3.Select(w.eid, iv))
        d = {'timestamp': ev(z3.Select(w.ts, iv)), 'values': [ev(z3.Select(w.v[j], iv)) for j in range(4)],
             'eventid': eid, 'qual': ev(z3.Select(w.fq, iv)), 'index': i}
        if z3.is_true(model.eval(z3.Select(tc.dom0, z3.IntVal(eid)), model_completion=True)):
            nm = _atom_text(ev(z3.Select(tc.val0, z3.IntVal(eid))))
            d['code_name'] = nm
            extra_codes.append([eid, nm])
        return d
    events = [event_at(i) for i in sorted(idxs)]
    # lookups found in the whole window are materialised as single-record VFS_LOOKUP events after the START
    lk_events = []
    for tag, arg, lst in s.lookups:
        if not window_lookups_arg(arg, w):
            continue
        n = ev(lst.length)
        for j in range(min(n, 8)):
            o = lst.elem(z3.IntVal(j)) if True else None
            ptxt = 'p%d' % j
            vid = ev(o.fields['vnode_id'].t) if hasattr(o.fields['vnode_id'], 't') else 0
            import struct
            data = struct.pack('<Q', vid & W64) + ptxt.encode().ljust(24, b'\0')
            lk_events.append({'timestamp': 0, 'data': data.hex(), 'values': [0, 0, 0, 0], 'code_name': 'VFS_LOOKUP', 'qual': 3})
        # lookup records that do not complete a lookup (a START without its END, e.g. the dump ends mid-lookup)
        extra = ev(arg.length) - n if isinstance(arg, SymList) and arg is not w.events else 0
        for j in range(max(0, min(extra, 3))):
            import struct
            lk_events.append({'timestamp': 0, 'data': (struct.pack('<Q', 5) + b'/unfinished'.ljust(24, b'\0')).hex(), 'values': [0, 0, 0, 0],
                              'code_name': 'VFS_LOOKUP', 'qual': 1})
    if L >= 2:
        events = events[:1] + lk_events + events[1:]
    parser = {}
    for nm in ('threads_pids', 'pids_names', 'tids_names', 'global_strings'):
        m = p.fields[nm]
        rows = []
        seen = set()
        for kt in getattr(m, 'reads', []):
            k = ev(kt)
            if k in seen:
                continue
            seen.add(k)
            if z3.is_true(model.eval(z3.Select(m.dom0, z3.IntVal(k)), model_completion=True)):
                v = ev(z3.Select(m.val0, z3.IntVal(k)))
                rows.append([k, _atom_text(v) if m.vkind == 'atom' else v])
        parser[nm] = rows
    for slot, flds in (('last_data_newthread', ('tid', 'pid')), ('last_data_exec', ('pid',))):
        o = p.fields.get(slot)
        if isinstance(o, SOpt):
            if z3.is_true(model.eval(o.present, model_completion=True)) and isinstance(o.val, Obj):
                parser[slot] = {f: ev(o.val.fields[f].t) for f in flds}
            else:
                parser[slot] = None
        elif isinstance(o, SymMap):
            rows = []
            for kt in getattr(o, 'reads', []):
                k = ev(kt)
                if z3.is_true(model.eval(z3.Select(o.dom0, z3.IntVal(k)), model_completion=True)):
                    oid = z3.Select(o.val0, z3.IntVal(k))
                    rows.append([k, {f: ev(o.vkind.fn[f](oid)) for f in flds}])
            parser[slot + '_table'] = rows
    req = {'name': s.name, 'tid': ev(w.tid), 'events': events, 'parser': parser, 'extra_codes': extra_codes}
    return req, model


class ForeignObj:
    """result of a decoder we do not follow at this call site (see ParseEventListContract)."""

    def __init__(self, tag):
        self.tag = tag


class ParseEventListContract:
    """call-site contract of TracesParser.parse_event_list(events) (its body is verified in C04/C19):
         events[0].eventid not in trace_codes, or its name has no decoder  ->  None
         otherwise                                                          ->  handlers[name](self, events)
    The decoder is followed inline for the names in `follow` (forked); for any other decodable name the
    result is a foreign object (attribute reads on it are raise sites of kind 'foreign-attr')."""

    def __init__(self, it, handlers, follow):
        self.it = it
        self.handlers = handlers       # name -> handler value
        self.follow = follow           # predicate on (name, handler)

    def __call__(self, it, func, args, kwargs, node):
        parser, events = args[0], args[1]
        ctx = it.ctx
        e0 = it.lib.getitem(it, events, 0, node)
        tc = parser.fields['trace_codes']
        eid = e0.fields['eventid']
        present = it.lib.symmap_contains(it, tc, eid)
        name_t = z3.Select(tc.val, zi(eid))
        known = z3.Or([name_t == intern_str(k) for k in self.handlers])
        ctx.notes.setdefault('pel', []).append({'events': events, 'present': present, 'known': known, 'name': name_t})
        if not ctx.branch(present):
            return None
        if not ctx.branch(known):
            return None
        for k, h in self.handlers.items():
            if self.follow(k, h):
                if ctx.branch(name_t == intern_str(k)):
                    return it.call(h, [parser, events], {})
        return ForeignObj(ctx.fresh('foreign'))
