"""IEEE-754 binary64 arithmetic as an *assumed* error model (standard model of floating point), for the few float
expressions the repository computes.  Every rounded operation returns a fresh real r with
    |r - exact| <= 2^-53 * |exact|                     (round to nearest; no underflow: stated assumption)
    exact >= A  =>  r >= A   and   exact <= A  =>  r <= A      for representable anchors A (rounding is monotone and
                                                                fixes representable numbers)
Python semantics assumed: int (op) float converts the int first (exact below 2^53: emitted as a side condition),
int / int is the correctly rounded quotient, a float literal denotes exactly the double CPython parsed.

`fromtimestamp_goals` is the contract assumed for datetime.fromtimestamp(<float d>, tz=utc), written from CPython's
_PyTime_DoubleToDenominator: intpart = floor(d); frac = d - intpart (exact, modf); m = fl(frac * 1e6);
microsecond = round-half-even(m), carried into the seconds when it reaches 10^6."""
from fractions import Fraction

import z3

from .values import *  # noqa
from .libops import OpaqueFloat

U = z3.Q(1, 2 ** 53)


class FloatModel:
    def __init__(self, prefix='fp'):
        self.prefix = prefix
        self.n = 0
        self.constraints = []
        self.side = []          # side conditions to prove (int -> float conversions exact)
        self.anchors = [z3.RealVal(0), z3.RealVal(1)]
        self.int_leaves = []

    def rnd(self, exact):
        self.n += 1
        r = z3.Real('%s.r%d' % (self.prefix, self.n))
        ab = z3.If(exact >= 0, exact, -exact)
        self.constraints += [r - exact <= U * ab, exact - r <= U * ab]
        for a in self.anchors:
            self.constraints += [z3.Implies(exact >= a, r >= a), z3.Implies(exact <= a, r <= a)]
        return r

    def collect(self, v):
        if isinstance(v, OpaqueFloat):
            for a in v.args:
                self.collect(a)
        elif isinstance(v, SInt):
            t = z3.ToReal(v.t)
            self.int_leaves.append(v.t)
            self.anchors += [t, t + 1]

    def leaf(self, v):
        """(real term, is_float)"""
        if isinstance(v, bool):
            raise Unsupported('bool in float expression')
        if isinstance(v, int):
            if abs(v) > 2 ** 53:
                raise Unsupported('int constant beyond 2^53 in float expression')
            return z3.RealVal(v), False
        if isinstance(v, float):
            f = Fraction(v)
            return z3.Q(f.numerator, f.denominator), True
        if isinstance(v, SInt):
            self.side.append(z3.And(v.t <= 2 ** 53, v.t >= -2 ** 53))
            return z3.ToReal(v.t), False
        if isinstance(v, OpaqueFloat):
            return self.term(v), True
        raise Unsupported('float expression leaf %s' % type(v).__name__)

    def term(self, v):
        op = v.op
        if op == 'float':
            return self.leaf(v.args[0])[0]
        if op in ('div', 'Div', 'Add', 'Sub', 'Mult'):
            a, _ = self.leaf(v.args[0])
            b, _ = self.leaf(v.args[1])
            if op in ('div', 'Div'):
                if not z3.is_rational_value(z3.simplify(b)) or z3.simplify(b).numerator_as_long() == 0:
                    raise Unsupported('float division by a non-constant')
                return self.rnd(a / b)
            if op == 'Add':
                return self.rnd(a + b)
            if op == 'Sub':
                return self.rnd(a - b)
            return self.rnd(a * b)
        raise Unsupported('float operation %s' % op)


def fromtimestamp_goals(tree, S, Usec):
    """sufficient conditions for datetime.fromtimestamp(tree, utc) == epoch + S s + Usec us (S, Usec z3 Ints):
    returns (hypotheses, [(name, goal)])"""
    fm = FloatModel()
    fm.collect(tree)
    fm.anchors += [z3.ToReal(S), z3.ToReal(S) + 1]
    d = fm.term(tree)
    frac = d - z3.ToReal(S)
    m = fm.rnd(frac * 1000000)
    goals = [('seconds-part', z3.And(d >= z3.ToReal(S), d < z3.ToReal(S) + 1)),
             ('microsecond-rounding', z3.And(m - z3.ToReal(Usec) < z3.Q(1, 2), z3.ToReal(Usec) - m < z3.Q(1, 2)))]
    for i, sc in enumerate(fm.side):
        goals.append(('int-to-float-exact.%d' % i, sc))
    return fm.constraints, goals
