"""Shared plumbing for the per-property checks: session set-up, clause evaluation, discharge."""
import ast
import os
import z3

from .values import *  # noqa
from .repo import Repo
from .interp import Interp, DefaultPolicy
from .paths import Explorer, PathAbort
from . import solve

VERIF = os.path.dirname(os.path.dirname(os.path.abspath(__file__)))
REPO = os.environ.get('PYVC_REPO', '/repo')


class Session:
    def __init__(self, policy=None, max_paths=4096):
        self.repo = Repo(REPO)
        for f in os.listdir(os.path.join(VERIF, 'spec')):
            if f.endswith('.py') and f != '__init__.py':
                self.repo.extra_paths['spec.' + f[:-3]] = os.path.join(VERIF, 'spec', f)
        self.explorer = Explorer(max_paths=max_paths)
        self.it = Interp(self.repo, self.explorer, policy)
        self.repo.interp = self.it
        # default contract of default_trace_codes(): the bundled table itself (read by the child interpreter from the
        # repository under check); checks that need an arbitrary table install their own contract over this one
        self.it.contracts.setdefault('pykdebugparser.trace_codes:default_trace_codes', bundled_codes_contract)

    def module(self, name):
        return self.repo.import_module(name)

    def func(self, qual):
        return self.repo.func(qual)

    def spec_frame(self, *modnames, **extra):
        fr = Frame()
        for n in modnames:
            m = self.module(n)
            for k, v in m.ns.items():
                if not k.startswith('$') and not k.startswith('__'):
                    fr.vars[k] = v
        fr.vars.update(extra)
        return fr

    def eval_expr(self, expr, fr):
        node = ast.parse(expr, mode='eval').body
        return self.it.eval(node, fr)

    def clause(self, expr, fr):
        """z3 Bool of a contract clause (python expression text)."""
        v = self.eval_expr(expr, fr)
        t = self.it.truth(v)
        return z3.BoolVal(t) if isinstance(t, bool) else t

    def explore(self, thunk):
        return self.explorer.explore(thunk)


_BUNDLED = []


def bundled_codes_contract(it, func, args, kwargs, node):
    if not _BUNDLED:
        from .report import native
        out = native({'kind': 'default_codes'})
        if 'codes' not in out:
            raise Unsupported('bundled code table unavailable: %s' % str(out)[:200])
        _BUNDLED.append([(int(k), str(v)) for k, v in out['codes']])
    d = PDict()
    d.d = {k: (True, v) for k, v in _BUNDLED[0]}
    d.order = tuple(k for k, _ in _BUNDLED[0])
    return d


def fresh_bytes(ctx, name, n):
    """n symbolic bytes (Int consts constrained to 0..255)."""
    elems = []
    for i in range(n):
        b = z3.Int('%s[%d]' % (name, i))
        ctx.declare_range(b, 0, 255)
        elems.append(SInt(b))
    return SBytes(elems)


def model_bytes(model, name, n):
    return bytes(solve.model_int(model, z3.Int('%s[%d]' % (name, i))) for i in range(n))


def discharge(run, name, pc, goal, function=None, tier='quick', timeout_ms=20000, kind='post'):
    """prove one obligation; records proved/unknown; returns Verdict (caller handles refuted)."""
    v = solve.prove(pc, goal, timeout_ms=timeout_ms, tier=tier)
    if v.status == 'proved':
        run.add(name, 'proved', v.backend, v.ms, function, kind=kind)
    elif v.status == 'disagree':
        run.add(name, 'engine-error', v.backend, v.ms, function, v.detail, kind=kind)
        run.engine_error('solver disagreement on %s: %s' % (name, v.detail))
    elif v.status == 'unknown':
        run.add(name, 'unknown', v.backend, v.ms, function, v.detail, kind=kind)
        run.undecide(name, 'solver returned unknown (%s)' % v.detail)
    return v
