"""Heap model for the pairing tables of TracesParser (on_going_events / on_going_traces):

    state : tid -> (code -> list of events)

encoded with nested arrays (DESIGN 3.4): tdom[tid], cdom[tid][code], ln[tid][code], el[tid][code][i].
Events are identified by an Int (their position in the ghost history).  Reads through references
(state[t], state[t][c]) always see the current arrays, so aliasing of the nested containers is modelled
exactly for the access paths the code uses.  Also: generic loop rule with a supplied invariant, and
bisect / sorted-insertion support for C15."""
import z3

from .values import *  # noqa

I = z3.IntSort()
B = z3.BoolSort()
AIB = z3.ArraySort(I, B)
AII = z3.ArraySort(I, I)
AIAIB = z3.ArraySort(I, AIB)
AIAII = z3.ArraySort(I, AII)
AIAIAII = z3.ArraySort(I, AIAII)


class Snap:
    """immutable snapshot of a pairing table"""

    def __init__(self, tdom, cdom, ln, el):
        self.tdom, self.cdom, self.ln, self.el = tdom, cdom, ln, el

    @staticmethod
    def fresh(name):
        return Snap(z3.Const(name + '.tdom', AIB), z3.Const(name + '.cdom', AIAIB), z3.Const(name + '.ln', AIAII),
                    z3.Const(name + '.el', AIAIAII))

    def is_open(self, t, c):
        return z3.And(z3.Select(self.tdom, t), z3.Select(z3.Select(self.cdom, t), c))

    def length(self, t, c):
        return z3.Select(z3.Select(self.ln, t), c)

    def elem(self, t, c, i):
        return z3.Select(z3.Select(z3.Select(self.el, t), c), i)

    def row_el(self, t, c):
        return z3.Select(z3.Select(self.el, t), c)


class PairState(Mutable):
    def __init__(self, name, snap=None):
        self.name = name
        s = snap or Snap.fresh(name)
        self.tdom, self.cdom, self.ln, self.el = s.tdom, s.cdom, s.ln, s.el
        self.writes = 0

    def _loc_get(self, key):
        return getattr(self, key)

    def _loc_set_raw(self, key, val):
        setattr(self, key, val)

    def snap(self):
        return Snap(self.tdom, self.cdom, self.ln, self.el)

    def set_snap(self, s):
        self._write('tdom', s.tdom)
        self._write('cdom', s.cdom)
        self._write('ln', s.ln)
        self._write('el', s.el)

    # ---- python protocol
    def py_contains(self, it, k, node=None):
        if not is_intlike(k):
            return False
        return z3.Select(self.tdom, zi(k))

    def py_getitem(self, it, k, node=None):
        kt = zi(k)
        it.raise_if(z3.Not(z3.Select(self.tdom, kt)), 'KeyError', 'pairing-table-key', node)
        return InnerRef(self, kt)

    def py_setitem(self, it, k, v, node=None):
        if not (isinstance(v, PDict) and not v.keys()):
            raise Unsupported('only an empty dict may be stored into a pairing table')
        kt = zi(k)
        self._write('tdom', z3.Store(self.tdom, kt, True))
        self._write('cdom', z3.Store(self.cdom, kt, z3.K(I, z3.BoolVal(False))))
        self._write('writes', self.writes + 1)

    def py_getattr(self, it, name, node=None):
        if name == 'get':
            def get(it_, args, kw, n):
                k = zi(args[0])
                default = args[1] if len(args) > 1 else None
                if it.ctx.branch(z3.Select(self.tdom, k)):
                    return InnerRef(self, k)
                return default
            return Builtin('pairing.get', get)
        if name == 'setdefault':
            def setdefault(it_, args, kw, n):
                k = zi(args[0])
                if not it.ctx.branch(z3.Select(self.tdom, k)):
                    self.py_setitem(it, args[0], args[1] if len(args) > 1 else None, n)
                return InnerRef(self, k)
            return Builtin('pairing.setdefault', setdefault)
        raise Unsupported('pairing table method %s' % name)

    def py_truth(self, it):
        raise Unsupported('truthiness of pairing table')


class InnerRef:
    """state[t]"""

    def __init__(self, state, t):
        self.state = state
        self.t = t

    def _cd(self):
        return z3.Select(self.state.cdom, self.t)

    def py_contains(self, it, c, node=None):
        if not is_intlike(c):
            return False
        return z3.Select(self._cd(), zi(c))

    def py_getitem(self, it, c, node=None):
        ct = zi(c)
        it.raise_if(z3.Not(z3.Select(self._cd(), ct)), 'KeyError', 'pairing-code-key', node)
        return ListRef(self.state, self.t, ct)

    def py_setitem(self, it, c, v, node=None):
        if not (isinstance(v, PList) and not v.items):
            raise Unsupported('only an empty list may be stored under a code')
        ct = zi(c)
        st = self.state
        st._write('cdom', z3.Store(st.cdom, self.t, z3.Store(self._cd(), ct, True)))
        st._write('ln', z3.Store(st.ln, self.t, z3.Store(z3.Select(st.ln, self.t), ct, 0)))
        st._write('writes', st.writes + 1)

    def py_getattr(self, it, name, node=None):
        st = self.state
        if name == 'pop':
            def pop(it_, args, kw, n):
                ct = zi(args[0])
                present = z3.Select(self._cd(), ct)
                if len(args) > 1:
                    if not it.ctx.branch(present):
                        return args[1]
                else:
                    it.raise_if(z3.Not(present), 'KeyError', 'pairing-code-key', n)
                val = ListVal(z3.Select(z3.Select(st.el, self.t), ct), z3.Select(z3.Select(st.ln, self.t), ct))
                st._write('cdom', z3.Store(st.cdom, self.t, z3.Store(self._cd(), ct, False)))
                st._write('writes', st.writes + 1)
                return val
            return Builtin('inner.pop', pop)
        if name == 'get':
            def get(it_, args, kw, n):
                ct = zi(args[0])
                if it.ctx.branch(z3.Select(self._cd(), ct)):
                    return ListRef(st, self.t, ct)
                return args[1] if len(args) > 1 else None
            return Builtin('inner.get', get)
        if name == 'setdefault':
            def setdefault(it_, args, kw, n):
                ct = zi(args[0])
                if not it.ctx.branch(z3.Select(self._cd(), ct)):
                    self.py_setitem(it, args[0], args[1] if len(args) > 1 else None, n)
                return ListRef(st, self.t, ct)
            return Builtin('inner.setdefault', setdefault)
        if name in ('values', 'items', 'keys'):
            return Builtin('inner.' + name, lambda it_, a, k, n: InnerView(self, name))
        raise Unsupported('method %s of a pairing row' % name)

    def py_truth(self, it):
        c = z3.Int(it.ctx.fresh('c'))
        return z3.Exists([c], z3.Select(self._cd(), c))


class InnerView:
    """state[t].values() / .items() / .keys(): iterated by the key-loop rule"""

    def __init__(self, ref, kind):
        self.ref = ref
        self.kind = kind

    def py_getitem(self, it, k, node=None):
        raise Unsupported('subscript of a dict view')

    def bind(self, key_term):
        r = self.ref
        if self.kind == 'keys':
            return SInt(key_term)
        lst = ListRef(r.state, r.t, key_term)
        return lst if self.kind == 'values' else (SInt(key_term), lst)


class ListRef:
    """state[t][c]"""

    def __init__(self, state, t, c):
        self.state, self.t, self.c = state, t, c

    def cur(self):
        st = self.state
        return ListVal(z3.Select(z3.Select(st.el, self.t), self.c), z3.Select(z3.Select(st.ln, self.t), self.c))

    def py_getattr(self, it, name, node=None):
        st = self.state
        if name == 'append':
            def append(it_, args, kw, n):
                hid = getattr(args[0], 'hid', None)
                if hid is None:
                    raise Unsupported('only events may be appended to a window')
                row_el = z3.Select(st.el, self.t)
                row_ln = z3.Select(st.ln, self.t)
                n0 = z3.Select(row_ln, self.c)
                st._write('el', z3.Store(st.el, self.t, z3.Store(row_el, self.c, z3.Store(z3.Select(row_el, self.c), n0, hid))))
                st._write('ln', z3.Store(st.ln, self.t, z3.Store(row_ln, self.c, n0 + 1)))
                st._write('writes', st.writes + 1)
            return Builtin('window.append', append)
        raise Unsupported('method %s of a window list' % name)

    def py_getitem(self, it, i, node=None):
        return self.cur().py_getitem(it, i, node)

    def py_len(self, it):
        return self.cur().py_len(it)

    def py_truth(self, it):
        return self.cur().py_truth(it)


class ListVal:
    """list value (elements array, length) detached from the table"""

    def __init__(self, arr, n):
        self.arr, self.n = arr, n

    def py_len(self, it):
        return mk_int(self.n)

    def py_getitem(self, it, i, node=None):
        it_ = zi(i)
        it.raise_if(z3.Or(it_ >= self.n, it_ < -self.n), 'IndexError', 'list-index:window', node)
        idx = z3.If(it_ >= 0, it_, self.n + it_)
        hook = getattr(it, 'event_of_hid', None)
        if hook is None:
            raise Unsupported('event lookup by history id')
        return hook(z3.simplify(z3.Select(self.arr, idx)))

    def py_truth(self, it):
        return self.n > 0


def list_view(v):
    """(array, length) of a ListVal / concrete PList of events"""
    if isinstance(v, ListVal):
        return v.arr, v.n
    if isinstance(v, ListRef):
        c = v.cur()
        return c.arr, c.n
    if isinstance(v, PList) and v.is_concrete():
        arr = z3.K(I, z3.IntVal(-1))
        for i, e in enumerate(v.values()):
            arr = z3.Store(arr, i, e.hid)
        return arr, z3.IntVal(len(v.items))
    raise Unsupported('not a window list')


# ------------------------------------------------------------------------------------ generic loop rule
class KeyEnum:
    """an arbitrary duplicate-free enumeration of the keys of a row at loop entry"""

    def __init__(self, ctx, cd0, tag):
        self.keys = z3.Function(tag + '.keys', I, I)
        self.kpos = z3.Function(tag + '.kpos', I, I)
        self.n = z3.Int(tag + '.nkeys')
        j = z3.Int(tag + '!j')
        c = z3.Int(tag + '!c')
        ctx.facts.append(self.n >= 0)
        ctx.facts.append(z3.ForAll([j], z3.Implies(z3.And(j >= 0, j < self.n),
                                                  z3.And(z3.Select(cd0, self.keys(j)), self.kpos(self.keys(j)) == j))))
        ctx.facts.append(z3.ForAll([c], z3.Implies(z3.Select(cd0, c),
                                                  z3.And(self.kpos(c) >= 0, self.kpos(c) < self.n, self.keys(self.kpos(c)) == c))))


# ------------------------------------------------------------------------------------ plain sequences (C15)
class SeqList(Mutable):
    """python list of ints (or ids) of symbolic length: (array, length)"""

    def __init__(self, name, arr=None, n=None, elem_wrap=None):
        self.name = name
        self.arr = arr if arr is not None else z3.Const(name + '.arr', AII)
        self.n = n if n is not None else z3.Int(name + '.len')
        self.elem_wrap = elem_wrap or (lambda t: mk_int(t))
        self.elem_term = None
        self.writes = 0

    def _loc_get(self, key):
        return getattr(self, key)

    def _loc_set_raw(self, key, val):
        setattr(self, key, val)

    def term_of(self, v):
        if self.elem_term is not None:
            return self.elem_term(v)
        return zi(v)

    def py_len(self, it):
        return mk_int(self.n)

    def py_truth(self, it):
        return self.n > 0

    def py_contains(self, it, x, node=None):
        j = z3.Int(it.ctx.fresh('j'))
        return z3.Exists([j], z3.And(j >= 0, j < self.n, z3.Select(self.arr, j) == self.term_of(x)))

    def py_getitem(self, it, i, node=None):
        t = zi(i)
        it.raise_if(z3.Or(t >= self.n, t < -self.n), 'IndexError', 'list-index:' + self.name, node)
        return self.elem_wrap(z3.Select(self.arr, z3.If(t >= 0, t, self.n + t)))

    def py_getattr(self, it, name, node=None):
        if name == 'insert':
            def insert(it_, args, kw, n):
                i = zi(args[0])
                v = self.term_of(args[1])
                # python clamps the index into [0, len]
                p = z3.If(i < 0, z3.If(self.n + i < 0, 0, self.n + i), z3.If(i > self.n, self.n, i))
                new = z3.Const(it.ctx.fresh(self.name + '.ins'), AII)
                k = z3.Int(it.ctx.fresh('k'))
                old = self.arr
                it.ctx.facts.append(z3.ForAll([k], z3.Select(new, k) == z3.If(k < p, z3.Select(old, k),
                                                                             z3.If(k == p, v, z3.Select(old, k - 1)))))
                self._write('arr', new)
                self._write('n', self.n + 1)
                self._write('writes', self.writes + 1)
            return Builtin('list.insert', insert)
        if name == 'append':
            def append(it_, args, kw, n):
                self._write('arr', z3.Store(self.arr, self.n, self.term_of(args[0])))
                self._write('n', self.n + 1)
                self._write('writes', self.writes + 1)
            return Builtin('list.append', append)
        raise Unsupported('method %s of a sequence' % name)


def sorted_strict(arr, n, tag='s'):
    j, k = z3.Ints('%s!j %s!k' % (tag, tag))
    return z3.ForAll([j, k], z3.Implies(z3.And(j >= 0, j < k, k < n), z3.Select(arr, j) < z3.Select(arr, k)))


def sorted_weak(arr, n, tag='w'):
    j, k = z3.Ints('%s!j %s!k' % (tag, tag))
    return z3.ForAll([j, k], z3.Implies(z3.And(j >= 0, j < k, k < n), z3.Select(arr, j) <= z3.Select(arr, k)))


def _bisect(it, lst, x, node, right):
    """assumed contract of bisect.bisect_right / bisect_left: for a sorted list the result is the
    insertion point (all elements before are <= x (< x), all elements from it on are > x (>= x))"""
    if not isinstance(lst, SeqList):
        if isinstance(lst, PList) and lst.is_concrete() and all(isinstance(v, int) for v in lst.values()) and isinstance(x, int):
            import bisect
            return (bisect.bisect_right if right else bisect.bisect_left)(lst.values(), x)
        raise Unsupported('bisect on %s' % type(lst).__name__)
    ctx = it.ctx
    idx = z3.Int(ctx.fresh('bisect'))
    xt = zi(x)
    j = z3.Int(ctx.fresh('j'))
    ctx.facts.append(z3.And(idx >= 0, idx <= lst.n))
    before = z3.Select(lst.arr, j) <= xt if right else z3.Select(lst.arr, j) < xt
    after = z3.Select(lst.arr, j) > xt if right else z3.Select(lst.arr, j) >= xt
    ctx.facts.append(z3.Implies(sorted_weak(lst.arr, lst.n, ctx.fresh('sw')),
                                z3.ForAll([j], z3.And(z3.Implies(z3.And(j >= 0, j < idx), before),
                                                      z3.Implies(z3.And(j >= idx, j < lst.n), after)))))
    ctx.notes.setdefault('bisect', []).append((lst, xt, idx))
    return mk_int(idx)


def bisect_right(it, lst, x, node=None):
    return _bisect(it, lst, x, node, True)


def bisect_left(it, lst, x, node=None):
    return _bisect(it, lst, x, node, False)
