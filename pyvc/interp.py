"""Symbolic interpreter for the Python subset pykdebugparser is written in.

The interpreter executes the *real* ASTs of /repo (loaded by repo.py).  Symbolic branch
conditions are decided per path (paths.PathCtx.branch) or, for side-effect-simple `if`s and
conditional expressions, both sides are executed and merged (values.merge).  Every operation
that can raise is a *raise site*: the policy decides whether its condition is an in-domain
premise (assumed) or an obligation/fork.
"""
import ast
import z3

from .values import *  # noqa
from .values import _and
from . import paths


class ReturnSig(Exception):
    def __init__(self, v):
        self.v = v


class BreakSig(Exception):
    pass


class ContinueSig(Exception):
    pass


class Poison:
    """value of a local variable after merging two paths on which it is undefined / of different kinds"""

    def __init__(self, name, site=None):
        self.name = name
        self.site = site


class GenVal:
    """un-started generator: function + bound frame; run eagerly on demand."""

    def __init__(self, func, frame):
        self.func = func
        self.frame = frame
        self.done = None


class LazyIter:
    """result of filter()/map(): kept symbolic for pipeline obligations (C12/C13)."""

    def __init__(self, kind, fn, src):
        self.kind = kind
        self.fn = fn
        self.src = src


class DefaultPolicy:
    def raise_site(self, interp, kind, cond, exc_name, node):
        return 'fork'

    def merge_if(self, interp, node):
        return True


def _simple_body(stmts):
    for s in stmts:
        if isinstance(s, (ast.Assign, ast.AugAssign, ast.AnnAssign, ast.Pass)):
            continue
        if isinstance(s, ast.Expr):
            continue
        if isinstance(s, ast.If):
            if _simple_body(s.body) and _simple_body(s.orelse):
                continue
            return False
        return False
    return True


_NORMALIZED = {}


def _continue_guards(body):
    """loop-body normal form: `if C: continue` followed by REST is `if not C: REST` (same control flow; lets the two outcomes
    be merged instead of forked)"""
    key = id(body[0]) if body else None
    if key in _NORMALIZED:
        return _NORMALIZED[key][1]
    out = list(body)
    for i, st in enumerate(body):
        if (isinstance(st, ast.If) and not st.orelse and len(st.body) == 1 and isinstance(st.body[0], ast.Continue) and i + 1 < len(body)
                and not any(isinstance(x, (ast.Continue, ast.Break, ast.Return, ast.Yield, ast.YieldFrom))
                            for r in body[i + 1:] for x in ast.walk(r) if not (isinstance(r, ast.If) and False))):
            rest = _continue_guards(body[i + 1:])
            new_if = ast.If(test=ast.UnaryOp(op=ast.Not(), operand=st.test), body=rest, orelse=[])
            ast.copy_location(new_if, st)
            ast.fix_missing_locations(new_if)
            out = list(body[:i]) + [new_if]
            break
    if key is not None:
        _NORMALIZED[key] = (body, out)       # keeps `body` alive so that the id stays valid
    return out


def _has_yield(node):
    for n in ast.walk(node):
        if isinstance(n, (ast.Yield, ast.YieldFrom)):
            return True
    return False


class Interp:
    def __init__(self, repo, explorer, policy=None):
        self.repo = repo
        self.explorer = explorer
        self.policy = policy or DefaultPolicy()
        self.contracts = {}      # qualname -> fn(interp, func, args, kwargs)
        self.call_depth = 0
        self.try_stack = []          # exception names caught by the enclosing try statements (innermost last)
        self.max_depth = 40
        self.trace_calls = None
        from . import lib
        self.lib = lib
        self.builtins = lib.make_builtins(self)

    # ------------------------------------------------------------------ context helpers
    @property
    def ctx(self):
        return self.explorer.cur

    def fresh_int(self, prefix):
        return z3.Int(self.ctx.fresh(prefix) if self.ctx else prefix)

    def raise_if(self, cond, exc_name, kind, node=None, msg=''):
        if isinstance(cond, SBool):
            cond = cond.t
        if cond is False:
            return
        site = (getattr(node, 'lineno', None), kind)
        if cond is True:
            raise PyExc(exc_name, msg, site=site, kind=kind)
        cond = z3.simplify(cond)
        if z3.is_false(cond):
            return
        if z3.is_true(cond):
            raise PyExc(exc_name, msg, site=site, kind=kind)
        mode = self.policy.raise_site(self, kind, cond, exc_name, node)
        if mode == 'assume' and any(exc_matches(exc_name, n) for names in self.try_stack for n in names):
            # the code handles this exception itself: the case is part of its behaviour, not a premise to assume away
            mode = 'fork'
        ctx = self.ctx
        if mode == 'assume':
            ctx.assume(z3.Not(cond), name='in-domain@%s:%s' % site)
            return
        before = len(ctx.decisions), ctx.idx
        d = ctx.branch(cond, careful=True)
        if d:
            raise PyExc(exc_name, msg, site=site, kind=kind)
        elif ctx.idx == len(ctx.decisions) and before[1] == before[0] and not self._both_feasible_last():
            ctx.discharged_sites.append((site, exc_name))

    def _both_feasible_last(self):
        # the decision just taken was forced iff no alternative was queued for it
        ctx = self.ctx
        pend = self.explorer.pending
        if not ctx.decisions:
            return False
        alt = ctx.decisions[:-1] + [not ctx.decisions[-1]]
        return bool(pend) and pend[-1] == alt

    def truth(self, v, node=None):
        """truthiness of a value as Python bool or z3 Bool."""
        if v is None:
            return False
        if hasattr(v, 'py_truth'):
            return v.py_truth(self)
        if isinstance(v, bool):
            return v
        if isinstance(v, int):
            return v != 0
        if isinstance(v, SBool):
            return v.t
        if isinstance(v, SInt):
            return v.t != 0
        if isinstance(v, (str, bytes)):
            return len(v) > 0
        if isinstance(v, SStr):
            parts = []
            for tk in v.toks:
                if tk[0] == 'lit':
                    if tk[1]:
                        return True
                elif tk[0] in ('dec', 'hex', 'hexpad', 'ename'):
                    return True
                elif tk[0] == 'atom':
                    parts.append(StrNonEmpty(tk[1]))
                elif tk[0] == 'cond':
                    parts.append(z3.If(tk[1], _zt(self.truth(tk[2])), _zt(self.truth(tk[3]))))
                elif tk[0] == 'join':
                    parts.append(z3.Or([g if g is not True else z3.BoolVal(True) for g, _ in tk[2]] or [z3.BoolVal(False)]))
                else:
                    raise Unsupported('truthiness of %s token' % tk[0])
            return z3.Or(parts) if parts else False
        if isinstance(v, SBytes):
            return len(v) > 0
        if isinstance(v, OBytes):
            return self.lib.obytes_len(v) > 0
        if isinstance(v, (tuple, list)):
            return len(v) > 0
        if isinstance(v, PList):
            if not v.items:
                return False
            if any(g is True for g, _ in v.items):
                return True
            return z3.Or([g for g, _ in v.items])
        if isinstance(v, PDict):
            ks = v.keys()
            if not ks:
                return False
            gs = [v.d[k][0] for k in ks]
            if any(g is True for g in gs):
                return True
            return z3.Or(gs)
        if isinstance(v, SOpt):
            inner = self.truth(v.val)
            return z3.And(v.present, _zt(inner))
        if isinstance(v, SymList):
            return v.length > 0
        if isinstance(v, SymMap):
            return self.lib.symmap_nonempty(v)
        if isinstance(v, (Obj, FuncVal, ClassVal, EnumVal, BoundMethod, PartialVal, Builtin, ModuleVal)):
            if isinstance(v, EnumVal) and v.cls.kind in ('flag', 'intflag'):
                return v.value != 0
            return True
        if isinstance(v, SEnum):
            if v.cls.kind in ('flag', 'intflag'):
                return v.t != 0
            return True
        raise Unsupported('truthiness of %r' % type(v).__name__)

    def decide(self, v):
        """Python bool for a condition, forking when symbolic."""
        t = self.truth(v)
        if isinstance(t, bool):
            return t
        return self.ctx.branch(t)

    # ------------------------------------------------------------------ statements
    def exec_block(self, stmts, fr):
        for s in stmts:
            self.exec_stmt(s, fr)

    def _site(self, node):
        """identity of a merge site: the statement and the concrete iterations of the loops around it (the same `if` of a loop
        over a literal table is a different site in every iteration)"""
        return (id(node), tuple(getattr(self, 'loop_iters', ())))

    def no_merge(self):
        """called by contracts and observers that record what happens on the Python side (their records are not undone by the
        trail): inside a merged `if` the two outcomes must be explored apart"""
        if getattr(self, 'merge_depth', 0) > 0:
            raise MergeFail('observer with a side effect inside a merged branch')

    def exec_while_step(self, stmt, fr):
        """one iteration of a `while` under a loop rule: the test (it may bind names: `while buf := read(...)`) and, if it
        holds, the body; a false test leaves the loop like `break`"""
        if not (isinstance(stmt.test, ast.Constant) and stmt.test.value is True):
            if not self.decide(self.eval(stmt.test, fr)):
                raise BreakSig()
        self.exec_loop_body(stmt.body, fr)

    def exec_loop_body(self, body, fr):
        """one iteration of a loop body under a loop rule: `continue` ends the step like falling off the end of the body
        (`break` propagates to the rule)"""
        try:
            self.exec_block(body, fr)
        except ContinueSig:
            pass

    def exec_stmt(self, s, fr):
        m = getattr(self, 'st_' + type(s).__name__, None)
        if m is None:
            raise Unsupported('statement %s (line %s)' % (type(s).__name__, getattr(s, 'lineno', '?')))
        return m(s, fr)

    def st_Global(self, s, fr):
        g = fr.vars.get('$globals')
        if g is None:
            g = set()
            fr.vars['$globals'] = g
        g.update(s.names)

    def st_Match(self, s, fr):
        """`match` over value / singleton / or / wildcard / capture patterns with optional guards: the if/elif chain it stands for"""
        subj = ast.Name(id='$match_subject', ctx=ast.Load())
        fr.set('$match_subject', self.eval(s.subject, fr))

        def cond(p):
            if isinstance(p, ast.MatchValue):
                return ast.Compare(left=subj, ops=[ast.Eq()], comparators=[p.value]), []
            if isinstance(p, ast.MatchSingleton):
                return ast.Compare(left=subj, ops=[ast.Is()], comparators=[ast.Constant(value=p.value)]), []
            if isinstance(p, ast.MatchOr):
                cs = [cond(q) for q in p.patterns]
                if any(b for _, b in cs):
                    raise Unsupported('capture inside an or-pattern')
                return ast.BoolOp(op=ast.Or(), values=[c for c, _ in cs]), []
            if isinstance(p, ast.MatchClass) and not p.patterns and not p.kwd_patterns:
                # `case Cls():` is isinstance(subject, Cls)
                return ast.Call(func=ast.Name(id='isinstance', ctx=ast.Load()), args=[subj, p.cls], keywords=[]), []
            if isinstance(p, ast.MatchAs) and p.pattern is None:
                return ast.Constant(value=True), ([p.name] if p.name else [])
            if isinstance(p, ast.MatchAs):
                c, b = cond(p.pattern)
                return c, b + ([p.name] if p.name else [])
            raise Unsupported('match pattern %s' % type(p).__name__)
        chain = None
        for case in reversed(s.cases):
            c, binds = cond(case.pattern)
            body = [ast.Assign(targets=[ast.Name(id=nm, ctx=ast.Store())], value=subj) for nm in binds] + list(case.body)
            if case.guard is not None:
                if binds:
                    raise Unsupported('guard on a capturing pattern')
                c = ast.BoolOp(op=ast.And(), values=[c, case.guard])
            node = ast.If(test=c, body=body, orelse=[chain] if chain is not None else [])
            ast.copy_location(node, case.pattern)
            chain = node
        if chain is not None:
            ast.fix_missing_locations(chain)
            key = id(s)
            cached = _NORMALIZED.get(('match', key))
            if cached is None:
                _NORMALIZED[('match', key)] = (s, chain)
            else:
                chain = cached[1]
            self.exec_stmt(chain, fr)

    def st_Nonlocal(self, s, fr):
        nl = fr.vars.get('$nonlocals')
        if nl is None:
            nl = set()
            fr.vars['$nonlocals'] = nl
        nl.update(s.names)

    def st_Pass(self, s, fr):
        pass

    def st_Expr(self, s, fr):
        if isinstance(s.value, ast.Constant):
            return
        self.eval(s.value, fr)

    def st_Return(self, s, fr):
        raise ReturnSig(self.eval(s.value, fr) if s.value is not None else None)

    def st_Break(self, s, fr):
        raise BreakSig()

    def st_Continue(self, s, fr):
        raise ContinueSig()

    def st_Assign(self, s, fr):
        v = self.eval(s.value, fr)
        for t in s.targets:
            self.assign(t, v, fr)

    def st_AnnAssign(self, s, fr):
        if s.value is not None:
            self.assign(s.target, self.eval(s.value, fr), fr)

    def st_AugAssign(self, s, fr):
        # in-place list += extends the same object
        cur = self.eval(_load(s.target), fr)
        rhs = self.eval(s.value, fr)
        if isinstance(cur, PList) and isinstance(s.op, ast.Add):
            self.lib.list_extend(self, cur, rhs)
            return
        v = self.binop(s.op, cur, rhs, s)
        self.assign(s.target, v, fr)

    def st_Assert(self, s, fr):
        c = self.truth(self.eval(s.test, fr))
        self.raise_if(z3.Not(c) if not isinstance(c, bool) else (not c), 'AssertionError', 'assert', s)

    def st_Delete(self, s, fr):
        for t in s.targets:
            if isinstance(t, ast.Subscript):
                obj = self.eval(t.value, fr)
                key = self.eval(t.slice, fr)
                self.lib.delitem(self, obj, key, t)
            else:
                raise Unsupported('del of %s' % type(t).__name__)

    def st_FunctionDef(self, s, fr):
        f = FuncVal(s, self._module_of(fr), closure=fr)
        f.decorators = s.decorator_list
        fr.set(s.name, f)

    def st_Import(self, s, fr):
        for a in s.names:
            mod = self.repo.import_module(a.name)
            fr.set(a.asname or a.name.split('.')[0], mod if a.asname else self.repo.import_module(a.name.split('.')[0]))

    def st_ImportFrom(self, s, fr):
        mod = self.repo.import_module(s.module)
        for a in s.names:
            v = self.repo.module_attr(mod, a.name)
            fr.set(a.asname or a.name, v)

    def st_ClassDef(self, s, fr):
        cls = self.lib.build_class(self, s, fr)
        fr.set(s.name, cls)

    def st_Raise(self, s, fr):
        if s.exc is None:
            raise Unsupported('bare raise')
        v = self.eval(s.exc, fr)
        if isinstance(v, ClassVal):
            raise PyExc(v.name, '', site=(s.lineno, 'raise'), kind='raise')
        if isinstance(v, Obj) and v.cls.kind == 'exception':
            raise PyExc(v.cls.name, v.fields.get('msg', ''), site=(s.lineno, 'raise'), kind='raise')
        raise Unsupported('raise of %r' % (v,))

    def st_Try(self, s, fr):
        if s.finalbody:
            raise Unsupported('try/finally')
        caught = []
        for h in s.handlers:
            if h.type is None:
                caught.append('BaseException')
            elif isinstance(h.type, ast.Tuple):
                caught += [_exc_name(x) for x in h.type.elts]
            else:
                caught.append(_exc_name(h.type))
        self.try_stack.append(caught)
        try:
            try:
                self.exec_block(s.body, fr)
            finally:
                self.try_stack.pop()
        except PyExc as e:
            for h in s.handlers:
                names = []
                if h.type is None:
                    names = ['BaseException']
                elif isinstance(h.type, ast.Tuple):
                    names = [_exc_name(x) for x in h.type.elts]
                else:
                    names = [_exc_name(h.type)]
                if any(exc_matches(e.cls_name, n) for n in names):
                    if h.name:
                        fr.set(h.name, Obj(ClassVal(e.cls_name, None, 'exception'), {'msg': e.msg}))
                    self.exec_block(h.body, fr)
                    return
            raise
        else:
            self.exec_block(s.orelse, fr)

    def st_If(self, s, fr):
        t = self.truth(self.eval(s.test, fr), s.test)
        if isinstance(t, bool):
            self.exec_block(s.body if t else s.orelse, fr)
            return
        t = z3.simplify(t)
        if z3.is_true(t):
            return self.exec_block(s.body, fr)
        if z3.is_false(t):
            return self.exec_block(s.orelse, fr)
        if (self._site(s) not in self.explorer.nomerge_sites and _simple_body(s.body) and _simple_body(s.orelse)
                and self.policy.merge_if(self, s)):
            try:
                saved_site = getattr(self, '_merge_site', None)
                self._merge_site = self._site(s)
                try:
                    self._merged(t, lambda: self.exec_block(s.body, fr), lambda: self.exec_block(s.orelse, fr))
                finally:
                    self._merge_site = saved_site
                return
            except MergeFail:
                self.explorer.nomerge_sites.add(self._site(s))
                raise paths.Restart()
        if self.ctx.branch(t):
            self.exec_block(s.body, fr)
        else:
            self.exec_block(s.orelse, fr)

    def _merged(self, cond, run_a, run_b, want_values=False):
        """execute run_a under cond and run_b under not cond, merge all written locations.
        Exceptions raised inside a side propagate with that side's state (it is then simply the
        path on which that side was taken)."""
        ctx = self.ctx
        tr = ctx.trail
        # feasibility: if one side is infeasible just run the other
        if not ctx.feasible(cond):
            ctx.assume(z3.Not(cond))
            r = run_b()
            return r
        if not ctx.feasible(z3.Not(cond)):
            ctx.assume(cond)
            return run_a()

        def side(c, run):
            mark = len(tr.log)
            pcmark = len(ctx.pc)
            ctx.pc.append(c)
            self.merge_depth = getattr(self, 'merge_depth', 0) + 1
            try:
                val = run()
            except BaseException:
                self.merge_depth -= 1
                raise
            self.merge_depth -= 1
            # collect writes
            writes = {}
            for obj, key, old in tr.log[mark:]:
                k = (id(obj), key)
                if k not in writes:
                    writes[k] = [obj, key, old, None]
            for k, w in writes.items():
                w[3] = w[0]._loc_get(w[1])
            # undo
            for obj, key, old in reversed(tr.log[mark:]):
                obj._loc_set_raw(key, old)
            del tr.log[mark:]
            # scope the pc conjuncts added inside
            inner = ctx.pc[pcmark + 1:]
            del ctx.pc[pcmark:]
            for f in inner:
                ctx.pc.append(z3.Implies(c, f))
            return val, writes

        va, wa = side(cond, run_a)
        vb, wb = side(z3.Not(cond), run_b)
        keys = list(wa.keys()) + [k for k in wb.keys() if k not in wa]
        for k in keys:
            w = wa.get(k) or wb.get(k)
            obj, key, old = w[0], w[1], w[2]
            a = wa[k][3] if k in wa else old
            b = wb[k][3] if k in wb else old
            obj._write(key, self._merge_loc(cond, a, b, obj, key))
        if want_values:
            return merge(cond, va, vb)
        return None

    def _merge_loc(self, c, a, b, obj, key):
        if a is b:
            return a
        if isinstance(obj, PList):
            return merge_items(c, a, b)
        if isinstance(obj, PDict):
            if key == '__order__':
                out = list(a)
                for k in b:
                    if k not in out:
                        out.append(k)
                return tuple(out)
            ga, va = a if a is not MISSING else (False, MISSING)
            gb, vb = b if b is not MISSING else (False, MISSING)
            g = z3.simplify(z3.If(c, _zt(ga), _zt(gb)))
            if va is MISSING:
                v = vb
            elif vb is MISSING:
                v = va
            else:
                v = merge(c, va, vb)
            return (True if z3.is_true(g) else g, v)
        if isinstance(obj, Frame) and isinstance(key, str) and not key.startswith('$') and getattr(self, 'loop_iters', ()):
            # inside a loop over a literal table: a local variable that is undefined, or of another kind, on one of the two
            # paths (the temporary of the previous iteration is the common case) is merged into a value that must not be read;
            # a read makes the site a fork again
            site = getattr(self, '_merge_site', None)
            if isinstance(a, Poison) or isinstance(b, Poison):
                return a if isinstance(a, Poison) else b
            if a is MISSING or b is MISSING:
                return Poison(key, site)
            try:
                return merge(c, a, b)
            except MergeFail:
                if site is None:
                    raise
                return Poison(key, site)
        if a is MISSING or b is MISSING:
            raise MergeFail('variable defined on one side only')
        return merge(c, a, b)

    def st_For(self, s, fr):
        it = self.eval(s.iter, fr)
        if self._consume(it):
            self.exec_block(s.orelse, fr)
            return
        if hasattr(it, 'py_getitem') and not isinstance(it, SymList):
            hook = getattr(self, 'symloop_hook', None)
            if hook is not None and hook(self, s, fr, it):
                return
            raise Unsupported('loop over %s needs an invariant' % type(it).__name__)
        if isinstance(it, SymList):
            hook = getattr(self, 'symloop_hook', None)
            if hook is not None and hook(self, s, fr, it):
                return
            if self._for_as_comprehension(s, fr, it):
                return
            return self._for_symlist_havoc(s, fr, it)
        if isinstance(it, PList) and not it.is_concrete():
            # guarded list: an item takes part in the loop iff its guard holds (forked per item)
            items = []
            for g, v in it.items:
                if g is True or self.ctx.branch(g):
                    items.append(v)
        else:
            items = self.iterate(it, s)
        broke = False
        outer = tuple(getattr(self, 'loop_iters', ()))
        try:
            for k_, v in enumerate(items):
                self.loop_iters = outer + ((id(s), k_),)
                self.assign(s.target, v, fr)
                try:
                    self.exec_block(_continue_guards(s.body), fr)
                except BreakSig:
                    broke = True
                    break
                except ContinueSig:
                    continue
        finally:
            self.loop_iters = outer
        if not broke:
            self.exec_block(s.orelse, fr)

    def _for_as_comprehension(self, s, fr, lst):
        """loop normal form: `for T in S: [if C:] A.append(E)` / `A.extend(E)` / `if not C: continue; A.append(E)` with A an
        empty local list is the comprehension `A = [E for T in S if C]` (resp. its flattening) - evaluated as such, so a
        filter loop and the comprehension it was unrolled from get the same value."""
        if s.orelse or not isinstance(s.target, ast.Name):
            return False
        body = list(s.body)
        conds = []
        while len(body) >= 2 and isinstance(body[0], ast.If) and not body[0].orelse and len(body[0].body) == 1 \
                and isinstance(body[0].body[0], ast.Continue):
            conds.append(ast.UnaryOp(op=ast.Not(), operand=body[0].test))
            body = body[1:]
        while len(body) == 1 and isinstance(body[0], ast.If) and not body[0].orelse:
            conds.append(body[0].test)
            body = list(body[0].body)
        if len(body) != 1 or not isinstance(body[0], ast.Expr) or not isinstance(body[0].value, ast.Call):
            return False
        call = body[0].value
        if not (isinstance(call.func, ast.Attribute) and call.func.attr in ('append', 'extend') and isinstance(call.func.value, ast.Name)
                and len(call.args) == 1 and not call.keywords):
            return False
        acc_name = call.func.value.id
        if acc_name == s.target.id or fr._loc_get(acc_name) is MISSING:
            return False
        acc = fr._loc_get(acc_name)
        if not (isinstance(acc, PList) and acc.is_concrete() and not acc.values()):
            return False
        # the accumulator must not occur in the condition or the element (then the loop is not a map/filter)
        for node in conds + [call.args[0]]:
            for x in ast.walk(node):
                if isinstance(x, ast.Name) and x.id == acc_name:
                    return False
        comp = ast.ListComp(elt=call.args[0], generators=[ast.comprehension(target=s.target, iter=s.iter, ifs=conds, is_async=0)])
        ast.copy_location(comp, s)
        ast.fix_missing_locations(comp)
        r = self._comp(comp, fr, 'list')
        if call.func.attr == 'extend':
            if not isinstance(r, SymList):
                return False
            from .libstubs import flatten_symlist
            r = flatten_symlist(self, r)
        fr.set(acc_name, r)
        return True

    def _for_symlist_havoc(self, s, fr, lst):
        """loop over a list of symbolic length without a supplied invariant: *typed havoc* summary.
        The variables the body assigns are replaced by arbitrary values of their current kind (the
        invariant `True` over typed state); the body is executed once on an arbitrary element so that
        every raise site in it is checked; the loop is left either by `break` (state after that
        iteration) or by exhaustion (havoced state).  Sound for safety obligations; values computed by
        the loop become opaque."""
        if s.orelse:
            raise Unsupported('for/else over symbolic list')
        ctx = self.ctx
        names = set()
        for n in ast.walk(ast.Module(body=s.body, type_ignores=[])):
            if isinstance(n, (ast.Assign, ast.AugAssign, ast.AnnAssign)):
                tg = n.targets if isinstance(n, ast.Assign) else [n.target]
                for t in tg:
                    for x in ast.walk(t):
                        if isinstance(x, ast.Name) and isinstance(x.ctx, ast.Store):
                            names.add(x.id)
                    if isinstance(t, (ast.Attribute, ast.Subscript)):
                        raise Unsupported('loop over symbolic list writes to attribute/subscript (needs an invariant)')
            if isinstance(n, ast.Call) and isinstance(n.func, ast.Attribute) and n.func.attr in (
                    'append', 'extend', 'insert', 'pop', 'clear', 'update') and isinstance(n.func.value, ast.Name):
                names.add(n.func.value.id)
            if isinstance(n, (ast.Yield, ast.YieldFrom)):
                raise Unsupported('yield inside loop over symbolic list (needs an invariant)')
        tag = ctx.fresh('loop')
        ctx.notes.setdefault('havoc_loops', {})[tag] = lst

        def havoc(name, v):
            if isinstance(v, bool) or isinstance(v, SBool):
                return SBool(z3.Bool('%s.%s' % (tag, name)))
            if is_intlike(v):
                return SInt(z3.Int('%s.%s' % (tag, name)))
            if is_strlike(v):
                return atom_str(z3.Int('%s.%s' % (tag, name)))
            if isinstance(v, (bytes, SBytes, OBytes)):
                return OBytes(z3.Int('%s.%s' % (tag, name)), origin=('loop-havoc', lst, name))
            if isinstance(v, PList):
                n_ = z3.Int('%s.%s.len' % (tag, name))
                ctx.facts.append(n_ >= 0)

                def elem(j):
                    raise Unsupported('element of a list built by a loop without invariant')
                return SymList('%s.%s' % (tag, name), n_, elem, origin=('loop-havoc', lst, name))
            raise Unsupported('loop over symbolic list modifies a %s (needs an invariant)' % type(v).__name__)

        def do_havoc():
            for nm in sorted(names):
                try:
                    cur = self.lookup(nm, fr)
                except Unsupported:
                    continue
                fr.set(nm, havoc(nm, cur))
        do_havoc()
        by_break = ctx.branch(z3.Bool(tag + '.left_by_break'))
        k = z3.Int(tag + '.k')
        if by_break:
            ctx.assume(z3.And(k >= 0, k < lst.length))
            self.assign(s.target, lst.elem(k), fr)
            try:
                self.exec_block(s.body, fr)
            except BreakSig:
                return
            except ContinueSig:
                pass
            raise paths.PathCut('non-breaking iteration (covered by the havoc state)')
        return

    def st_While(self, s, fr):
        hook = getattr(self, 'symwhile_hook', None)
        if hook is not None and hook(self, s, fr):
            return
        n = 0
        while True:
            if not self.decide(self.eval(s.test, fr)):
                break
            n += 1
            if n > 200:
                raise Unsupported('while loop without invariant (line %d)' % s.lineno)
            try:
                self.exec_block(s.body, fr)
            except BreakSig:
                return
            except ContinueSig:
                continue
        self.exec_block(s.orelse, fr)

    # ------------------------------------------------------------------ assignment
    def assign(self, t, v, fr):
        if isinstance(t, ast.Name):
            fr.set(t.id, v)
        elif isinstance(t, (ast.Tuple, ast.List)):
            vals = self.iterate(v, t)
            stars = [i for i, e in enumerate(t.elts) if isinstance(e, ast.Starred)]
            if len(stars) > 1:
                raise Unsupported('two starred targets')
            if stars:
                k = stars[0]
                after = len(t.elts) - k - 1
                if len(vals) < len(t.elts) - 1:
                    raise PyExc('ValueError', 'unpack', site=(t.lineno, 'unpack'), kind='unpack')
                for e, x in zip(t.elts[:k], vals[:k]):
                    self.assign(e, x, fr)
                self.assign(t.elts[k].value, PList(list(vals[k:len(vals) - after])), fr)
                for e, x in zip(t.elts[k + 1:], vals[len(vals) - after:] if after else []):
                    self.assign(e, x, fr)
                return
            if len(vals) != len(t.elts):
                raise PyExc('ValueError', 'unpack', site=(t.lineno, 'unpack'), kind='unpack')
            for e, x in zip(t.elts, vals):
                self.assign(e, x, fr)
        elif isinstance(t, ast.Attribute):
            obj = self.eval(t.value, fr)
            self.lib.setattr_(self, obj, t.attr, v, t)
        elif isinstance(t, ast.Subscript):
            obj = self.eval(t.value, fr)
            key = self.eval(t.slice, fr)
            self.lib.setitem(self, obj, key, v, t)
        else:
            raise Unsupported('assignment target %s' % type(t).__name__)

    # ------------------------------------------------------------------ iteration
    def iterate(self, it, node=None):
        if self._consume(it):
            return []
        """concrete python list of the values an iterable yields (forking never; guarded lists
        are not iterable by statement loops)."""
        if isinstance(it, (tuple, list)):
            return list(it)
        if isinstance(it, PList):
            return it.values()
        if isinstance(it, str):
            return list(it)
        if isinstance(it, bytes):
            return list(it)
        if isinstance(it, SBytes):
            return list(it.elems)
        if isinstance(it, range):
            return list(it)
        if isinstance(it, ClassVal) and it.kind in ('enum', 'flag', 'intflag', 'intenum'):
            return [EnumVal(it, n, v) for n, v in it.iter_members()]
        if isinstance(it, PDict):
            ks = it.keys()
            for k in ks:
                if it.d[k][0] is not True:
                    raise Unsupported('iteration over dict with symbolic presence')
            return ks
        if isinstance(it, GenVal):
            return self.run_generator(it).values()
        if isinstance(it, LazyIter):
            return self.lib.force_lazy(self, it)
        if isinstance(it, SOpt):
            raise Unsupported('iteration over optional')
        raise Unsupported('iteration over %s' % type(it).__name__)

    def run_generator(self, g):
        if g.done is None:
            out = PList()
            g.frame.vars['$yield'] = out
            try:
                self.exec_block(g.func.node.body, g.frame)
            except ReturnSig:
                pass
            g.done = out
        return g.done

    # ------------------------------------------------------------------ expressions
    def eval(self, n, fr):
        m = getattr(self, 'ex_' + type(n).__name__, None)
        if m is None:
            raise Unsupported('expression %s (line %s)' % (type(n).__name__, getattr(n, 'lineno', '?')))
        return m(n, fr)

    def ex_Constant(self, n, fr):
        return n.value

    def ex_Name(self, n, fr):
        return self.lookup(n.id, fr, n)

    def lookup(self, name, fr, node=None):
        f = fr
        while f is not None:
            if name in f.vars:
                if WRITTEN_GLOBALS and not LOADING[0] and '$module' in f.vars and (f.vars['$module'].name, name) in WRITTEN_GLOBALS:
                    nm = '%s.%s' % (f.vars['$module'].name, name)
                    GLOBAL_READS[nm] = GLOBAL_READS.get(nm, 0) + 1
                v = f.vars[name]
                if isinstance(v, Poison):
                    # the variable is live after all: the two paths that were merged at that site have to be explored apart
                    if v.site is None or v.site in self.explorer.nomerge_sites:
                        raise Unsupported('read of the local %r, which is undefined or of another kind on one of two merged paths' % name)
                    self.explorer.nomerge_sites.add(v.site)
                    raise paths.Restart()
                return v
            f = f.parent
        if name in self.builtins:
            return self.builtins[name]
        raise Unsupported('unbound name %s (line %s)' % (name, getattr(node, 'lineno', '?')))

    def _module_of(self, fr):
        f = fr
        while f is not None:
            if '$module' in f.vars:
                return f.vars['$module']
            f = f.parent
        return None

    def ex_Tuple(self, n, fr):
        out = []
        for e in n.elts:
            if isinstance(e, ast.Starred):
                out.extend(self.iterate(self.eval(e.value, fr), e))
            else:
                out.append(self.eval(e, fr))
        return tuple(out)

    def ex_List(self, n, fr):
        out = []
        for e in n.elts:
            if isinstance(e, ast.Starred):
                out.extend(self.iterate(self.eval(e.value, fr), e))
            else:
                out.append(self.eval(e, fr))
        return PList(out)

    def ex_Dict(self, n, fr):
        d = PDict()
        for k, v in zip(n.keys, n.values):
            if k is None:
                src = self.eval(v, fr)
                self.lib.dict_update(self, d, src, n)
                continue
            kv = self.eval(k, fr)
            vv = self.eval(v, fr)
            self.lib.setitem(self, d, kv, vv, n)
        return d

    def ex_Set(self, n, fr):
        return tuple(self.eval(e, fr) for e in n.elts)

    def ex_JoinedStr(self, n, fr):
        acc = ''
        for part in n.values:
            if isinstance(part, ast.Constant):
                acc = str_concat(acc, part.value)
            else:
                acc = str_concat(acc, self.ex_FormattedValue(part, fr))
        return acc

    def ex_FormattedValue(self, n, fr):
        v = self.eval(n.value, fr)
        spec = None
        if n.format_spec is not None:
            spec = self.eval(n.format_spec, fr)
            if not isinstance(spec, str):
                raise Unsupported('symbolic format spec')
        if n.conversion == ord('r'):
            s = self.lib.to_repr(self, v, n)
        elif n.conversion == ord('s'):
            s = self.lib.to_str(self, v, n)
        else:
            s = None
        return self.lib.format_value(self, v if s is None else s, spec, n)

    def ex_Attribute(self, n, fr):
        obj = self.eval(n.value, fr)
        return self.lib.getattr_(self, obj, n.attr, n)

    def ex_Subscript(self, n, fr):
        obj = self.eval(n.value, fr)
        if isinstance(n.slice, ast.Slice):
            lo = self.eval(n.slice.lower, fr) if n.slice.lower is not None else None
            hi = self.eval(n.slice.upper, fr) if n.slice.upper is not None else None
            st = self.eval(n.slice.step, fr) if n.slice.step is not None else None
            return self.lib.getslice(self, obj, lo, hi, st, n)
        key = self.eval(n.slice, fr)
        return self.lib.getitem(self, obj, key, n)

    def ex_UnaryOp(self, n, fr):
        v = self.eval(n.operand, fr)
        if isinstance(n.op, ast.Not):
            t = self.truth(v, n)
            if isinstance(t, bool):
                return not t
            return mk_bool(z3.Not(t))
        if isinstance(n.op, ast.USub):
            if isinstance(v, (int, float)) and not isinstance(v, bool):
                return -v
            return mk_int(-zi(v))
        if isinstance(n.op, ast.UAdd):
            return v
        if isinstance(n.op, ast.Invert):
            if isinstance(v, int):
                return ~v
            return mk_int(-zi(v) - 1)
        raise Unsupported('unary op')

    def ex_BinOp(self, n, fr):
        a = self.eval(n.left, fr)
        b = self.eval(n.right, fr)
        return self.binop(n.op, a, b, n)

    def ex_BoolOp(self, n, fr):
        is_and = isinstance(n.op, ast.And)
        return self._boolop(is_and, n.values, fr, n)

    def _boolop(self, is_and, nodes, fr, n):
        v = self.eval(nodes[0], fr)
        if len(nodes) == 1:
            return v
        t = self.truth(v, n)
        if isinstance(t, bool):
            if t == is_and:
                return self._boolop(is_and, nodes[1:], fr, n)
            return v
        t = z3.simplify(t)
        if z3.is_true(t) or z3.is_false(t):
            tv = z3.is_true(t)
            if tv == is_and:
                return self._boolop(is_and, nodes[1:], fr, n)
            return v
        cond_rest = t if is_and else z3.Not(t)
        # evaluate the rest under the condition that it is reached

        def rest():
            return self._boolop(is_and, nodes[1:], fr, n)

        def keep():
            return v
        try:
            if self._site(n) in self.explorer.nomerge_sites:
                raise MergeFail()
            r = self._merged(cond_rest, rest, keep, want_values=True)
            return r
        except MergeFail:
            if self._site(n) not in self.explorer.nomerge_sites:
                # result only used for truthiness in most places: retry as bools
                self.explorer.nomerge_sites.add(self._site(n))
                raise paths.Restart()
            if self.ctx.branch(cond_rest):
                return rest()
            return v

    def ex_IfExp(self, n, fr):
        t = self.truth(self.eval(n.test, fr), n)
        if isinstance(t, bool):
            return self.eval(n.body if t else n.orelse, fr)
        t = z3.simplify(t)
        if z3.is_true(t):
            return self.eval(n.body, fr)
        if z3.is_false(t):
            return self.eval(n.orelse, fr)
        if self._site(n) not in self.explorer.nomerge_sites:
            try:
                return self._merged(t, lambda: self.eval(n.body, fr), lambda: self.eval(n.orelse, fr),
                                    want_values=True)
            except MergeFail:
                self.explorer.nomerge_sites.add(self._site(n))
                raise paths.Restart()
        if self.ctx.branch(t):
            return self.eval(n.body, fr)
        return self.eval(n.orelse, fr)

    def ex_Compare(self, n, fr):
        left = self.eval(n.left, fr)
        res = None
        for op, rn in zip(n.ops, n.comparators):
            right = self.eval(rn, fr)
            r = self.compare(op, left, right, n)
            if res is None:
                res = r
            else:
                if isinstance(res, bool) and isinstance(r, bool):
                    res = res and r
                elif res is False or r is False:
                    res = False
                else:
                    res = mk_bool(z3.And(_zt(res if isinstance(res, bool) else res.t), _zt(r if isinstance(r, bool) else r.t)))
            left = right
        return res

    def ex_Lambda(self, n, fr):
        return FuncVal(n, self._module_of(fr), name='<lambda>', closure=fr)

    def ex_Call(self, n, fr):
        f = self.eval(n.func, fr)
        args = []
        for a in n.args:
            if isinstance(a, ast.Starred):
                args.extend(self.iterate(self.eval(a.value, fr), a))
            else:
                args.append(self.eval(a, fr))
        kwargs = {}
        for k in n.keywords:
            if k.arg is None:
                d = self.eval(k.value, fr)
                if not isinstance(d, PDict):
                    raise Unsupported('** of %s' % type(d).__name__)
                kwargs['$starstar'] = d
            else:
                kwargs[k.arg] = self.eval(k.value, fr)
        return self.call(f, args, kwargs, n)

    def ex_ListComp(self, n, fr):
        return self._comp(n, fr, 'list')

    def ex_GeneratorExp(self, n, fr):
        # a generator expression over a lazy stream is itself a lazy stage: (f(x) for x in s if c(x)) = map(f, filter(c, s))
        if len(n.generators) == 1 and isinstance(n.generators[0].target, ast.Name):
            g = n.generators[0]
            src = self.eval(g.iter, fr)
            if isinstance(src, (LazyIter, GenVal)) or type(src).__name__ == 'StreamSrc':
                mod = self._module_of(fr)
                arg = ast.arguments(posonlyargs=[], args=[ast.arg(arg=g.target.id)], kwonlyargs=[], kw_defaults=[], defaults=[])
                out = src
                for c in g.ifs:
                    lam = ast.Lambda(args=arg, body=c)
                    ast.copy_location(lam, c)
                    out = LazyIter('filter', FuncVal(lam, mod, closure=fr), out)
                if not (isinstance(n.elt, ast.Name) and n.elt.id == g.target.id):
                    lam = ast.Lambda(args=arg, body=n.elt)
                    ast.copy_location(lam, n.elt)
                    out = LazyIter('map', FuncVal(lam, mod, closure=fr), out)
                elif not g.ifs:
                    out = LazyIter('map', None, out)
                return out
        r = self._comp(n, fr, 'list')
        # the produced sequence stands for a generator object: whoever iterates it a second time finds it exhausted
        if isinstance(r, (PList, SymList)):
            r.one_shot = True
        return r

    def _consume(self, it):
        """a generator-expression value is being iterated: True if it is already exhausted (iterate nothing)"""
        if not getattr(it, 'one_shot', False):
            return False
        if getattr(it, 'consumed', False):
            return True
        it.consumed = True
        if self.ctx is not None:
            self.ctx.consumed_gens.append(it)
        elif LOADING[0] == 0:
            pass
        note_global_write(it)
        return False

    def ex_DictComp(self, n, fr):
        return self._comp(n, fr, 'dict')

    def ex_SetComp(self, n, fr):
        return self._comp(n, fr, 'list')

    def _comp(self, n, fr, kind):
        if len(n.generators) == 2 and kind == 'list':
            g1, g2 = n.generators
            flat = (not g1.ifs and not g2.ifs and isinstance(g1.target, ast.Name) and isinstance(g2.target, ast.Name)
                    and isinstance(g2.iter, ast.Name) and g2.iter.id == g1.target.id and isinstance(n.elt, ast.Name) and n.elt.id == g2.target.id)
            src = self.eval(g1.iter, fr)
            if flat and isinstance(src, SymList):
                # [x for xs in S for x in xs] is list(chain.from_iterable(S))
                from .libstubs import flatten_symlist
                return flatten_symlist(self, src)
            if isinstance(src, (PList, tuple, list, range)) and (not isinstance(src, PList) or src.is_concrete()):
                out = []
                for v in self.iterate(src, n):
                    f1 = Frame(parent=fr)
                    self.assign(g1.target, v, f1)
                    if not all(self.decide(self.eval(c, f1)) for c in g1.ifs):
                        continue
                    for w in self.iterate(self.eval(g2.iter, f1), n):
                        f2 = Frame(parent=f1)
                        self.assign(g2.target, w, f2)
                        if not all(self.decide(self.eval(c, f2)) for c in g2.ifs):
                            continue
                        out.append(self.eval(n.elt, f2))
                return PList(out)
            raise Unsupported('nested comprehension over a symbolic sequence')
        if len(n.generators) != 1:
            raise Unsupported('nested comprehension')
        g = n.generators[0]
        src = self.eval(g.iter, fr)
        hook = getattr(self, 'comp_hook', None)
        if hook is not None:
            r = hook(self, n, g, src, fr, kind)
            if r is not None:
                return r
        if type(src).__name__ == 'OpaqueVal':
            # comprehension over a value we do not model: kept structurally ("swap" = {v: k for k, v in src})
            shape = ('other',)
            if (kind == 'dict' and isinstance(g.target, ast.Tuple) and len(g.target.elts) == 2 and not g.ifs
                    and all(isinstance(e, ast.Name) for e in g.target.elts) and isinstance(n.key, ast.Name)
                    and isinstance(n.value, ast.Name) and n.key.id == g.target.elts[1].id and n.value.id == g.target.elts[0].id):
                shape = ('swap',)
            from .libops import OpaqueVal
            return OpaqueVal('comp', (kind, src, shape))
        guarded_src = isinstance(src, PList) and not src.is_concrete() and kind == 'list'
        if isinstance(src, (SymList, LazyIter, SymMap)) or (isinstance(src, PList) and not src.is_concrete() and not guarded_src):
            return self.lib.symbolic_comp(self, n, g, src, fr, kind)
        # a list whose items are present under guards (flag names): the comprehension keeps each result under its item's guard
        pairs = list(src.items) if guarded_src else [(True, v) for v in self.iterate(src, n)]
        out = PList() if kind == 'list' else PDict()
        acc = []
        for g0, v in pairs:
            f2 = Frame(parent=fr)
            self.assign(g.target, v, f2)
            guard = g0
            for c in g.ifs:
                t = self.truth(self.eval(c, f2), c)
                if isinstance(t, bool):
                    if not t:
                        guard = False
                        break
                else:
                    t = z3.simplify(t)
                    if z3.is_false(t):
                        guard = False
                        break
                    if not z3.is_true(t):
                        guard = t if guard is True else z3.And(guard, t)
            if guard is False:
                continue
            if guard is not True:
                # element evaluated under its guard
                pcmark = len(self.ctx.pc)
                self.ctx.pc.append(guard)
                try:
                    val = self._comp_elt(n, f2, kind)
                finally:
                    inner = self.ctx.pc[pcmark + 1:]
                    del self.ctx.pc[pcmark:]
                    for f in inner:
                        self.ctx.pc.append(z3.Implies(guard, f))
            else:
                val = self._comp_elt(n, f2, kind)
            acc.append((guard, val))
        if kind == 'list':
            return PList(guarded=acc)
        for gd, (k, v) in acc:
            if gd is not True:
                raise Unsupported('guarded dict comprehension')
            self.lib.setitem(self, out, k, v, n)
        return out

    def _comp_elt(self, n, f2, kind):
        if kind == 'dict':
            return (self.eval(n.key, f2), self.eval(n.value, f2))
        return self.eval(n.elt, f2)

    def ex_NamedExpr(self, n, fr):
        v = self.eval(n.value, fr)
        self.assign(n.target, v, fr)
        return v

    def ex_Yield(self, n, fr):
        v = self.eval(n.value, fr) if n.value is not None else None
        sink = self.lookup('$yield', fr)
        sink.append(v)
        return None

    def ex_YieldFrom(self, n, fr):
        v = self.eval(n.value, fr)
        sink = self.lookup('$yield', fr)
        if isinstance(v, GenVal) and v.done is None and getattr(v, 'func', None) is not None and getattr(v.func, 'node', None) is not None \
                and isinstance(v.func.node, (ast.FunctionDef,)):
            # delegation to a generator function that has not started: its yields are the caller's, in order
            v.frame.vars['$yield'] = sink
            v.done = PList()
            try:
                self.exec_block(v.func.node.body, v.frame)
            except ReturnSig:
                pass
            return None
        for x in self.iterate(v, n):
            sink.append(x)
        return None

    def ex_Starred(self, n, fr):
        raise Unsupported('starred')

    # ------------------------------------------------------------------ operators
    def binop(self, op, a, b, node=None):
        return self.lib.binop(self, op, a, b, node)

    def compare(self, op, a, b, node=None):
        return self.lib.compare(self, op, a, b, node)

    # ------------------------------------------------------------------ calls
    def call(self, f, args, kwargs=None, node=None):
        kwargs = kwargs or {}
        if isinstance(f, Builtin):
            return f.impl(self, args, kwargs, node)
        if isinstance(f, BoundMethod):
            return self.call(f.func, [f.self_val] + list(args), kwargs, node)
        if isinstance(f, PartialVal):
            kw = dict(f.kwargs)
            kw.update(kwargs)
            return self.call(f.func, f.args + list(args), kw, node)
        if isinstance(f, ClassVal):
            return self.lib.instantiate(self, f, args, kwargs, node)
        if isinstance(f, FuncVal):
            return self.call_func(f, args, kwargs, node)
        if isinstance(f, SOpt):
            # a value that may be None: calling None is a TypeError, otherwise the call of the value
            self.raise_if(z3.Not(f.present), 'TypeError', 'none-call', node)
            return self.call(f.val, args, kwargs, node)
        from .libstubs import Decorator
        if isinstance(f, Decorator):
            if len(args) == 1 and not kwargs and isinstance(args[0], (FuncVal, ClassVal)):
                return args[0]
            return f
        raise Unsupported('call of %r' % type(f).__name__)

    def call_func(self, f, args, kwargs, node=None):
        c = self.contracts.get(f.qualname)
        if c is not None:
            return c(self, f, args, kwargs, node)
        if any(_dec_name(d) in ('lru_cache', 'cache', 'cached_property') for d in getattr(f, 'decorators', []) or []):
            # a memoised function answers from its cache: its result is a function of the arguments only (and of
            # whatever the state was at the first call) - never of the current state
            if f.cls is None and not getattr(f, 'closure', None):
                # a memoised module-level function can only depend on its arguments and on module-level state, which the
                # frame obligation (values.GLOBAL_WRITES) shows to be constant: the body is the function
                return self.inline(f, args, kwargs, node)
            from .libops import _single_atom
            key = []
            for a in args[1:] if f.cls is not None else args:
                key.append(zi(a) if is_intlike(a) else z3.IntVal(0))
            fn = z3.Function('memo.' + f.name, *([z3.IntSort()] * (len(key) + 1)))
            return atom_str(fn(*key)) if key else atom_str(z3.Int('memo.' + f.name))
        return self.inline(f, args, kwargs, node)

    def bind(self, f, args, kwargs):
        a = f.node.args
        fr = Frame(parent=f.closure if f.closure is not None else f.module.frame)
        params = [x.arg for x in a.posonlyargs + a.args]
        defaults = a.defaults
        kwargs = dict(kwargs)
        ss = kwargs.pop('$starstar', None)
        if ss is not None:
            for k in ss.keys():
                g, v = ss.d[k]
                if g is not True:
                    raise Unsupported('** with symbolic presence into function')
                kwargs[k] = v
        if len(args) > len(params) and a.vararg is None:
            raise PyExc('TypeError', 'too many positional arguments', kind='call')
        for i, p in enumerate(params):
            if i < len(args):
                fr.vars[p] = args[i]
            elif p in kwargs:
                fr.vars[p] = kwargs.pop(p)
            else:
                di = i - (len(params) - len(defaults))
                if di >= 0:
                    fr.vars[p] = self._default_of(f, ('pos', di), defaults[di], p)
                else:
                    raise PyExc('TypeError', 'missing argument %s' % p, kind='call')
        if a.vararg is not None:
            fr.vars[a.vararg.arg] = tuple(args[len(params):])
        for i, p in enumerate(a.kwonlyargs):
            if p.arg in kwargs:
                fr.vars[p.arg] = kwargs.pop(p.arg)
            elif a.kw_defaults[i] is not None:
                fr.vars[p.arg] = self._default_of(f, ('kw', i), a.kw_defaults[i], p.arg)
            else:
                raise PyExc('TypeError', 'missing kw argument', kind='call')
        if kwargs:
            if a.kwarg is not None:
                fr.vars[a.kwarg.arg] = PDict(list(kwargs.items()))
            else:
                raise PyExc('TypeError', 'unexpected keyword %s' % list(kwargs), kind='call')
        return fr

    def _default_of(self, f, key, expr, pname):
        """default values are evaluated once per function object, as in CPython (evaluated at first use here: the
        expressions are side-effect free in the subset); a mutable default is shared by every call and is therefore
        module-level state for the frame obligation"""
        cache = f.__dict__.setdefault('default_cache', {})
        if key not in cache:
            LOADING[0] += 1
            try:
                v = self.eval(expr, Frame(parent=f.closure if f.closure is not None else f.module.frame))
            finally:
                LOADING[0] -= 1
            cache[key] = v
            if isinstance(v, Mutable):
                register_global('%s(<default of %s>)' % (f.qualname, pname), v)
            elif isinstance(v, Obj):
                for fn, fv in list(getattr(v, 'fields', {}).items()):
                    register_global('%s(<default of %s>).%s' % (f.qualname, pname, fn), fv)
        return cache[key]

    def inline(self, f, args, kwargs, node=None):
        fr = self.bind(f, args, kwargs)
        if isinstance(f.node, ast.Lambda):
            return self.eval(f.node.body, fr)
        if _has_yield(f.node):
            return GenVal(f, fr)
        self.call_depth += 1
        if self.call_depth > self.max_depth:
            self.call_depth -= 1
            raise Unsupported('call depth')
        try:
            self.exec_block(f.node.body, fr)
        except ReturnSig as r:
            return r.v
        finally:
            self.call_depth -= 1
        return None


def _dec_name(d):
    if isinstance(d, ast.Name):
        return d.id
    if isinstance(d, ast.Attribute):
        return d.attr
    if isinstance(d, ast.Call):
        return _dec_name(d.func)
    return ''


def _zt(b):
    if isinstance(b, bool):
        return z3.BoolVal(b)
    return b


def _load(t):
    import copy
    t2 = copy.copy(t)
    t2.ctx = ast.Load()
    return t2


def _exc_name(n):
    if isinstance(n, ast.Name):
        return n.id
    if isinstance(n, ast.Attribute):
        if isinstance(n.value, ast.Name) and n.value.id == 'struct':
            return 'struct.error'
        return n.attr
    raise Unsupported('exception class expression')
