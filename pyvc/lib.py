"""Semantics of operators, attribute/subscript access, builtins and the assumed contracts of the
standard-library / third-party calls the repository makes (DESIGN section 4.3)."""
import ast
import z3

from .values import *  # noqa
from .values import _and
from .interp import GenVal, LazyIter, _zt
from .repo import Unknown
from .libops import *  # noqa
from .libattr import *  # noqa
from .libattr import (obytes_len, obytes_concat, obytes_equal, symmap_contains, symmap_nonempty, symlist_contains,
                      symlist_concat, symbolic_comp, list_extend, dict_update, force_lazy, getattr_, getitem, getslice, setitem)
from .libops import (binop, compare, to_str, to_repr, format_value, setattr_, delitem, StrOfInt, values_equal)


def make_builtins(it):
    from . import libbuiltins
    return libbuiltins.make(it)


def stub_module(it, name):
    from . import libstubs
    return libstubs.stub_module(it, name)


def build_class(it, node, fr):
    from . import libclasses
    return libclasses.build_class(it, node, fr)


def instantiate(it, cls, args, kwargs, node):
    from . import libclasses
    return libclasses.instantiate(it, cls, args, kwargs, node)
