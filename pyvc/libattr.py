"""Attribute and item access, methods of builtin container / str / bytes types, symbolic tables."""
import ast
import z3

from .values import *  # noqa
from .repo import Unknown, HostOpaque
from .libops import (_zt, _hashkey, values_equal, to_str, to_repr, OpaqueVal, OpaqueFloat, StrOfInt, enum_value,
                     _belems)

I = z3.IntSort()
B = z3.BoolSort()

# opaque byte-string algebra (assumed contracts of bytes methods; only equalities of terms are used)
BConcat = z3.Function('b_concat', I, I, I)
BSlice = z3.Function('b_slice', I, I, I, I)          # (b, lo, hi) ; hi = -1 means end
BStrip0 = z3.Function('b_strip0', I, I)
BDecode = z3.Function('b_decode', I, I)              # bytes id -> string atom
BDecodeBS = z3.Function('b_decode_backslashreplace', I, I)
BValidUtf8 = z3.Function('b_valid_utf8', I, B)
BLen = z3.Function('b_len', I, I)
BLit = z3.Function('b_lit', I, I)                    # interned literal -> bytes id
BByte = z3.Function('b_byte', I, I, I)
BJoin = z3.Function('b_join', I, I)                  # list id -> bytes id
SLower = z3.Function('s_lower', I, I)


def obytes_of(v):
    """Int term identifying a bytes value."""
    if isinstance(v, OBytes):
        return v.t
    if isinstance(v, bytes):
        return BLit(z3.IntVal(intern_str(v.decode('latin1') + '\x00b')))
    raise Unsupported('opaque view of SBytes')


def obytes_len(v):
    return BLen(obytes_of(v))


def obytes_concat(it, a, b):
    if isinstance(a, bytes) and len(a) == 0:
        return b
    if isinstance(b, bytes) and len(b) == 0:
        return a
    return OBytes(BConcat(obytes_of(a), obytes_of(b)))


def obytes_equal(it, a, b):
    return obytes_of(a) == obytes_of(b)


# ------------------------------------------------------------------------------ SymMap operations
class SymMapM(SymMap, Mutable):
    def _loc_get(self, key):
        return getattr(self, key)

    def _loc_set_raw(self, key, val):
        setattr(self, key, val)


def new_symmap(name, vkind='int', origin=None):
    m = SymMapM(name, z3.Array(name + '.dom', I, B), z3.Array(name + '.val', I, I), 'int', vkind, origin)
    m.dom0, m.val0 = m.dom, m.val
    return m


class ObjKind:
    """object-valued table: the stored value is an object id; fields are functions of the id."""

    def __init__(self, cls, fields, tag):
        self.cls = cls
        self.fields = fields
        self.fn = {f: z3.Function('%s.%s' % (tag, f), I, I) for f in fields}
        self.counter = [0]
        self.tag = tag

    def load(self, t):
        flds = {f: SInt(self.fn[f](t)) for f in self.fields}
        if 'ktraces' in [n for n, _ in self.cls.fields]:
            flds['ktraces'] = PList()
        o = Obj(self.cls, flds)
        o.oid = t
        return o

    def store(self, it, v):
        if isinstance(v, SOpt) or v is None:
            raise Unsupported('None stored into object table')
        if not (isinstance(v, Obj) and v.cls is self.cls):
            raise Unsupported('object of another class stored into table %s' % self.tag)
        if getattr(v, 'oid', None) is not None:
            return v.oid
        t = z3.Int(it.ctx.fresh(self.tag + '.oid'))
        for f in self.fields:
            it.ctx.facts.append(self.fn[f](t) == zi(v.fields[f]))
        v.oid = t
        return t


def _mapval(m, t):
    if isinstance(m.vkind, ObjKind):
        return m.vkind.load(t)
    if m.vkind == 'int':
        return mk_int(t)
    if m.vkind == 'atom':
        return atom_str(z3.simplify(t))
    if callable(m.vkind):
        return m.vkind(t)
    raise Unsupported('symmap value kind')


def _mapval_term(m, v, it=None):
    if isinstance(m.vkind, ObjKind):
        return m.vkind.store(it, v)
    if m.vkind == 'int':
        if isinstance(v, SOpt):
            raise Unsupported('optional stored into int table')
        return zi(v)
    if m.vkind == 'atom':
        from .libops import _single_atom
        t = _single_atom(v)
        if t is None:
            raise Unsupported('composite string stored into table')
        return t
    raise Unsupported('symmap store')


def symmap_contains(it, m, k):
    if isinstance(k, SOpt):
        return z3.And(k.present, z3.Select(m.dom, zi(k.val)))
    if not is_intlike(k):
        return False
    return z3.Select(m.dom, zi(k))


def symmap_nonempty(m):
    k = z3.Int('k!ne')
    return z3.Exists([k], z3.Select(m.dom, k))


def symmap_get(it, m, k, default=None, node=None):
    if isinstance(k, SOpt):
        inner = symmap_get(it, m, k.val, default, node)
        return merge_or_fork(it, k.present, inner, default)
    if not is_intlike(k):
        return default
    kt = zi(k)
    m.reads.append(kt) if hasattr(m, 'reads') else None
    present = z3.simplify(z3.Select(m.dom, kt))
    val = _mapval(m, z3.Select(m.val, kt))
    if z3.is_true(present):
        return val
    if z3.is_false(present):
        return default
    return merge_or_fork(it, present, val, default)


def symmap_getitem(it, m, k, node=None):
    if isinstance(k, SOpt):
        it.raise_if(z3.Not(k.present), 'KeyError', 'table-key', node)
        k = k.val
    if not is_intlike(k):
        raise PyExc('KeyError', site=(getattr(node, 'lineno', None), 'table-key'), kind='table-key')
    kt = zi(k)
    if hasattr(m, 'reads'):
        m.reads.append(kt)
    it.raise_if(z3.Not(z3.Select(m.dom, kt)), 'KeyError', 'table-key:' + m.origin, node)
    return _mapval(m, z3.Select(m.val, kt))


def symmap_setitem(it, m, k, v, node=None):
    if isinstance(k, SOpt):
        raise Unsupported('optional key stored')
    kt = zi(k)
    vt = _mapval_term(m, v, it)
    m._write('dom', z3.Store(m.dom, kt, True))
    m._write('val', z3.Store(m.val, kt, vt))
    m._write('writes', m.writes + [(kt, vt)])


# ------------------------------------------------------------------------------ SymList operations
def symlist_at(it, lst, i, node=None):
    """element at python index i (int, possibly negative)"""
    if isinstance(i, int):
        if i >= 0:
            it.raise_if(lst.length <= i, 'IndexError', 'list-index:' + str(lst.origin or lst.name), node)
            return lst.elem(z3.IntVal(i))
        it.raise_if(lst.length < -i, 'IndexError', 'list-index:' + str(lst.origin or lst.name), node)
        return lst.elem(z3.simplify(lst.length + i))
    t = zi(i)
    it.raise_if(z3.Or(t >= lst.length, t < -lst.length), 'IndexError', 'list-index:' + str(lst.origin or lst.name), node)
    return lst.elem(z3.simplify(z3.If(t >= 0, t, lst.length + t)))


def symlist_slice(it, lst, lo, hi, node=None):
    L = lst.length

    def clampidx(x, default):
        if x is None:
            return default
        t = zi(x)
        t = z3.If(t < 0, z3.If(L + t < 0, 0, L + t), z3.If(t > L, L, t))
        return z3.simplify(t)
    a = clampidx(lo, z3.IntVal(0))
    b = clampidx(hi, L)
    n = z3.simplify(z3.If(b - a > 0, b - a, 0))
    out = SymList(lst.name + '[%s:%s]' % (lo, hi), n, lambda j: lst.elem(z3.simplify(a + j)), origin=('slice', lst, lo, hi))
    return out


def symlist_contains(it, lst, x, node=None):
    fn = getattr(lst, 'contains_fn', None)
    if fn is None:
        raise Unsupported('membership in symbolic list')
    return fn(x)


def symlist_concat(it, a, b):
    if not (isinstance(a, SymList) and isinstance(b, SymList)):
        raise Unsupported('concat of symbolic and concrete list')

    def elem(j):
        if it.ctx.branch(j < a.length):
            return a.elem(j)
        return b.elem(z3.simplify(j - a.length))
    return SymList('(%s+%s)' % (a.name, b.name), z3.simplify(a.length + b.length), elem, origin=('concat', a, b))


_filter_counter = [0]


def symbolic_comp(it, n, g, src, fr, kind):
    """[elt for target in src if conds] over a symbolic list: a list of symbolic length whose
    j-th element is elt(src[pos(j)]) for a fresh strictly increasing pos, each selected element
    satisfying the conditions (assumed on access).  The comprehension is recorded on the result
    (origin) so that contracts can speak about it structurally."""
    if kind != 'list':
        raise Unsupported('dict comprehension over symbolic list')
    if not isinstance(src, SymList):
        raise Unsupported('comprehension over %s' % type(src).__name__)
    _filter_counter[0] += 1
    tag = it.ctx.fresh('flt')
    if g.ifs:
        length = z3.Int(tag + '.len')
        pos = z3.Function(tag + '.pos', I, I)
        it.ctx.assume(z3.And(length >= 0, length <= src.length))
    else:
        length = src.length
        pos = None

    def elem(j):
        i = z3.simplify(pos(j)) if pos is not None else j
        if pos is not None:
            it.ctx.assume(z3.And(i >= 0, i < src.length, z3.Implies(j > 0, pos(j - 1) < i), i >= j))
        e = src.elem(i)
        f2 = Frame(parent=fr)
        it.assign(g.target, e, f2)
        for c in g.ifs:
            t = it.truth(it.eval(c, f2), c)
            if t is False:
                raise Unsupported('filter condition false on selected element')
            if t is not True:
                it.ctx.assume(t)
        return it.eval(n.elt, f2)
    out = SymList(tag, length, elem, origin=('comp', src, n, fr, pos))
    src_contains = getattr(src, 'contains_fn', None)
    if src_contains is not None:
        def contains(y):
            c = z3.Int(it.ctx.fresh('c'))
            f2 = Frame(parent=fr)
            it.assign(g.target, SInt(c), f2)
            conds = [src_contains(SInt(c))]
            for cnd in g.ifs:
                t = it.truth(it.eval(cnd, f2), cnd)
                conds.append(z3.BoolVal(t) if isinstance(t, bool) else t)
            v = it.eval(n.elt, f2)
            e = values_equal(it, v, y)
            conds.append(z3.BoolVal(e) if isinstance(e, bool) else e)
            return z3.Exists([c], z3.And(conds))
        out.contains_fn = contains
    it.ctx.notes.setdefault('comps', []).append(out)
    return out


# ------------------------------------------------------------------------------ getattr
def _method(name, fn):
    return Builtin(name, fn)


def merge_or_fork(it, cond, a, b):
    try:
        return merge(cond, a, b)
    except MergeFail:
        return a if it.ctx.branch(cond) else b


def _host_fn(name, rng):
    return z3.Function('host.' + name, I, rng)


def host_opaque_key(k):
    if is_intlike(k):
        return zi(k)
    from .libops import _single_atom
    t = _single_atom(k) if is_strlike(k) else None
    if t is None:
        raise Unsupported('key into host-derived value')
    return t


def getattr_(it, obj, name, node=None):
    if hasattr(obj, 'py_getattr'):
        return obj.py_getattr(it, name, node)
    if isinstance(obj, HostOpaque):
        if name == 'get':
            def get(it_, a, k, n):
                kt = host_opaque_key(a[0])
                v = atom_str(_host_fn(obj.name + '.val', I)(kt))
                return merge_or_fork(it, _host_fn(obj.name + '.dom', B)(kt), v, a[1] if len(a) > 1 else None)
            return Builtin('host.get', get)
        raise Unsupported('attribute %s of host-derived value' % name)
    if isinstance(obj, Unknown):
        raise Unsupported('use of dropped module-level value (%s)' % obj.why)
    if isinstance(obj, Obj):
        if name in obj.fields:
            return obj.fields[name]
        v = obj.cls.lookup(name)
        if v is not MISSING:
            return bind_attr(it, v, obj, obj.cls)
        if obj.cls.kind == 'namedtuple' and name in ('_replace', '_asdict'):
            raise Unsupported('namedtuple.' + name)
        if getattr(obj, 'open_payload', None) and not name.startswith('__'):
            # an arbitrary object of an open family (any decoded trace): every further attribute may exist, with any value
            tag = obj.open_payload
            if it.ctx.branch(z3.Bool('%s.has.%s' % (tag, name))):
                v = SInt(z3.Int('%s.%s' % (tag, name)))
                obj.fields[name] = v
                return v
        raise PyExc('AttributeError', '%s has no attribute %s' % (obj.cls.name, name),
                    site=(getattr(node, 'lineno', None), 'attr'), kind='attr')
    if isinstance(obj, SOpt):
        it.raise_if(z3.Not(obj.present), 'AttributeError', 'none-attr', node)
        return getattr_(it, obj.val, name, node)
    if obj is None:
        raise PyExc('AttributeError', "'NoneType' object has no attribute %r" % name,
                    site=(getattr(node, 'lineno', None), 'none-attr'), kind='none-attr')
    if isinstance(obj, ModuleVal):
        if name in obj.ns:
            return obj.ns[name]
        if obj.kind == 'repo':
            return it.repo.module_attr(obj, name)
        from . import libstubs
        return libstubs.module_getattr(it, obj, name, node)
    if isinstance(obj, ClassVal):
        return class_attr(it, obj, name, node)
    if isinstance(obj, EnumVal):
        if name == 'name':
            return obj.name
        if name == 'value':
            return obj.value
        v = obj.cls.lookup(name)
        if v is not MISSING:
            return bind_attr(it, v, obj, obj.cls)
        raise Unsupported('enum member attribute %s' % name)
    if isinstance(obj, SEnum):
        if name == 'name':
            if obj.cls.kind in ('flag', 'intflag'):
                return SStr([('flagname', obj.cls, obj.t)])
            return SStr([('ename', obj.cls, obj.t)])
        if name == 'value':
            return mk_int(obj.t)
        raise Unsupported('enum member attribute %s' % name)
    if isinstance(obj, PList):
        return list_method(it, obj, name, node)
    if isinstance(obj, PDict):
        return dict_method(it, obj, name, node)
    if isinstance(obj, (str, SStr)):
        return str_method(it, obj, name, node)
    if isinstance(obj, (bytes, SBytes, OBytes)):
        return bytes_method(it, obj, name, node)
    if isinstance(obj, SymMap):
        return symmap_method(it, obj, name, node)
    if isinstance(obj, SymList):
        return symlist_method(it, obj, name, node)
    if isinstance(obj, FuncVal):
        if name == '__name__':
            return obj.name
        raise Unsupported('function attribute %s' % name)
    if isinstance(obj, OpaqueVal):
        from . import libstubs
        return libstubs.opaque_attr(it, obj, name, node)
    if isinstance(obj, tuple):
        if name == 'index' or name == 'count':
            raise Unsupported('tuple.' + name)
    if is_intlike(obj) and not isinstance(obj, bool):
        if name == 'to_bytes':
            return Builtin('int.to_bytes', lambda it_, a, kw, n, v=obj: int_to_bytes(it_, v, a, kw, n))
        if name == 'bit_length':
            raise Unsupported('int.' + name)
    if isinstance(obj, Builtin) and obj.name == 'int' and name == 'from_bytes':
        return Builtin('int.from_bytes', int_from_bytes)
    if isinstance(obj, Builtin) and obj.name == 'dict' and name == 'fromkeys':
        def fromkeys(it_, a, kw, n):
            d = PDict()
            for k in it_.iterate(a[0], n):
                d.set(k, a[1] if len(a) > 1 else None)
            return d
        return Builtin('dict.fromkeys', fromkeys)
    if type(obj).__name__ == 'ForeignObj':
        it.raise_if(z3.Bool(obj.tag + '.lacks.' + name), 'AttributeError', 'foreign-attr', node)
        return OpaqueVal('foreign', (z3.Int(obj.tag + '.' + name),))
    from . import libstubs
    r = libstubs.special_attr(it, obj, name, node)
    if r is not MISSING:
        return r
    raise Unsupported('attribute %s of %s' % (name, type(obj).__name__))


def _byteorder(it, order, node):
    """z3 Bool 'little' for a byte-order argument (a host symbol when it is sys.byteorder)"""
    if isinstance(order, str):
        if order not in ('little', 'big'):
            raise PyExc('ValueError', "byteorder must be either 'little' or 'big'", site=(getattr(node, 'lineno', None), 'byteorder'), kind='byteorder')
        return z3.BoolVal(order == 'little')
    from .libops import _single_atom
    t = _single_atom(order) if is_strlike(order) else None
    if t is not None:
        from .values import intern_str
        return t == z3.IntVal(intern_str('little'))
    raise Unsupported('symbolic byte order')


def int_to_bytes(it, v, args, kw, node):
    n = args[0] if args else kw.get('length', 1)
    order = args[1] if len(args) > 1 else kw.get('byteorder', 'big')
    signed = bool(kw.get('signed', False))
    if not isinstance(n, int):
        raise Unsupported('symbolic length of to_bytes')
    little = _byteorder(it, order, node)
    if isinstance(v, int) and z3.is_true(z3.simplify(little)) or isinstance(v, int) and z3.is_false(z3.simplify(little)):
        try:
            return v.to_bytes(n, 'little' if z3.is_true(z3.simplify(little)) else 'big', signed=signed)
        except OverflowError:
            raise PyExc('OverflowError', 'int too big to convert', site=(getattr(node, 'lineno', None), 'overflow'), kind='overflow')
    t = zi(v)
    if signed:
        it.raise_if(z3.Or(t < -(1 << (8 * n - 1)), t >= (1 << (8 * n - 1))), 'OverflowError', 'overflow', node)
        w = z3.If(t < 0, t + (1 << (8 * n)), t)
    else:
        it.raise_if(z3.Or(t < 0, t >= (1 << (8 * n))), 'OverflowError', 'overflow', node)
        w = t
    digs = []
    for i in range(n):
        b = z3.Int(it.ctx.fresh('byte'))
        it.ctx.declare_range(b, 0, 255)
        digs.append(b)
    it.ctx.facts.append(w == z3.Sum([d * (1 << (8 * i)) for i, d in enumerate(digs)]) if n else w == 0)
    le = [SInt(d) for d in digs]
    ls = z3.simplify(little)
    if z3.is_true(ls):
        return SBytes(le)
    if z3.is_false(ls):
        return SBytes(list(reversed(le)))
    return SBytes([SInt(z3.If(little, a.t, b.t)) for a, b in zip(le, reversed(le))])


def int_from_bytes(it, args, kw, node):
    b = args[0]
    order = args[1] if len(args) > 1 else kw.get('byteorder', 'big')
    signed = bool(kw.get('signed', False))
    little = _byteorder(it, order, node)
    if isinstance(b, bytes):
        elems = list(b)
    elif isinstance(b, SBytes):
        elems = list(b.elems)
    else:
        raise Unsupported('int.from_bytes of %s' % type(b).__name__)
    n = len(elems)
    ls = z3.simplify(little)
    if all(isinstance(e, int) for e in elems) and (z3.is_true(ls) or z3.is_false(ls)):
        return int.from_bytes(bytes(elems), 'little' if z3.is_true(ls) else 'big', signed=signed)

    def total(seq):
        return z3.Sum([zi(e) * (1 << (8 * i)) for i, e in enumerate(seq)]) if seq else z3.IntVal(0)
    if z3.is_true(ls):
        t = total(elems)
    elif z3.is_false(ls):
        t = total(list(reversed(elems)))
    else:
        t = z3.If(little, total(elems), total(list(reversed(elems))))
    if signed and n:
        t = z3.If(t >= (1 << (8 * n - 1)), t - (1 << (8 * n)), t)
    return mk_int(z3.simplify(t))


def bind_attr(it, v, inst, cls):
    if isinstance(v, FuncVal):
        kind = getattr(v, 'kind', 'method')
        if kind == 'static':
            return v
        if kind == 'class':
            return BoundMethod(v, cls)
        if kind == 'property':
            return it.call(v, [inst], {})
        return BoundMethod(v, inst)
    return v


def class_attr(it, cls, name, node=None):
    if cls.kind in ('enum', 'flag', 'intflag', 'intenum'):
        for n, val in cls.members:
            if n == name:
                # aliases resolve to the canonical member
                for cn, cv in cls.canonical_members():
                    if cv == val:
                        return EnumVal(cls, cn, cv)
        if name == '__members__':
            canon = {}
            for cn, cv in cls.canonical_members():
                canon.setdefault(cv, cn)
            return PDict([(n, EnumVal(cls, canon[val], val)) for n, val in cls.members])
    if cls.kind == 'host-enum':
        from . import libstubs
        return libstubs.host_enum_attr(it, cls, name, node)
    v = cls.lookup(name)
    if v is MISSING:
        if name == '__name__':
            return cls.name
        if cls.kind == 'namedtuple' and name == '_fields':
            return tuple(n for n, _ in cls.fields)
        raise PyExc('AttributeError', 'class %s has no attribute %s' % (cls.name, name),
                    site=(getattr(node, 'lineno', None), 'attr'), kind='attr')
    if isinstance(v, FuncVal):
        kind = getattr(v, 'kind', 'method')
        if kind == 'class':
            return BoundMethod(v, cls)
        return v
    return v


# ------------------------------------------------------------------------------ list / dict methods
def list_extend(it, lst, other):
    if isinstance(other, PList):
        lst.set_items(lst.items + other.items)
    elif isinstance(other, SymList) or isinstance(lst, SymList):
        raise Unsupported('extend with symbolic list')
    else:
        lst.set_items(lst.items + tuple((True, v) for v in it.iterate(other)))


def contains_value(it, lst, x, node=None):
    from .libops import contains
    return contains(it, lst, x, node)


def list_method(it, lst, name, node):
    def append(it_, args, kw, n):
        lst.append(args[0])

    def extend(it_, args, kw, n):
        list_extend(it, lst, args[0])

    def insert(it_, args, kw, n):
        i = args[0]
        if not isinstance(i, int) or not lst.is_concrete():
            raise Unsupported('list.insert symbolic')
        vals = lst.values()
        vals.insert(i, args[1])
        lst.set_items((True, v) for v in vals)

    def pop(it_, args, kw, n):
        if not lst.is_concrete():
            raise Unsupported('pop on guarded list')
        vals = lst.values()
        i = args[0] if args else -1
        if not isinstance(i, int):
            raise Unsupported('pop symbolic index')
        if not vals or i >= len(vals) or i < -len(vals):
            raise PyExc('IndexError', 'pop', site=(getattr(n, 'lineno', None), 'list-index'), kind='list-index')
        v = vals.pop(i)
        lst.set_items((True, x) for x in vals)
        return v

    def clear(it_, args, kw, n):
        lst.set_items(())

    def index(it_, args, kw, n):
        raise Unsupported('list.index')

    def copy(it_, args, kw, n):
        return PList(guarded=lst.items)
    def add(it_, args, kw, n):
        # set.add on the list model of a set: present at most once
        c = contains_value(it, lst, args[0], n)
        if c is True:
            return
        if c is False:
            lst.append(args[0])
            return
        lst.set_items(lst.items + ((z3.simplify(z3.Not(c)), args[0]),))

    def discard(it_, args, kw, n):
        out = []
        for g, v in lst.items:
            e = values_equal(it, v, args[0], n)
            if e is True:
                continue
            if e is False:
                out.append((g, v))
            else:
                gz = z3.BoolVal(True) if g is True else g
                out.append((z3.simplify(z3.And(gz, z3.Not(e))), v))
        lst.set_items(out)
    tbl = dict(append=append, extend=extend, insert=insert, pop=pop, clear=clear, index=index, copy=copy, add=add,
               discard=discard, remove=discard)
    if name not in tbl:
        if name == 'append' or True:
            pass
        raise PyExc('AttributeError', "'list' object has no attribute %r" % name,
                    site=(getattr(node, 'lineno', None), 'attr'), kind='attr')
    return Builtin('list.' + name, tbl[name])


def dict_get(it, d, k, default=None, node=None):
    if isinstance(k, (SInt, SStr, SEnum, SOpt)) or type(k).__name__ == 'FBytes':
        # symbolic key over concrete keys: chain of ites
        res = default
        for kk in reversed(d.keys()):
            e = values_equal(it, kk, k, node)
            if e is False:
                continue
            g, v = d.d[kk]
            c = z3.And(_zt(g), _zt(e))
            res = merge_or_fork(it, z3.simplify(c), v, res)
        return res
    ent = d.get_entry(_hashkey(k))
    if ent is MISSING:
        return default
    g, v = ent
    if g is True:
        return v
    return merge_or_fork(it, g, v, default)


def dict_getitem(it, d, k, node=None):
    if isinstance(k, (SInt, SStr, SEnum, SOpt)) or type(k).__name__ == 'FBytes':
        conds = []
        for kk in d.keys():
            e = values_equal(it, kk, k, node)
            if e is False:
                continue
            g, v = d.d[kk]
            conds.append((z3.simplify(z3.And(_zt(g), _zt(e))), v))
        it.raise_if(z3.Not(z3.Or([c for c, _ in conds])) if conds else True, 'KeyError', 'const-dict-key', node)
        res = conds[-1][1]
        try:
            for c, v in reversed(conds[:-1]):
                res = merge(c, v, res)
            return res
        except MergeFail:
            # fork over the keys
            for c, v in conds[:-1]:
                if it.ctx.branch(c):
                    return v
            return conds[-1][1]
    ent = d.get_entry(_hashkey(k))
    if ent is MISSING:
        raise PyExc('KeyError', repr(k), site=(getattr(node, 'lineno', None), 'dict-key'), kind='dict-key')
    g, v = ent
    it.raise_if(z3.Not(_zt(g)), 'KeyError', 'dict-key', node)
    return v


def dict_update(it, d, other, node=None):
    if isinstance(other, PDict):
        for k in other.keys():
            g, v = other.d[k]
            if g is True:
                d.set_entry(k, True, v)
            else:
                old = d.get_entry(k)
                if old is MISSING:
                    d.set_entry(k, g, v)
                else:
                    d.set_entry(k, z3.simplify(z3.Or(_zt(g), _zt(old[0]))), merge(g, v, old[1]))
    elif isinstance(other, OpaqueVal):
        raise Unsupported('update from opaque')
    elif isinstance(other, (PList, list, tuple)):
        items = other.values() if isinstance(other, PList) else list(other)
        for pair in items:
            kv = list(pair.values()) if isinstance(pair, PList) else list(pair) if isinstance(pair, (tuple, list)) else None
            if kv is None or len(kv) != 2:
                raise Unsupported('dict.update from a sequence of non-pairs')
            k = kv[0]
            if isinstance(k, (SInt, SStr, SEnum)):
                raise Unsupported('symbolic key stored into literal dict')
            d.set_entry(_hashkey(k), True, kv[1])
    elif type(other).__name__ == 'GenVal':
        # a generator of (key, value) pairs: run it (module-level table construction)
        out = it.run_generator(other)
        dict_update(it, d, out, node)
    else:
        raise Unsupported('dict.update(%s)' % type(other).__name__)


def dict_method(it, d, name, node):
    def get(it_, args, kw, n):
        return dict_get(it, d, args[0], args[1] if len(args) > 1 else kw.get('default'), n)

    def pop(it_, args, kw, n):
        k = _hashkey(args[0])
        ent = d.get_entry(k)
        if ent is MISSING:
            if len(args) > 1:
                return args[1]
            raise PyExc('KeyError', repr(k), site=(getattr(n, 'lineno', None), 'dict-key'), kind='dict-key')
        g, v = ent
        if g is not True:
            if len(args) > 1:
                d.del_entry(k)
                return merge(g, v, args[1])
            it.raise_if(z3.Not(g), 'KeyError', 'dict-key', n)
        d.del_entry(k)
        return v

    def update(it_, args, kw, n):
        if args:
            dict_update(it, d, args[0], n)
        for k, v in kw.items():
            d.set_entry(k, True, v)

    def clear(it_, args, kw, n):
        for k in list(d.keys()):
            d.del_entry(k)

    def items(it_, args, kw, n):
        out = []
        for k in d.keys():
            g, v = d.d[k]
            if g is not True:
                raise Unsupported('items() with symbolic presence')
            out.append((k, v))
        return PList(out)

    def keys(it_, args, kw, n):
        return PList(it.iterate(d))

    def values(it_, args, kw, n):
        return PList([v for _, v in items(it_, args, kw, n).values()])

    def setdefault(it_, args, kw, n):
        k = _hashkey(args[0])
        ent = d.get_entry(k)
        if ent is MISSING:
            d.set_entry(k, True, args[1] if len(args) > 1 else None)
            return d.d[k][1]
        if ent[0] is not True:
            raise Unsupported('setdefault symbolic presence')
        return ent[1]

    def copy(it_, args, kw, n):
        nd = PDict()
        for k in d.keys():
            nd.set_entry(k, d.d[k][0], d.d[k][1])
        return nd
    tbl = dict(get=get, pop=pop, update=update, clear=clear, items=items, keys=keys, values=values,
               setdefault=setdefault, copy=copy)
    if name not in tbl:
        raise PyExc('AttributeError', "'dict' object has no attribute %r" % name,
                    site=(getattr(node, 'lineno', None), 'attr'), kind='attr')
    return Builtin('dict.' + name, tbl[name])


def symmap_method(it, m, name, node):
    def get(it_, args, kw, n):
        return symmap_get(it, m, args[0], args[1] if len(args) > 1 else None, n)

    def clear(it_, args, kw, n):
        m._write('dom', z3.K(I, z3.BoolVal(False)))
        m._write('writes', m.writes + [('clear',)])

    def pop(it_, args, kw, n):
        k = args[0]
        kt = zi(k)
        present = z3.Select(m.dom, kt)
        val = _mapval(m, z3.Select(m.val, kt))
        if len(args) > 1:
            res = merge(z3.simplify(present), val, args[1])
        else:
            it.raise_if(z3.Not(present), 'KeyError', 'table-key:' + m.origin, n)
            res = val
        m._write('dom', z3.Store(m.dom, kt, False))
        m._write('writes', m.writes + [('pop', kt)])
        return res
    tbl = dict(get=get, clear=clear, pop=pop)
    if name not in tbl:
        raise Unsupported('table method %s' % name)
    return Builtin('table.' + name, tbl[name])


def symlist_method(it, lst, name, node):
    if name == 'append':
        return Builtin('list.append', lambda it_, a, k, n: lst.append(a[0]))
    if name == 'clear':
        def clear(it_, a, k, n):
            lst._write('length', z3.IntVal(0))
            lst._write('cache', {})
            if lst.origin is not None:
                lst._write('origin', ('cleared', lst.origin))
            return None
        return Builtin('list.clear', clear)
    if name == 'pop':
        def pop(it_, a, k, n):
            if a or k:
                raise Unsupported('list.pop(index) of symbolic list')
            it_.raise_if(lst.length <= 0, 'IndexError', 'list-index:pop', n)
            last = symlist_at(it_, lst, -1, n)
            lst._write('length', z3.simplify(lst.length - 1))
            if isinstance(lst.origin, tuple):
                lst._write('origin', ('popped', lst.origin))
            return last
        return Builtin('list.pop', pop)
    if name == 'sort':
        def sort(it_, a, k, n):
            # in-place sort: the list object becomes the sorted permutation sorted(lst, key=...) of itself
            from . import libstubs
            snap = SymList(lst.name, lst.length, lst.elem_fn, origin=lst.origin)
            snap.cache = lst.cache
            new = libstubs.symbolic_sorted(it_, snap, k, n)
            lst._write('elem_fn', new.elem_fn)
            lst._write('cache', {})
            lst._write('origin', new.origin)
            return None
        return Builtin('list.sort', sort)
    raise Unsupported('method %s of symbolic list' % name)


# ------------------------------------------------------------------------------ str / bytes methods
def _known_literals():
    from .values import _intern
    return _intern


def str_method(it, s, name, node):
    def lower(it_, args, kw, n):
        if isinstance(s, str):
            return s.lower()
        toks = []
        for tk in s.toks:
            if tk[0] == 'lit':
                toks.append(('lit', tk[1].lower()))
            elif tk[0] == 'dec':
                toks.append(tk)
            elif tk[0] == 'cond':
                toks.append(('cond', tk[1], to_sstr(lower_of(tk[2])), to_sstr(lower_of(tk[3]))))
            else:
                toks.append(('lower', SStr([tk])))
        return norm_str(SStr(toks))

    def lower_of(x):
        return str_method(it, norm_str(x), 'lower', node).impl(it, [], {}, node)

    def join(it_, args, kw, n):
        seq = args[0]
        if not isinstance(s, str):
            raise Unsupported('symbolic separator')
        if isinstance(seq, LazyIterT) and isinstance(seq.src, OpaqueVal):
            return SStr([('opaque', 'join-map', (s, seq.src))])
        if isinstance(seq, OpaqueVal):
            return SStr([('opaque', 'join', (s, seq))])
        if isinstance(seq, LazyIterT):
            seq = force_lazy(it, seq)
            seq = PList(seq) if isinstance(seq, list) else seq
        if isinstance(seq, GenValT):
            seq = it.run_generator(seq)
        if isinstance(seq, PList):
            if seq.is_concrete():
                acc = ''
                first = True
                for v in seq.values():
                    if not first:
                        acc = str_concat(acc, s)
                    first = False
                    if not is_strlike(v):
                        raise PyExc('TypeError', 'join of non-str', site=(getattr(n, 'lineno', None), 'type'), kind='type')
                    acc = str_concat(acc, v)
                return acc
            return SStr([('join', s, [(g, to_sstr(v)) for g, v in seq.items])])
        if isinstance(seq, (tuple, list)):
            return join(it_, [PList(list(seq))], kw, n)
        if isinstance(seq, SymList):
            return SStr([('opaque', 'join', (s, seq))])
        raise Unsupported('join over %s' % type(seq).__name__)

    def fmt_passthru(fn):
        def f(it_, args, kw, n):
            if isinstance(s, str) and all(isinstance(a, (str, int)) for a in args):
                return getattr(s, fn)(*args)
            return SStr([('opaque', 'str.' + fn, (s,) + tuple(args))])
        return f

    def just(align):
        def f(it_, args, kw, n):
            if isinstance(s, str) and all(isinstance(a, (str, int)) for a in args):
                return getattr(s, {'<': 'ljust', '>': 'rjust'}[align])(*args)
            if len(args) == 1 and isinstance(args[0], int):
                # s.ljust(n) / s.rjust(n) with the default fill is format(s, '<n') / format(s, '>n')
                return SStr([('pad', to_sstr(s), args[0], align)]) if args[0] > 0 else s
            return SStr([('opaque', 'str.just' + align, (s,) + tuple(args))])
        return f

    def startswith(it_, args, kw, n):
        if isinstance(s, str) and isinstance(args[0], str):
            return s.startswith(args[0])
        from .libops import _single_atom
        t = _single_atom(s)
        if t is not None and isinstance(args[0], str):
            # uninterpreted predicate per prefix; exact on the literals known to the run
            fn = z3.Function('str.startswith.' + args[0], I, B)
            for lit, k in list(_known_literals().items()):
                it.ctx.facts.append(fn(z3.IntVal(k)) == z3.BoolVal(lit.startswith(args[0])))
            return mk_bool(fn(t))
        raise Unsupported('startswith symbolic')

    def encode(it_, args, kw, n):
        if isinstance(s, str):
            return s.encode(*args)
        raise Unsupported('encode symbolic')

    def endswith(it_, args, kw, n):
        if isinstance(s, str) and isinstance(args[0], (str, tuple)):
            return s.endswith(args[0])
        from .libops import _single_atom
        t = _single_atom(s)
        if t is not None and isinstance(args[0], str):
            fn = z3.Function('str.endswith.' + args[0], I, B)
            for lit, k in list(_known_literals().items()):
                it.ctx.facts.append(fn(z3.IntVal(k)) == z3.BoolVal(lit.endswith(args[0])))
            return mk_bool(fn(t))
        raise Unsupported('endswith symbolic')

    def format_(it_, args, kw, n):
        # str.format with a literal template: the f-string with the same fields
        if not isinstance(s, str):
            return SStr([('opaque', 'str.format', (s,) + tuple(args))])
        import string
        from .libops import format_value, to_str, to_repr, str_concat
        out = ''
        auto = 0
        for lit, field, spec, conv in string.Formatter().parse(s):
            out = str_concat(out, lit)
            if field is None:
                continue
            if spec and ('{' in spec):
                raise Unsupported('nested format field')
            if field == '':
                if auto >= len(args):
                    raise PyExc('IndexError', 'Replacement index out of range', site=(getattr(n, 'lineno', None), 'format'), kind='format')
                v = args[auto]
                auto += 1
            elif field.isdigit():
                if int(field) >= len(args):
                    raise PyExc('IndexError', 'Replacement index out of range', site=(getattr(n, 'lineno', None), 'format'), kind='format')
                v = args[int(field)]
            elif field in kw:
                v = kw[field]
            else:
                raise Unsupported('format field %r' % field)
            if conv == 'r':
                v = to_repr(it_, v, n)
            elif conv == 's':
                v = to_str(it_, v, n)
            elif conv:
                raise Unsupported('format conversion %r' % conv)
            out = str_concat(out, format_value(it_, v, spec or '', n))
        return out
    tbl = dict(lower=lower, join=join, strip=fmt_passthru('strip'), split=fmt_passthru('split'),
               splitlines=fmt_passthru('splitlines'), ljust=just('<'), rjust=just('>'),
               upper=fmt_passthru('upper'), replace=fmt_passthru('replace'), startswith=startswith, encode=encode,
               rstrip=fmt_passthru('rstrip'), lstrip=fmt_passthru('lstrip'), format=format_, endswith=endswith)
    if name not in tbl:
        raise Unsupported('str method %s' % name)
    return Builtin('str.' + name, tbl[name])


def bytes_method(it, b, name, node):
    def replace(it_, args, kw, n):
        if isinstance(b, bytes) and all(isinstance(a, bytes) for a in args):
            return b.replace(*args)
        if args[0] == b'\x00' and args[1] == b'':
            if isinstance(b, SBytes):
                return OBytes(BStrip0(sbytes_id(it, b)), origin=('strip0', b))
            return OBytes(BStrip0(obytes_of(b)), origin=('strip0', b))
        raise Unsupported('bytes.replace general')

    def decode(it_, args, kw, n):
        if isinstance(b, bytes):
            try:
                return b.decode(*args, **{k: v for k, v in kw.items()})
            except UnicodeDecodeError:
                raise PyExc('UnicodeDecodeError', site=(getattr(n, 'lineno', None), 'decode'), kind='decode')
        t = sbytes_id(it, b) if isinstance(b, SBytes) else obytes_of(b)
        if kw.get('errors') == 'backslashreplace':
            return atom_str(BDecodeBS(t))
        if args and args[0] not in ('utf-8', 'utf8'):
            raise Unsupported('decode codec')
        it.raise_if(z3.Not(BValidUtf8(t)), 'UnicodeDecodeError', 'decode', n)
        return atom_str(BDecode(t))

    def ljust(it_, args, kw, n):
        if isinstance(b, bytes):
            return b.ljust(*args)
        raise Unsupported('ljust symbolic')

    def hex_(it_, args, kw, n):
        if isinstance(b, bytes):
            return b.hex()
        return SStr([('opaque', 'bytes.hex', (b,))])

    def join(it_, args, kw, n):
        seq = args[0]
        if isinstance(seq, PList) and seq.is_concrete():
            acc = b''
            for v in seq.values():
                acc = it.binop(ast.Add(), acc, v)
            if not isinstance(b, bytes) or b != b'':
                raise Unsupported('bytes.join with separator')
            return acc
        if isinstance(seq, SymList) and b == b'':
            return OBytes(BJoin(symlist_id(it, seq)), origin=('join', seq))
        raise Unsupported('bytes.join over %s' % type(seq).__name__)

    def find(it_, args, kw, n):
        if isinstance(b, bytes):
            return b.find(*args)
        raise Unsupported('bytes.find symbolic')
    def translate(it_, args, kw, n):
        # b.translate(None, delete): removal of the listed bytes; deleting NULs is replace(b'\x00', b'')
        table = args[0] if args else kw.get('table')
        delete = args[1] if len(args) > 1 else kw.get('delete', b'')
        if isinstance(b, bytes) and isinstance(delete, bytes) and (table is None or isinstance(table, bytes)):
            return b.translate(table, delete)
        if table is None and delete == b'\x00':
            return replace(it_, [b'\x00', b''], {}, n)
        raise Unsupported('bytes.translate general')
    tbl = dict(replace=replace, decode=decode, ljust=ljust, hex=hex_, join=join, find=find, translate=translate)
    if name not in tbl:
        raise Unsupported('bytes method %s' % name)
    return Builtin('bytes.' + name, tbl[name])


_sb_ids = {}


def sbytes_id(it, b):
    """Int term identifying a concrete-length symbolic bytes value, with its bytes axiomatised."""
    key = tuple(str(zi(e)) for e in b.elems)
    if key in _sb_ids:
        return _sb_ids[key]
    t = z3.Int('bytes!%d' % (len(_sb_ids) + 1))
    _sb_ids[key] = t
    return t


_sl_ids = {}


def symlist_id(it, lst):
    if id(lst) not in _sl_ids:
        _sl_ids[id(lst)] = (z3.Int('list!%d' % (len(_sl_ids) + 1)), lst)
    return _sl_ids[id(lst)][0]


# ------------------------------------------------------------------------------ getitem / slice / setitem
def _index(it, seq_len, i, node, what='list-index'):
    if isinstance(i, int):
        if i < -seq_len or i >= seq_len:
            raise PyExc('IndexError', 'index out of range', site=(getattr(node, 'lineno', None), what), kind=what)
        return i % seq_len if seq_len else 0
    raise Unsupported('symbolic index into concrete sequence')


def select_by_index(it, items, i, node, what='list-index'):
    """items[i] for a symbolic int i over a concrete python list of values (merge / fork)."""
    t = zi(i)
    n = len(items)
    it.raise_if(z3.Or(t >= n, t < -n), 'IndexError', what, node)
    t = z3.If(t < 0, t + n, t)
    res = items[-1]
    try:
        for k in range(n - 2, -1, -1):
            res = merge(z3.simplify(t == k), items[k], res)
        return res
    except MergeFail:
        for k in range(n - 1):
            if it.ctx.branch(t == k):
                return items[k]
        return items[-1]


def getitem(it, obj, key, node=None):
    r = _getitem(it, obj, key, node)
    # an element taken out of module-level state (possibly a merged view over several of its elements when the key is
    # symbolic) is module-level state as well: writes through it count for the frame obligation
    if isinstance(r, Mutable) and id(obj) in GLOBAL_OBJS and id(r) not in GLOBAL_OBJS:
        register_global(GLOBAL_OBJS[id(obj)][0] + '[..]', r)
    return r


def _getitem(it, obj, key, node=None):
    if hasattr(obj, 'py_getitem'):
        return obj.py_getitem(it, key, node)
    if isinstance(obj, HostOpaque):
        kt = host_opaque_key(key)
        it.raise_if(z3.Not(_host_fn(obj.name + '.dom', B)(kt)), 'KeyError', 'const-dict-key', node)
        return atom_str(_host_fn(obj.name + '.val', I)(kt))
    if isinstance(obj, Unknown):
        raise Unsupported('use of dropped module-level value (%s)' % obj.why)
    if isinstance(obj, SOpt):
        it.raise_if(z3.Not(obj.present), 'TypeError', 'none-subscript', node)
        return getitem(it, obj.val, key, node)
    if obj is None:
        raise PyExc('TypeError', "'NoneType' object is not subscriptable",
                    site=(getattr(node, 'lineno', None), 'none-subscript'), kind='none-subscript')
    if isinstance(obj, (tuple, list)):
        if isinstance(key, int):
            return obj[_index(it, len(obj), key, node, 'tuple-index')]
        return select_by_index(it, list(obj), key, node, 'tuple-index')
    if isinstance(obj, PList):
        if not obj.is_concrete():
            return guarded_index(it, obj, key, node)
        vals = obj.values()
        if isinstance(key, int):
            return vals[_index(it, len(vals), key, node)]
        return select_by_index(it, vals, key, node)
    if isinstance(obj, PDict):
        return dict_getitem(it, obj, key, node)
    if isinstance(obj, SymMap):
        return symmap_getitem(it, obj, key, node)
    if isinstance(obj, SymList):
        return symlist_at(it, obj, key, node)
    if isinstance(obj, Obj) and obj.cls.kind == 'namedtuple':
        names = [n for n, _ in obj.cls.fields]
        if isinstance(key, int):
            return obj.fields[names[_index(it, len(names), key, node, 'tuple-index')]]
        raise Unsupported('symbolic index into namedtuple')
    if isinstance(obj, str):
        if isinstance(key, int):
            return obj[_index(it, len(obj), key, node, 'str-index')]
    if isinstance(obj, bytes):
        if isinstance(key, int):
            return obj[_index(it, len(obj), key, node, 'bytes-index')]
    if isinstance(obj, SBytes):
        if isinstance(key, int):
            return obj.elems[_index(it, len(obj), key, node, 'bytes-index')]
        return select_by_index(it, list(obj.elems), key, node, 'bytes-index')
    if isinstance(obj, OBytes):
        kt = zi(key)
        it.raise_if(z3.Or(kt >= BLen(obj.t), kt < -BLen(obj.t)), 'IndexError', 'bytes-index', node)
        return mk_int(BByte(obj.t, kt))
    if isinstance(obj, OpaqueVal):
        from . import libstubs
        return libstubs.opaque_getitem(it, obj, key, node)
    if isinstance(obj, ClassVal) and obj.kind in ('enum', 'flag', 'intflag', 'intenum') and isinstance(key, str):
        return class_attr(it, obj, key, node)
    if isinstance(obj, ModuleVal):
        raise Unsupported('subscript of module')
    from . import libstubs
    r = libstubs.special_getitem(it, obj, key, node)
    if r is not MISSING:
        return r
    raise Unsupported('subscript of %s' % type(obj).__name__)


def guarded_index(it, lst, key, node):
    """index into a guarded list with a concrete non-negative index: the k-th *present* item."""
    if not isinstance(key, int) or key < 0:
        raise Unsupported('index into guarded list')
    # fork over which item is the key-th present one
    def zt(g):
        return z3.BoolVal(True) if g is True else g
    n = len(lst.items)
    count_before = z3.IntVal(0)
    cands = []
    for g, v in lst.items:
        cands.append((z3.simplify(z3.And(zt(g), count_before == key)), v))
        count_before = count_before + z3.If(zt(g), 1, 0)
    it.raise_if(z3.simplify(count_before <= key), 'IndexError', 'list-index', node)
    for c, v in cands[:-1]:
        if z3.is_false(c):
            continue
        if it.ctx.branch(c):
            return v
    return cands[-1][1]


def _slice_bounds(n, lo, hi, st):
    return slice(lo, hi, st).indices(n)


def getslice(it, obj, lo, hi, st, node=None):
    if type(obj).__name__ == 'FBytes':
        if st is not None:
            raise Unsupported('step slice of a file slice')
        return obj.slice(it, lo, hi)
    conc = all(x is None or isinstance(x, int) for x in (lo, hi, st))
    if isinstance(obj, SymList):
        if st is not None:
            raise Unsupported('step slice of symbolic list')
        return symlist_slice(it, obj, lo, hi, node)
    if isinstance(obj, OBytes):
        if st is not None:
            raise Unsupported('step slice')
        lo_t = zi(lo) if lo is not None else z3.IntVal(0)
        hi_t = zi(hi) if hi is not None else z3.IntVal(-1)
        if hi is not None and not (isinstance(hi, int) and hi >= 0):
            raise Unsupported('negative/symbolic upper bound on opaque bytes')
        return OBytes(BSlice(obj.t, lo_t, hi_t), origin=('slice', obj, lo, hi))
    if not conc:
        raise Unsupported('symbolic slice bounds')
    if isinstance(obj, (str, bytes, tuple)):
        return obj[lo:hi:st]
    if isinstance(obj, SBytes):
        return SBytes(obj.elems[lo:hi:st])
    if isinstance(obj, PList):
        return PList(obj.values()[lo:hi:st])
    if isinstance(obj, SStr):
        raise Unsupported('slice of symbolic string')
    if isinstance(obj, SOpt):
        it.raise_if(z3.Not(obj.present), 'TypeError', 'none-subscript', node)
        return getslice(it, obj.val, lo, hi, st, node)
    raise Unsupported('slice of %s' % type(obj).__name__)


def setitem(it, obj, key, v, node=None):
    if hasattr(obj, 'py_setitem'):
        return obj.py_setitem(it, key, v, node)
    if isinstance(obj, PDict):
        if isinstance(key, (SInt, SStr, SEnum)):
            note_global_write(obj)
            raise Unsupported('symbolic key stored into literal dict')
        obj.set_entry(_hashkey(key), True, v)
        return
    if isinstance(obj, SymMap):
        return symmap_setitem(it, obj, key, v, node)
    if isinstance(obj, PList):
        vals = obj.values()
        if isinstance(key, int):
            vals[_index(it, len(vals), key, node)] = v
            obj.set_items((True, x) for x in vals)
            return
        raise Unsupported('symbolic index store')
    if isinstance(obj, tuple):
        raise PyExc('TypeError', "'tuple' object does not support item assignment",
                    site=(getattr(node, 'lineno', None), 'type'), kind='type')
    if isinstance(obj, SOpt):
        it.raise_if(z3.Not(obj.present), 'TypeError', 'none-subscript', node)
        return setitem(it, obj.val, key, v, node)
    from . import libstubs
    if libstubs.special_setitem(it, obj, key, v, node):
        return
    raise Unsupported('item store on %s' % type(obj).__name__)


# late imports to avoid cycles
from .interp import GenVal as GenValT, LazyIter as LazyIterT  # noqa


def force_lazy(it, lz):
    src = lz.src
    if isinstance(src, LazyIterT):
        src = force_lazy(it, src)
    if isinstance(src, GenValT):
        src = it.run_generator(src)
    if isinstance(src, (SymList,)):
        raise Unsupported('lazy pipeline over symbolic list forced')
    if isinstance(src, PList) and not src.is_concrete():
        out = []
        for g, v in src.items:
            if lz.kind == 'map':
                out.append((g, it.call(lz.fn, [v], {})))
            else:
                raise Unsupported('filter over guarded list')
        return PList(guarded=out)
    items = it.iterate(src)
    if lz.kind == 'map':
        return [it.call(lz.fn, [v], {}) for v in items]
    out = []
    for v in items:
        t = it.truth(it.call(lz.fn, [v], {}) if lz.fn is not None else v)
        if isinstance(t, bool):
            if t:
                out.append((True, v))
        else:
            out.append((z3.simplify(t), v))
    return PList(guarded=out)
