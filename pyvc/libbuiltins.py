"""Python builtins (assumed contracts, DESIGN 4.2/4.3)."""
import ast
import z3

from .values import *  # noqa
from .libops import _zt, to_str, to_repr, values_equal, OpaqueVal, OpaqueFloat, enum_value
from .interp import GenVal, LazyIter
from . import libattr


def make(it):
    b = {}

    def reg(name):
        def deco(fn):
            b[name] = Builtin(name, fn)
            return fn
        return deco

    @reg('len')
    def _len(it, args, kw, n):
        v = args[0]
        if hasattr(v, 'py_len'):
            return v.py_len(it)
        if isinstance(v, (str, bytes, tuple, list, SBytes, range)):
            return len(v)
        if isinstance(v, PList):
            if v.is_concrete():
                return len(v.items)
            return mk_int(z3.Sum([z3.If(g if g is not True else z3.BoolVal(True), 1, 0) for g, _ in v.items]))
        if isinstance(v, PDict):
            ks = v.keys()
            if all(v.d[k][0] is True for k in ks):
                return len(ks)
            return mk_int(z3.Sum([z3.If(_zt(v.d[k][0]), 1, 0) for k in ks]))
        if isinstance(v, SymList):
            return mk_int(v.length)
        if isinstance(v, OBytes):
            return mk_int(libattr.BLen(v.t))
        if isinstance(v, SOpt):
            it.raise_if(z3.Not(v.present), 'TypeError', 'none-len', n)
            return _len(it, [v.val], kw, n)
        if v is None:
            raise PyExc('TypeError', 'len of None', site=(getattr(n, 'lineno', None), 'none-len'), kind='none-len')
        if isinstance(v, Obj) and v.cls.kind == 'namedtuple':
            return len(v.cls.fields)
        raise Unsupported('len of %s' % type(v).__name__)

    @reg('range')
    def _range(it, args, kw, n):
        if all(isinstance(a, int) for a in args):
            return range(*args)
        from . import libstubs
        return libstubs.symbolic_range(it, args, n)

    @reg('list')
    def _list(it, args, kw, n):
        if not args:
            return PList()
        v = args[0]
        if isinstance(v, PList):
            return PList(guarded=v.items)
        if isinstance(v, SymList):
            return v
        if isinstance(v, LazyIter):
            r = libattr.force_lazy(it, v)
            return r if isinstance(r, PList) else PList(r)
        if isinstance(v, GenVal):
            r = it.run_generator(v)
            return PList(guarded=r.items)
        return PList(it.iterate(v, n))

    @reg('tuple')
    def _tuple(it, args, kw, n):
        if not args:
            return ()
        return tuple(it.iterate(args[0], n))

    @reg('dict')
    def _dict(it, args, kw, n):
        d = PDict()
        if args:
            src = args[0]
            if isinstance(src, PDict):
                libattr.dict_update(it, d, src, n)
            else:
                for pair in it.iterate(src, n):
                    k, v = it.iterate(pair, n)
                    libattr.setitem(it, d, k, v, n)
        for k, v in kw.items():
            d.set_entry(k, True, v)
        return d

    @reg('set')
    def _set(it, args, kw, n):
        if args and isinstance(args[0], SymList) and getattr(args[0], 'contains_fn', None) is not None:
            return SymSet(args[0].contains_fn)
        if args and isinstance(args[0], SymSet):
            return args[0]
        return PList(it.iterate(args[0], n)) if args else PList()
    b['frozenset'] = b['set']

    @reg('map')
    def _map(it, args, kw, n):
        if len(args) != 2:
            raise Unsupported('map with several iterables')
        return LazyIter('map', args[0], args[1])

    @reg('filter')
    def _filter(it, args, kw, n):
        return LazyIter('filter', args[0], args[1])

    @reg('sorted')
    def _sorted(it, args, kw, n):
        v = args[0]
        if isinstance(v, (PList, tuple, list)):
            vals = it.iterate(v, n)
            if kw.get('key') is None and all(isinstance(x, (int, str)) for x in vals):
                return PList(sorted(vals, reverse=bool(kw.get('reverse', False))))
        from . import libstubs
        return libstubs.symbolic_sorted(it, v, kw, n)

    @reg('any')
    def _any(it, args, kw, n):
        v = args[0]
        if isinstance(v, LazyIter) and v.kind == 'filter' and getattr(v.src, 'contains_fn', None) is not None:
            # any(filter(p, S)) over a finite set known by membership: exists c in S with p(c) and c truthy
            c = z3.Int(it.ctx.fresh('c'))
            t = it.truth(it.call(v.fn, [SInt(c)], {}) if v.fn is not None else SInt(c))
            t = z3.BoolVal(t) if isinstance(t, bool) else t
            return mk_bool(z3.Exists([c], z3.And(v.src.contains_fn(SInt(c)), t, c != 0)))
        if isinstance(v, LazyIter):
            v = libattr.force_lazy(it, v)
            if isinstance(v, list):
                v = PList(v)
        if isinstance(v, GenVal):
            v = it.run_generator(v)
        if isinstance(v, PList):
            cs = []
            for g, x in v.items:
                t = it.truth(x)
                if g is True and t is True:
                    return True
                if t is False:
                    continue
                cs.append(z3.And(_zt(g), _zt(t)))
            return mk_bool(z3.Or(cs)) if cs else False
        if isinstance(v, SymList):
            from . import libstubs
            return libstubs.symbolic_any(it, v, n)
        return _any(it, [PList(it.iterate(v, n))], kw, n)

    @reg('all')
    def _all(it, args, kw, n):
        v = args[0]
        if isinstance(v, LazyIter):
            v = libattr.force_lazy(it, v)
            if isinstance(v, list):
                v = PList(v)
        if isinstance(v, GenVal):
            v = it.run_generator(v)
        if isinstance(v, PList):
            cs = []
            for g, x in v.items:
                t = it.truth(x)
                if g is True and t is False:
                    return False
                if t is True:
                    continue
                cs.append(z3.Implies(_zt(g), _zt(t)))
            return mk_bool(z3.And(cs)) if cs else True
        if isinstance(v, SymList):
            from . import libstubs
            return libstubs.symbolic_all(it, v, n)
        return _all(it, [PList(it.iterate(v, n))], kw, n)

    @reg('bool')
    def _bool(it, args, kw, n):
        t = it.truth(args[0]) if args else False
        return t if isinstance(t, bool) else mk_bool(t)

    @reg('str')
    def _str(it, args, kw, n):
        if not args:
            return ''
        return to_str(it, args[0], n)

    @reg('repr')
    def _repr(it, args, kw, n):
        return to_repr(it, args[0], n)

    @reg('hex')
    def _hex(it, args, kw, n):
        v = args[0]
        if isinstance(v, int):
            return hex(v)
        if isinstance(v, SOpt):
            it.raise_if(z3.Not(v.present), 'TypeError', 'none-hex', n)
            v = v.val
        if isinstance(v, (EnumVal, SEnum)) and v.cls.kind in ('intflag', 'intenum'):
            v = enum_value(v)
        if not is_intlike(v):
            raise PyExc('TypeError', 'hex of non-int', site=(getattr(n, 'lineno', None), 'type'), kind='type')
        return SStr([('hex', zi(v))])

    @reg('chr')
    def _chr(it, args, kw, n):
        if isinstance(args[0], int):
            return chr(args[0])
        return SStr([('opaque', 'chr', (zi(args[0]),))])

    @reg('int')
    def _int(it, args, kw, n):
        v = args[0] if args else 0
        if isinstance(v, (int, float)):
            return int(v)
        if isinstance(v, (SInt, SBool)):
            return mk_int(zi(v))
        if isinstance(v, str):
            try:
                return int(v, *args[1:])
            except ValueError:
                raise PyExc('ValueError', 'invalid literal', site=(getattr(n, 'lineno', None), 'int-parse'), kind='int-parse')
        if isinstance(v, (EnumVal, SEnum)):
            return enum_value(v)
        if isinstance(v, SStr):
            from . import libstubs
            return libstubs.int_of_str(it, v, args[1:], n)
        raise Unsupported('int() of %s' % type(v).__name__)

    @reg('isinstance')
    def _isinstance(it, args, kw, n):
        v, c = args
        cs = c if isinstance(c, tuple) else (c,)
        for cc in cs:
            r = _isinst1(it, v, cc)
            if r is True:
                return True
            if r is not False:
                return r
        return False

    def _isinst1(it, v, c):
        if isinstance(c, ClassVal):
            if isinstance(v, Obj):
                k = v.cls
                seen = [k]
                while seen:
                    x = seen.pop()
                    if x is c:
                        return True
                    seen.extend(b for b in getattr(x, 'bases', ()) if isinstance(b, ClassVal))
                return False
            if isinstance(v, (EnumVal, SEnum)):
                return v.cls is c
            if isinstance(v, SOpt):
                inner = _isinst1(it, v.val, c)
                return mk_bool(z3.And(v.present, _zt(inner))) if inner is not False else False
            if c.kind == 'stub-type':
                return c.attrs['check'](v)
            return False
        if isinstance(c, Builtin):
            tn = c.name
            if tn == 'int':
                return is_intlike(v)
            if tn == 'str':
                return is_strlike(v)
            if tn == 'bytes':
                return isinstance(v, (bytes, SBytes, OBytes))
            if tn == 'list':
                return isinstance(v, (PList, SymList))
            if tn == 'dict':
                return isinstance(v, (PDict, SymMap))
            if tn == 'tuple':
                return isinstance(v, tuple) or (isinstance(v, Obj) and v.cls.kind == 'namedtuple')
            if tn == 'bool':
                return isinstance(v, (bool, SBool))
        raise Unsupported('isinstance against %r' % (c,))

    @reg('enumerate')
    def _enumerate(it, args, kw, n):
        start = args[1] if len(args) > 1 else kw.get('start', 0)
        src = args[0]
        if isinstance(src, SymList) and isinstance(start, int):
            # pairs (index, element) over a list of symbolic length; the provenance of the list is kept
            out = SymList(src.name + '.enumerate', src.length, lambda q, src=src: (mk_int(z3.simplify((q if isinstance(q, z3.ExprRef) else zi(q)) + start)), src.elem(q)), origin=src.origin)
            out.enumerated = src
            return out
        return [(i + start, v) for i, v in enumerate(it.iterate(args[0], n))]

    @reg('zip')
    def _zip(it, args, kw, n):
        return list(zip(*[it.iterate(a, n) for a in args]))

    @reg('print')
    def _print(it, args, kw, n):
        sink = it.builtins.get('$stdout')
        if sink is not None:
            sink.append(tuple(to_str(it, a, n) for a in args))
        return None

    @reg('bytes')
    def _bytes(it, args, kw, n):
        if not args:
            return b''
        v = args[0]
        if isinstance(v, int):
            return bytes(v)
        if isinstance(v, (bytes,)):
            return v
        if isinstance(v, (PList, tuple, list)):
            vals = it.iterate(v, n)
            if all(isinstance(x, int) for x in vals):
                return bytes(vals)
            return SBytes(vals)
        raise Unsupported('bytes() of %s' % type(v).__name__)

    @reg('min')
    def _min(it, args, kw, n):
        vals = args if len(args) > 1 else it.iterate(args[0], n)
        r = vals[0]
        for v in vals[1:]:
            if isinstance(r, int) and isinstance(v, int):
                r = min(r, v)
            else:
                r = mk_int(z3.If(zi(v) < zi(r), zi(v), zi(r)))
        return r

    @reg('max')
    def _max(it, args, kw, n):
        vals = args if len(args) > 1 else it.iterate(args[0], n)
        r = vals[0]
        for v in vals[1:]:
            if isinstance(r, int) and isinstance(v, int):
                r = max(r, v)
            else:
                r = mk_int(z3.If(zi(v) > zi(r), zi(v), zi(r)))
        return r

    @reg('sum')
    def _sum(it, args, kw, n):
        vals = it.iterate(args[0], n)
        r = args[1] if len(args) > 1 else 0
        for v in vals:
            r = it.binop(ast.Add(), r, v, n)
        return r

    @reg('abs')
    def _abs(it, args, kw, n):
        v = args[0]
        if isinstance(v, int):
            return abs(v)
        return mk_int(z3.If(zi(v) < 0, -zi(v), zi(v)))

    @reg('iter')
    def _iter(it, args, kw, n):
        return args[0]

    @reg('next')
    def _next(it, args, kw, n):
        v = args[0]
        if isinstance(v, SymList):
            idx = getattr(v, 'next_idx', 0)
            v.next_idx = idx + 1
            if len(args) > 1:
                if it.ctx.branch(v.length > idx):
                    return v.elem(z3.IntVal(idx))
                return args[1]
            it.raise_if(v.length <= idx, 'StopIteration', 'next-exhausted', n)
            return v.elem(z3.IntVal(idx))
        if isinstance(v, GenVal):
            lst = it.run_generator(v)
            idx = getattr(v, 'next_idx', 0)
            v.next_idx = idx + 1
            if lst.is_concrete():
                vals = lst.values()
                if idx < len(vals):
                    return vals[idx]
                if len(args) > 1:
                    return args[1]
                raise PyExc('StopIteration', site=(getattr(n, 'lineno', None), 'next'), kind='next')
        raise Unsupported('next()')

    @reg('getattr')
    def _getattr(it, args, kw, n):
        if isinstance(args[1], str):
            try:
                return libattr.getattr_(it, args[0], args[1], n)
            except PyExc as e:
                if e.cls_name == 'AttributeError' and len(args) > 2:
                    return args[2]
                raise
        raise Unsupported('getattr symbolic name')

    @reg('hasattr')
    def _hasattr(it, args, kw, n):
        try:
            libattr.getattr_(it, args[0], args[1], n)
            return True
        except PyExc:
            return False

    @reg('id')
    def _id(it, args, kw, n):
        return id(args[0])

    @reg('float')
    def _float(it, args, kw, n):
        if isinstance(args[0], (int, float)):
            return float(args[0])
        return OpaqueFloat('float', (args[0],))

    @reg('round')
    def _round(it, args, kw, n):
        return OpaqueFloat('round', tuple(args))

    @reg('type')
    def _type(it, args, kw, n):
        v = args[0]
        if isinstance(v, Obj):
            return v.cls
        if isinstance(v, (EnumVal, SEnum)):
            return v.cls
        raise Unsupported('type()')

    @reg('staticmethod')
    def _sm(it, args, kw, n):
        return args[0]

    @reg('classmethod')
    def _cm(it, args, kw, n):
        return args[0]

    @reg('property')
    def _prop(it, args, kw, n):
        return args[0]

    @reg('open')
    def _open(it, args, kw, n):
        raise Unsupported('open()')

    @reg('super')
    def _super(it, args, kw, n):
        raise Unsupported('super()')

    for en in ('Exception', 'ValueError', 'TypeError', 'KeyError', 'IndexError', 'AttributeError', 'StopIteration',
               'LookupError', 'UnicodeDecodeError', 'AssertionError', 'ZeroDivisionError', 'BaseException',
               'NotImplementedError', 'RuntimeError', 'OSError', 'EOFError', 'OverflowError'):
        b[en] = ClassVal(en, None, 'exception')
    b['True'] = True
    b['False'] = False
    b['None'] = None
    b['object'] = ClassVal('object', None, 'plain')
    return b
