"""Class construction (enum / dataclass / namedtuple / plain) and instantiation."""
import ast
import z3

from .values import *  # noqa
from .libops import _zt, _hashkey


class Factory:
    def __init__(self, fn):
        self.fn = fn


def _decorator_names(node):
    out = []
    for d in node.decorator_list:
        if isinstance(d, ast.Name):
            out.append(d.id)
        elif isinstance(d, ast.Attribute):
            out.append(d.attr)
        elif isinstance(d, ast.Call):
            f = d.func
            out.append(f.id if isinstance(f, ast.Name) else getattr(f, 'attr', '?'))
    return out


def build_class(it, node, fr):
    bases = [it.eval(b, fr) for b in node.bases]
    cls = ClassVal(node.name, it._module_of(fr))
    cls.node = node
    cls.bases = [b for b in bases if isinstance(b, ClassVal)]
    kind = 'plain'
    for b in cls.bases:
        if b.kind in ('enum', 'flag', 'intflag', 'intenum', 'exception'):
            kind = b.kind
    decs = _decorator_names(node)
    if 'dataclass' in decs:
        kind = 'dataclass'
    if any(b.kind == 'namedtuple-base' for b in cls.bases):
        # class X(typing.NamedTuple): the annotated names are the fields, in order; methods stay methods
        kind = 'namedtuple'
        cls.bases = [b for b in cls.bases if b.kind != 'namedtuple-base']
    cls.kind = kind
    cfr = Frame(parent=fr)
    for b in cls.bases:
        if b.kind == 'dataclass':
            cls.fields.extend(b.fields)
    for s in node.body:
        if isinstance(s, ast.Expr) and isinstance(s.value, ast.Constant):
            continue
        if isinstance(s, ast.Pass):
            continue
        if isinstance(s, ast.FunctionDef):
            f = FuncVal(s, cls.module, cls=cls, closure=fr)
            f.decorators = s.decorator_list
            dn = _decorator_names(s)
            f.kind = 'static' if 'staticmethod' in dn else 'class' if 'classmethod' in dn else \
                'property' if 'property' in dn else 'method'
            cls.attrs[s.name] = f
            cfr.vars[s.name] = f
            continue
        if isinstance(s, ast.AnnAssign) and isinstance(s.target, ast.Name):
            default = MISSING
            if s.value is not None:
                default = it.eval(s.value, cfr)
            if kind in ('dataclass', 'namedtuple'):
                cls.fields = [(n, d) for n, d in cls.fields if n != s.target.id] + [(s.target.id, default)]
                if kind == 'namedtuple':
                    continue
            if default is not MISSING and not isinstance(default, Factory):
                cls.attrs[s.target.id] = default
            continue
        if isinstance(s, ast.Assign):
            v = it.eval(s.value, cfr)
            for t in s.targets:
                if not isinstance(t, ast.Name):
                    raise Unsupported('class-level assignment target')
                cfr.vars[t.id] = v
                if kind in ('enum', 'flag', 'intflag', 'intenum') and not t.id.startswith('__') \
                        and not isinstance(v, (FuncVal,)):
                    if isinstance(v, tuple) and len(v) == 1:
                        v = v[0]
                    cls.members.append((t.id, v))
                else:
                    cls.attrs[t.id] = v
            continue
        raise Unsupported('class body statement %s' % type(s).__name__)
    return cls


def make_namedtuple(name, fields, module=None):
    cls = ClassVal(name, module, 'namedtuple')
    cls.fields = [(f, MISSING) for f in fields]
    return cls


def enum_lookup(it, cls, v, node=None):
    if isinstance(v, (EnumVal, SEnum)) and v.cls is cls:
        return v
    if isinstance(v, SOpt):
        it.raise_if(z3.Not(v.present), 'ValueError', 'enum-value:' + cls.name, node)
        v = v.val
    members = cls.canonical_members()
    if cls.kind in ('flag', 'intflag'):
        allbits = 0
        for _, mv in members:
            allbits |= mv
        if isinstance(v, int):
            for n, mv in members:
                if mv == v:
                    return EnumVal(cls, n, mv)
            if cls.kind == 'flag' and (v < 0 or v & ~allbits):
                raise PyExc('ValueError', '%r is not a valid %s' % (v, cls.name),
                            site=(getattr(node, 'lineno', None), 'enum-value'), kind='enum-value:' + cls.name)
            return SEnum(cls, z3.IntVal(v))
        if not is_intlike(v):
            raise PyExc('ValueError', 'not a valid %s' % cls.name, site=(getattr(node, 'lineno', None), 'enum-value'),
                        kind='enum-value:' + cls.name)
        t = zi(v)
        if cls.kind == 'flag':
            from .libops import and_const
            # STRICT boundary: bits outside the declared ones are an error
            it.raise_if(z3.Or(t < 0, t != and_const(t, allbits)), 'ValueError', 'enum-value:' + cls.name, node)
        return SEnum(cls, t)
    if isinstance(v, (int, str, bytes)) or v is None:
        for n, mv in members:
            if mv == v and type(mv) is type(v) or (isinstance(mv, int) and isinstance(v, int) and mv == v):
                return EnumVal(cls, n, mv)
        raise PyExc('ValueError', '%r is not a valid %s' % (v, cls.name),
                    site=(getattr(node, 'lineno', None), 'enum-value'), kind='enum-value:' + cls.name)
    if isinstance(v, (SInt, SBool)):
        t = zi(v)
        ivals = [mv for _, mv in members if isinstance(mv, int)]
        it.raise_if(z3.Not(z3.Or([t == mv for mv in ivals])) if ivals else True, 'ValueError',
                    'enum-value:' + cls.name, node)
        return SEnum(cls, t)
    raise PyExc('ValueError', 'not a valid %s' % cls.name, site=(getattr(node, 'lineno', None), 'enum-value'),
                kind='enum-value:' + cls.name)


def instantiate(it, cls, args, kwargs, node=None):
    if cls.kind in ('enum', 'flag', 'intflag', 'intenum'):
        if len(args) != 1:
            raise Unsupported('enum functional API')
        return enum_lookup(it, cls, args[0], node)
    if cls.kind == 'host-enum':
        from . import libstubs
        return libstubs.host_enum_lookup(it, cls, args[0], node)
    if cls.kind == 'stub':
        return cls.attrs['__call__'](it, args, kwargs, node)
    if cls.kind == 'namedtuple':
        names = [n for n, _ in cls.fields]
        if len(args) > len(names):
            raise PyExc('TypeError', 'too many arguments', site=(getattr(node, 'lineno', None), 'call'), kind='call')
        fields = dict(zip(names, args))
        for k, v in kwargs.items():
            if k not in names or k in fields:
                raise PyExc('TypeError', 'bad keyword %s' % k, site=(getattr(node, 'lineno', None), 'call'), kind='call')
            fields[k] = v
        for n_, d_ in cls.fields:
            if n_ not in fields and d_ is not MISSING:
                fields[n_] = d_          # defaults of a typing.NamedTuple class
        if len(fields) != len(names):
            raise PyExc('TypeError', 'missing arguments', site=(getattr(node, 'lineno', None), 'call'), kind='call')
        return Obj(cls, {n_: fields[n_] for n_ in names})
    if cls.kind == 'dataclass' and cls.lookup('__init__') is MISSING:
        names = [n for n, _ in cls.fields]
        if len(args) > len(names):
            raise PyExc('TypeError', 'too many positional arguments', site=(getattr(node, 'lineno', None), 'call'), kind='call')
        fields = {}
        for n, a in zip(names, args):
            fields[n] = a
        kwargs = dict(kwargs)
        ss = kwargs.pop('$starstar', None)
        guarded = {}
        if ss is not None:
            for k in ss.keys():
                g, v = ss.d[k]
                if not isinstance(k, str):
                    raise PyExc('TypeError', 'keywords must be strings', kind='call')
                if g is True:
                    if k in kwargs:
                        raise PyExc('TypeError', 'duplicate keyword', kind='call')
                    kwargs[k] = v
                else:
                    guarded[k] = (g, v)
        for k, v in kwargs.items():
            if k not in names or k in fields:
                raise PyExc('TypeError', "unexpected keyword argument '%s'" % k,
                            site=(getattr(node, 'lineno', None), 'call'), kind='call-kw:' + k)
            fields[k] = v
        for k, (g, v) in guarded.items():
            if k not in names or k in fields:
                it.raise_if(g, 'TypeError', 'call-kw:' + k, node, msg="unexpected keyword argument '%s'" % k)
        for n, d in cls.fields:
            if n in fields:
                continue
            if isinstance(d, Factory):
                dv = it.call(d.fn, [], {})
            else:
                dv = d
            if n in guarded:
                g, v = guarded[n]
                if dv is MISSING:
                    it.raise_if(z3.Not(g), 'TypeError', 'call-missing:' + n, node)
                    fields[n] = v
                else:
                    try:
                        fields[n] = merge(g, v, dv)
                    except MergeFail:
                        fields[n] = v if it.ctx.branch(g) else dv
                continue
            if dv is MISSING:
                raise PyExc('TypeError', 'missing argument %s' % n, site=(getattr(node, 'lineno', None), 'call'),
                            kind='call-missing:' + n)
            fields[n] = dv
        o = Obj(cls, fields)
        pi = cls.lookup('__post_init__')
        if pi is not MISSING:
            it.call(pi, [o], {})
        return o
    if cls.kind == 'exception':
        return Obj(cls, {'msg': args[0] if args else ''})
    o = Obj(cls, {})
    init = cls.lookup('__init__')
    if init is not MISSING:
        it.call(init, [o] + list(args), kwargs, node)
    elif args or kwargs:
        for b in cls.bases:
            if b.kind == 'stub':
                o.fields['$args'] = tuple(args)
                o.fields['$kwargs'] = kwargs
                return o
        raise PyExc('TypeError', '%s() takes no arguments' % cls.name, kind='call')
    return o
