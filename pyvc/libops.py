"""Operators, comparisons, attribute / item access and formatting for symbolic values."""
import ast
import z3

from .values import *  # noqa
from .values import _and
from .repo import Unknown


def _zt(b):
    return z3.BoolVal(b) if isinstance(b, bool) else b


# ------------------------------------------------------------------------------ int ops
def mask_runs(m):
    """contiguous runs of set bits of non-negative int m: [(lo, width)]"""
    runs = []
    i = 0
    while m >> i:
        if (m >> i) & 1:
            j = i
            while (m >> j) & 1:
                j += 1
            runs.append((i, j - i))
            i = j
        else:
            i += 1
    return runs


def and_const(x, m, it=None):
    """x & m for z3 Int x and python int m >= 0 (exact for all integers x: floor div/mod)."""
    if m == 0:
        return z3.IntVal(0)
    terms = []
    for lo, w in mask_runs(m):
        t = x
        if lo:
            t = t / (1 << lo) if it is None else divmod_const(it, t, 1 << lo)[0]
        t = t % (1 << w) if it is None else divmod_const(it, t, 1 << w)[1]
        if lo:
            t = t * (1 << lo)
        terms.append(t)
    return z3.Sum(terms) if len(terms) > 1 else terms[0]


def _bound_bits(it, x):
    """smallest k in (2,8,16,32,64) with pc => 0 <= x < 2^k, else None"""
    ctx = it.ctx
    for k in (1, 2, 8, 16, 32, 64):
        from .paths import check_sat
        r, _ = check_sat(ctx.pc + [z3.Or(x < 0, x >= (1 << k))], 2000)
        if r == z3.unsat:
            return k
    return None


def and_sym(it, x, y):
    k = _bound_bits(it, y)
    a, b = x, y
    if k is None:
        k = _bound_bits(it, x)
        a, b = y, x
    if k is None:
        raise Unsupported('bitwise and of two unbounded symbolic ints')
    terms = []
    for i in range(k):
        bi = (b / (1 << i)) % 2
        ai = (a / (1 << i)) % 2
        terms.append(z3.If(z3.And(ai == 1, bi == 1), z3.IntVal(1 << i), z3.IntVal(0)))
    return z3.Sum(terms)


def lin_parse(t):
    """z3 Int term as (const, {ast_id: (coef, atom)}) or None when not linear with integer coefficients."""
    if z3.is_int_value(t):
        return t.as_long(), {}
    if z3.is_add(t):
        c0, m = 0, {}
        for ch in t.children():
            r = lin_parse(ch)
            if r is None:
                return None
            c0 += r[0]
            for k, (c, a) in r[1].items():
                if k in m:
                    m[k] = (m[k][0] + c, a)
                else:
                    m[k] = (c, a)
        return c0, m
    if z3.is_mul(t) and t.num_args() == 2:
        x, y = t.arg(0), t.arg(1)
        if z3.is_int_value(y):
            x, y = y, x
        if z3.is_int_value(x):
            r = lin_parse(y)
            if r is None:
                return None
            k = x.as_long()
            return r[0] * k, {i: (c * k, a) for i, (c, a) in r[1].items()}
        return None
    if z3.is_sub(t) or (z3.is_app(t) and t.decl().kind() == z3.Z3_OP_UMINUS):
        return None
    return 0, {t.get_id(): (1, t)}


def divmod_const(it, x, c):
    """(x div c, x mod c) for c > 0, using declared ranges to split x = c*H + L with 0 <= L < c exactly
    (digit extraction); falls back to the plain div/mod terms."""
    ctx = it.ctx
    if ctx is not None and ctx.ranges:
        r = lin_parse(z3.simplify(x))
        if r is not None:
            c0, m = r
            H, L = [], []
            ok = True
            lmin = lmax = 0
            for k, (coef, atom) in m.items():
                if coef % c == 0:
                    H.append((coef // c, atom))
                    continue
                rg = ctx.ranges.get(k)
                if rg is None:
                    ok = False
                    break
                lo, hi = rg[1], rg[2]
                L.append((coef, atom))
                lmin += coef * lo if coef > 0 else coef * hi
                lmax += coef * hi if coef > 0 else coef * lo
            if ok:
                h0, l0 = divmod(c0, c)
                if lmin + l0 >= 0 and lmax + l0 < c:
                    hi_t = z3.Sum([z3.IntVal(h0)] + [k * a for k, a in H]) if H else z3.IntVal(h0)
                    lo_t = z3.Sum([z3.IntVal(l0)] + [k * a for k, a in L]) if L else z3.IntVal(l0)
                    return z3.simplify(hi_t), z3.simplify(lo_t)
    return x / c, x % c


def int_binop(it, op, a, b, node):
    ca = isinstance(a, int)
    cb = isinstance(b, int)
    if ca and cb:
        return _py_binop(op, a, b, node)
    A, B = zi(a), zi(b)
    if isinstance(op, ast.Add):
        return mk_int(A + B)
    if isinstance(op, ast.Sub):
        return mk_int(A - B)
    if isinstance(op, ast.Mult):
        return mk_int(A * B)
    if isinstance(op, (ast.FloorDiv, ast.Mod)):
        if cb:
            if b == 0:
                raise PyExc('ZeroDivisionError', site=(getattr(node, 'lineno', None), 'div'), kind='div')
            if b > 0:
                q, r = divmod_const(it, A, b)
                return mk_int(q if isinstance(op, ast.FloorDiv) else r)
            raise Unsupported('division by negative constant')
        it.raise_if(B == 0, 'ZeroDivisionError', 'div', node)
        # python floor semantics for positive divisor only; require it
        it.raise_if(B < 0, 'Unsupported', 'negdiv', node)
        return mk_int(A / B if isinstance(op, ast.FloorDiv) else A % B)
    if isinstance(op, ast.BitAnd):
        if cb and b >= 0:
            return mk_int(and_const(A, b, it))
        if ca and a >= 0:
            return mk_int(and_const(B, a, it))
        if (cb and b < 0) or (ca and a < 0):
            # x & negative const = x - (x & ~const)
            x, c = (A, b) if cb else (B, a)
            return mk_int(x - and_const(x, ~c, it))
        return mk_int(and_sym(it, A, B))
    if isinstance(op, ast.BitOr):
        if cb and b >= 0:
            return mk_int(A + b - and_const(A, b, it))
        if ca and a >= 0:
            return mk_int(B + a - and_const(B, a, it))
        return mk_int(A + B - and_sym(it, A, B))
    if isinstance(op, ast.BitXor):
        if cb and b >= 0:
            return mk_int(A + b - 2 * and_const(A, b, it))
        if ca and a >= 0:
            return mk_int(B + a - 2 * and_const(B, a, it))
        return mk_int(A + B - 2 * and_sym(it, A, B))
    if isinstance(op, ast.LShift):
        if cb and b >= 0:
            return mk_int(A * (1 << b))
        raise Unsupported('shift by symbolic amount')
    if isinstance(op, ast.RShift):
        if cb and b >= 0:
            return mk_int(divmod_const(it, A, 1 << b)[0])
        raise Unsupported('shift by symbolic amount')
    if isinstance(op, ast.Pow):
        if cb and b >= 0 and b <= 4:
            r = z3.IntVal(1)
            for _ in range(b):
                r = r * A
            return mk_int(r)
        raise Unsupported('pow')
    if isinstance(op, ast.Div):
        return OpaqueFloat('div', (a, b))
    raise Unsupported('int op %s' % type(op).__name__)


class OpaqueFloat:
    """floating-point value: outside the family (never reasoned about)."""

    def __init__(self, op, args):
        self.op = op
        self.args = args


def _py_binop(op, a, b, node=None):
    import operator
    table = {ast.Add: operator.add, ast.Sub: operator.sub, ast.Mult: operator.mul, ast.FloorDiv: operator.floordiv,
             ast.Mod: operator.mod, ast.BitAnd: operator.and_, ast.BitOr: operator.or_, ast.BitXor: operator.xor,
             ast.LShift: operator.lshift, ast.RShift: operator.rshift, ast.Pow: operator.pow, ast.Div: operator.truediv}
    try:
        return table[type(op)](a, b)
    except ZeroDivisionError:
        raise PyExc('ZeroDivisionError', site=(getattr(node, 'lineno', None), 'div'), kind='div')
    except TypeError as e:
        raise PyExc('TypeError', str(e), site=(getattr(node, 'lineno', None), 'type'), kind='type')


def binop(it, op, a, b, node=None):
    if getattr(b, 'construct_decl', False) and isinstance(op, ast.Div) and isinstance(a, str):
        return b.renamed(a)
    if isinstance(b, Obj) and isinstance(op, ast.Div) and isinstance(a, str):
        b.fields['$name'] = a
        return b
    if isinstance(a, (Instant, Duration)) or isinstance(b, (Instant, Duration)):
        if isinstance(op, ast.Add) and isinstance(a, Instant) and isinstance(b, Duration):
            return Instant(z3.simplify(a.us + b.us), a.tz)
        if isinstance(op, ast.Add) and isinstance(a, Duration) and isinstance(b, Instant):
            return Instant(z3.simplify(a.us + b.us), b.tz)
        if isinstance(op, ast.Sub) and isinstance(a, Instant) and isinstance(b, Duration):
            return Instant(z3.simplify(a.us - b.us), a.tz)
        if isinstance(op, (ast.Add, ast.Sub)) and isinstance(a, Duration) and isinstance(b, Duration):
            return Duration(z3.simplify(a.us + b.us if isinstance(op, ast.Add) else a.us - b.us))
        raise Unsupported('datetime arithmetic %s' % type(op).__name__)
    if isinstance(a, OpaqueFloat) or isinstance(b, OpaqueFloat) or isinstance(a, float) or isinstance(b, float):
        if isinstance(a, (int, float)) and isinstance(b, (int, float)):
            return _py_binop(op, a, b, node)
        return OpaqueFloat(type(op).__name__, (a, b))
    if is_intlike(a) and is_intlike(b):
        return int_binop(it, op, a, b, node)
    if isinstance(op, ast.Add) and (type(a).__name__ == 'FBytes' or type(b).__name__ == 'FBytes'):
        from . import stream
        if isinstance(a, bytes) and len(a) == 0:
            return b
        if isinstance(b, bytes) and len(b) == 0:
            return a
        return stream.fbytes_concat(it, a, b)
    if isinstance(op, ast.Add):
        if is_strlike(a) and is_strlike(b):
            return str_concat(a, b)
        if isinstance(a, bytes) and isinstance(b, bytes):
            return a + b
        if isinstance(a, (bytes, SBytes)) and isinstance(b, (bytes, SBytes)):
            return SBytes(tuple(_belems(a)) + tuple(_belems(b)))
        if isinstance(a, (bytes, SBytes, OBytes)) and isinstance(b, (bytes, SBytes, OBytes)):
            return it.lib.obytes_concat(it, a, b)
        if isinstance(a, tuple) and isinstance(b, tuple):
            return a + b
        if isinstance(a, PList) and isinstance(b, PList):
            return PList(guarded=a.items + b.items)
        if isinstance(a, SymList) or isinstance(b, SymList):
            return it.lib.symlist_concat(it, a, b)
    if isinstance(op, ast.Mult):
        if isinstance(a, str) and isinstance(b, int):
            return a * b
        if isinstance(a, int) and isinstance(b, str):
            return a * b
        if isinstance(a, bytes) and isinstance(b, int):
            return a * b
        if isinstance(a, str) and isinstance(b, SInt):
            return SStr([('opaque', 'repeat', (a, b.t))])
    if isinstance(op, ast.Mod) and isinstance(a, str):
        concrete = lambda x: isinstance(x, (str, int, float, bool, bytes)) and not hasattr(x, 't')
        if concrete(b) or (isinstance(b, tuple) and all(concrete(x) for x in b)):
            try:
                return a % b
            except (TypeError, ValueError) as e:
                raise PyExc('TypeError', str(e), site=(getattr(node, 'lineno', None), 'type'), kind='type')
        return percent_format(it, a, b, node)
    if isinstance(op, ast.BitOr) and (isinstance(a, SymSet) or isinstance(b, SymSet)):
        def member(v, x):
            r = contains(it, v, x, node)
            return z3.BoolVal(r) if isinstance(r, bool) else r
        return SymSet(lambda x: z3.Or(member(a, x), member(b, x)))
    if isinstance(op, ast.BitOr):
        if isinstance(a, (EnumVal, SEnum)) and isinstance(b, (EnumVal, SEnum)) and a.cls is b.cls \
                and a.cls.kind in ('flag', 'intflag'):
            ta = a.t if isinstance(a, SEnum) else z3.IntVal(a.value)
            tb = b.t if isinstance(b, SEnum) else z3.IntVal(b.value)
            r = int_binop(it, op, mk_int(ta), mk_int(tb), node)
            return SEnum(a.cls, zi(r))
    if isinstance(a, (EnumVal, SEnum)) and a.cls.kind in ('intflag', 'intenum') and is_intlike(b):
        return binop(it, op, enum_value(a), b, node)
    if isinstance(b, (EnumVal, SEnum)) and b.cls.kind in ('intflag', 'intenum') and is_intlike(a):
        return binop(it, op, a, enum_value(b), node)
    if isinstance(a, SOpt) or isinstance(b, SOpt):
        # arithmetic on None raises TypeError
        if isinstance(a, SOpt):
            it.raise_if(z3.Not(a.present), 'TypeError', 'none-arith', node)
            return binop(it, op, a.val, b, node)
        it.raise_if(z3.Not(b.present), 'TypeError', 'none-arith', node)
        return binop(it, op, a, b.val, node)
    if a is None or b is None:
        raise PyExc('TypeError', 'NoneType operand', site=(getattr(node, 'lineno', None), 'none-arith'), kind='none-arith')
    raise Unsupported('binop %s on %s, %s' % (type(op).__name__, type(a).__name__, type(b).__name__))


def enum_value(e):
    if isinstance(e, EnumVal):
        return e.value
    return mk_int(e.t)


def _belems(b):
    if isinstance(b, bytes):
        return list(b)
    return list(b.elems)


# ------------------------------------------------------------------------------ comparison
def values_equal(it, a, b, node=None):
    """Python bool or z3 Bool for a == b."""
    if isinstance(a, Unknown) or isinstance(b, Unknown):
        raise Unsupported('comparison with dropped value')
    if isinstance(a, SOpt) or isinstance(b, SOpt):
        if isinstance(a, SOpt) and isinstance(b, SOpt):
            inner = values_equal(it, a.val, b.val, node)
            return z3.Or(z3.And(z3.Not(a.present), z3.Not(b.present)), z3.And(a.present, b.present, _zt(inner)))
        o, x = (a, b) if isinstance(a, SOpt) else (b, a)
        if x is None:
            return z3.Not(o.present)
        return z3.And(o.present, _zt(values_equal(it, o.val, x, node)))
    if a is None or b is None:
        return a is None and b is None
    if type(a).__name__ == 'FBytes' or type(b).__name__ == 'FBytes':
        f, o = (a, b) if type(a).__name__ == 'FBytes' else (b, a)
        if isinstance(o, bytes):
            return f.equals_const(o)
        if type(o).__name__ == 'FBytes' and o.file is f.file:
            if f.start.eq(o.start) and f.length.eq(o.length):
                return True
        raise Unsupported('comparison of file slices')
    if is_intlike(a) and is_intlike(b):
        if isinstance(a, (int,)) and isinstance(b, (int,)):
            return a == b
        return zi(a) == zi(b)
    if is_strlike(a) and is_strlike(b):
        return str_equal(it, a, b)
    if isinstance(a, (bytes, SBytes)) and isinstance(b, (bytes, SBytes)):
        ea, eb = _belems(a), _belems(b)
        if len(ea) != len(eb):
            return False
        cs = [values_equal(it, x, y) for x, y in zip(ea, eb)]
        if any(c is False for c in cs):
            return False
        cs = [c for c in cs if c is not True]
        return z3.And(cs) if cs else True
    if isinstance(a, (bytes, SBytes, OBytes)) and isinstance(b, (bytes, SBytes, OBytes)):
        return it.lib.obytes_equal(it, a, b)
    if isinstance(a, (EnumVal, SEnum)) or isinstance(b, (EnumVal, SEnum)):
        if isinstance(a, (EnumVal, SEnum)) and isinstance(b, (EnumVal, SEnum)):
            if a.cls is not b.cls:
                return False
            if isinstance(a, EnumVal) and isinstance(b, EnumVal):
                return a == b
            return values_equal(it, enum_value(a), enum_value(b))
        e, x = (a, b) if isinstance(a, (EnumVal, SEnum)) else (b, a)
        if e.cls.kind in ('intflag', 'intenum') and is_intlike(x):
            return values_equal(it, enum_value(e), x)
        return False
    if isinstance(a, tuple) and isinstance(b, tuple):
        if len(a) != len(b):
            return False
        cs = [values_equal(it, x, y) for x, y in zip(a, b)]
        if any(c is False for c in cs):
            return False
        cs = [c for c in cs if c is not True]
        return z3.And(cs) if cs else True
    if isinstance(a, PList) and isinstance(b, PList):
        if a.is_concrete() and b.is_concrete():
            return values_equal(it, tuple(a.values()), tuple(b.values()))
        raise Unsupported('== on guarded lists')
    if isinstance(a, Obj) and isinstance(b, Obj):
        if a is b:
            return True
        if a.cls is not b.cls:
            return False
        if a.cls.kind in ('namedtuple', 'dataclass'):
            cs = [values_equal(it, a.fields[n], b.fields[n]) for n, _ in a.cls.fields]
            if any(c is False for c in cs):
                return False
            cs = [c for c in cs if c is not True]
            return z3.And(cs) if cs else True
        return False
    if isinstance(a, PDict) and isinstance(b, PDict):
        if a.keys() != b.keys() and set(a.keys()) != set(b.keys()):
            return False
        cs = []
        for k in a.keys():
            ga, va = a.d[k]
            gb, vb = b.d[k]
            if ga is not True or gb is not True:
                raise Unsupported('== on dicts with symbolic presence')
            cs.append(values_equal(it, va, vb))
        if any(c is False for c in cs):
            return False
        cs = [c for c in cs if c is not True]
        return z3.And(cs) if cs else True
    if type(a) is type(b) and isinstance(a, (FuncVal, ClassVal, ModuleVal, Builtin)):
        return a is b
    if isinstance(a, (int, str, bytes, bool, float, tuple)) and isinstance(b, (int, str, bytes, bool, float, tuple)):
        return a == b
    # values of different kinds are unequal in Python
    kinds = lambda v: ('int' if is_intlike(v) else 'str' if is_strlike(v) else 'bytes' if isinstance(v, (bytes, SBytes, OBytes)) else type(v).__name__)
    if kinds(a) != kinds(b):
        return False
    raise Unsupported('== on %s / %s' % (type(a).__name__, type(b).__name__))


def _single_atom(s):
    s = to_sstr(s)
    if len(s.toks) == 0:
        return z3.IntVal(intern_str(''))
    if len(s.toks) == 1:
        tk = s.toks[0]
        if tk[0] == 'lit':
            return z3.IntVal(intern_str(tk[1]))
        if tk[0] == 'atom':
            return tk[1]
    return None


def str_equal(it, a, b):
    if isinstance(a, str) and isinstance(b, str):
        return a == b
    ta, tb = _single_atom(a), _single_atom(b)
    if ta is not None and tb is not None:
        return ta == tb
    sa, sb = to_sstr(a), to_sstr(b)
    from .values import _toks_equal
    if _toks_equal(sa.toks, sb.toks):
        return True
    # a decimal rendering compared with a literal / another rendering
    if len(sa.toks) == 1 and len(sb.toks) == 1:
        x, y = sa.toks[0], sb.toks[0]
        if x[0] == 'dec' and y[0] == 'dec':
            return x[1] == y[1]
        for p, q in ((x, y), (y, x)):
            if p[0] == 'dec' and q[0] == 'lit':
                try:
                    n = int(q[1])
                    if str(n) == q[1]:
                        return p[1] == n
                except ValueError:
                    pass
                return False
            if p[0] == 'dec' and q[0] == 'atom':
                return it.lib.StrOfInt(p[1]) == q[1]
    raise Unsupported('string equality on composite symbolic strings')


def compare(it, op, a, b, node=None):
    if isinstance(op, (ast.Eq, ast.NotEq)):
        r = values_equal(it, a, b, node)
        if isinstance(op, ast.NotEq):
            r = (not r) if isinstance(r, bool) else z3.Not(r)
        return r if isinstance(r, bool) else mk_bool(r)
    if isinstance(op, (ast.Is, ast.IsNot)):
        if b is None or a is None:
            x = a if b is None else b
            if isinstance(x, SOpt):
                r = z3.Not(x.present)
            else:
                r = x is None
        elif isinstance(a, (bool, SBool)) or isinstance(b, (bool, SBool)):
            r = values_equal(it, a, b, node)
        elif isinstance(a, (EnumVal, SEnum)) and isinstance(b, (EnumVal, SEnum)):
            r = values_equal(it, a, b, node)
        else:
            r = a is b
        if isinstance(op, ast.IsNot):
            r = (not r) if isinstance(r, bool) else z3.Not(r)
        return r if isinstance(r, bool) else mk_bool(r)
    if isinstance(op, (ast.In, ast.NotIn)):
        r = contains(it, b, a, node)
        if isinstance(op, ast.NotIn):
            r = (not r) if isinstance(r, bool) else z3.Not(_zt(r))
        return r if isinstance(r, bool) else mk_bool(r)
    # ordering
    if isinstance(a, (EnumVal, SEnum)) and a.cls.kind in ('intflag', 'intenum'):
        a = enum_value(a)
    if isinstance(b, (EnumVal, SEnum)) and b.cls.kind in ('intflag', 'intenum'):
        b = enum_value(b)
    if isinstance(a, SOpt):
        it.raise_if(z3.Not(a.present), 'TypeError', 'none-order', node)
        a = a.val
    if isinstance(b, SOpt):
        it.raise_if(z3.Not(b.present), 'TypeError', 'none-order', node)
        b = b.val
    if is_intlike(a) and is_intlike(b):
        if isinstance(a, int) and isinstance(b, int):
            import operator
            return {ast.Lt: operator.lt, ast.LtE: operator.le, ast.Gt: operator.gt, ast.GtE: operator.ge}[type(op)](a, b)
        A, B = zi(a), zi(b)
        return mk_bool({ast.Lt: A < B, ast.LtE: A <= B, ast.Gt: A > B, ast.GtE: A >= B}[type(op)])
    if a is None or b is None:
        raise PyExc('TypeError', 'ordering with None', site=(getattr(node, 'lineno', None), 'none-order'), kind='none-order')
    raise Unsupported('ordering on %s / %s' % (type(a).__name__, type(b).__name__))


def contains(it, container, x, node=None):
    if hasattr(container, 'py_contains'):
        return container.py_contains(it, x, node)
    if isinstance(container, (tuple, list)):
        items = list(container)
    elif isinstance(container, PList):
        if container.is_concrete():
            items = container.values()
        else:
            cs = []
            for g, v in container.items:
                e = values_equal(it, v, x, node)
                if e is False:
                    continue
                cs.append(z3.And(_zt(g), _zt(e)))
            return z3.Or(cs) if cs else False
    elif isinstance(container, PDict):
        if isinstance(x, (SInt, SStr, SEnum)) or type(x).__name__ == 'FBytes':
            cs = []
            for k in container.keys():
                e = values_equal(it, k, x, node)
                if e is False:
                    continue
                g = container.d[k][0]
                cs.append(z3.And(_zt(g), _zt(e)))
            return z3.Or(cs) if cs else False
        ent = container.get_entry(_hashkey(x))
        if ent is MISSING:
            return False
        return ent[0]
    elif isinstance(container, SymMap):
        return it.lib.symmap_contains(it, container, x)
    elif type(container).__name__ == 'HostOpaque':
        from . import libattr
        return libattr._host_fn(container.name + '.dom', z3.BoolSort())(libattr.host_opaque_key(x))
    elif isinstance(container, SymList):
        return it.lib.symlist_contains(it, container, x, node)
    elif isinstance(container, SymSet):
        return container.contains_fn(x)
    elif isinstance(container, ClassVal) and container.kind in ('enum', 'flag', 'intflag', 'intenum'):
        if isinstance(x, EnumVal):
            return x.cls is container
        raise Unsupported('value in EnumClass')
    elif isinstance(container, str) and isinstance(x, str):
        return x in container
    elif isinstance(container, (bytes,)) and isinstance(x, (bytes, int)):
        return x in container
    elif isinstance(container, range) and isinstance(x, int):
        return x in container
    elif isinstance(container, SOpt):
        raise Unsupported('in optional')
    else:
        raise Unsupported('in %s' % type(container).__name__)
    cs = []
    for v in items:
        e = values_equal(it, v, x, node)
        if e is True:
            return True
        if e is False:
            continue
        cs.append(e)
    return z3.Or(cs) if cs else False


def _hashkey(k):
    if isinstance(k, (int, str, bytes, bool, tuple, EnumVal)) or k is None:
        return k
    raise Unsupported('dict key %s' % type(k).__name__)


# ------------------------------------------------------------------------------ formatting
StrOfInt = z3.Function('str_of_int', z3.IntSort(), z3.IntSort())


def to_str(it, v, node=None):
    if isinstance(v, str):
        return v
    if isinstance(v, SStr):
        return v
    if isinstance(v, bool):
        return str(v)
    if isinstance(v, int):
        return str(v)
    if isinstance(v, float):
        return str(v)
    if isinstance(v, SInt):
        return SStr([('dec', v.t)])
    if isinstance(v, SBool):
        return SStr([('cond', v.t, SStr([('lit', 'True')]), SStr([('lit', 'False')]))])
    if v is None:
        return 'None'
    if isinstance(v, SOpt):
        return norm_str(SStr([('cond', v.present, to_sstr(to_str(it, v.val, node)), SStr([('lit', 'None')]))]))
    if isinstance(v, EnumVal):
        if v.cls.kind in ('intflag', 'intenum'):
            return str(v.value)
        return '%s.%s' % (v.cls.name, v.name)
    if isinstance(v, SEnum):
        if v.cls.kind in ('intflag', 'intenum'):
            return SStr([('dec', v.t)])
        return SStr([('lit', v.cls.name + '.'), ('ename', v.cls, v.t)])
    if isinstance(v, Obj):
        m = v.cls.lookup('__str__')
        if m is not MISSING:
            return it.call(m, [v], {}, node)
        return to_repr(it, v, node)
    if isinstance(v, bytes):
        return str(v)
    if isinstance(v, (SBytes, OBytes, tuple, PList, PDict)):
        return to_repr(it, v, node)
    if isinstance(v, OpaqueFloat):
        return SStr([('opaque', 'float', (v,))])
    if isinstance(v, OpaqueVal):
        return SStr([('opaque', 'str', (v,))])
    if isinstance(v, Builtin):
        import builtins as _b
        real = getattr(_b, v.name, None)
        if real is not None and not isinstance(real, type):
            return repr(real)               # '<built-in function hex>'
        if isinstance(real, type):
            return repr(real)               # "<class 'bool'>"
    raise Unsupported('str() of %s' % type(v).__name__)


class OpaqueVal:
    """value of a library object we do not model (datetime, UUID, ...): identified by constructor+args."""

    def __init__(self, kind, args):
        self.kind = kind
        self.args = args

    def __repr__(self):
        return 'OpaqueVal(%s)' % self.kind


class Instant(OpaqueVal):
    """exact UTC instant: microseconds since the epoch as a z3 Int (datetime.fromtimestamp(int, tz) and
    datetime +/- timedelta are exact integer arithmetic in CPython)"""

    def __init__(self, us, tz):
        OpaqueVal.__init__(self, 'datetime', ('instant', tz))
        self.us = us
        self.tz = tz


class Duration(OpaqueVal):
    def __init__(self, us):
        OpaqueVal.__init__(self, 'timedelta', ())
        self.us = us


def to_repr(it, v, node=None):
    if isinstance(v, (int, float, bool, str, bytes)) or v is None:
        return repr(v)
    if isinstance(v, SInt):
        return SStr([('dec', v.t)])
    if isinstance(v, (SStr,)):
        return SStr([('lit', "'")] + list(v.toks) + [('lit', "'")])   # quoting of non-escaped text
    if isinstance(v, EnumVal):
        return '<%s.%s: %r>' % (v.cls.name, v.name, v.value)
    if isinstance(v, SEnum):
        return SStr([('lit', '<' + v.cls.name + '.'), ('ename', v.cls, v.t), ('lit', ': '), ('dec', v.t), ('lit', '>')])
    if isinstance(v, (SBytes, OBytes)):
        return SStr([('opaque', 'repr_bytes', (v,))])
    if isinstance(v, tuple):
        return SStr([('opaque', 'repr', (v,))])
    if isinstance(v, PList):
        toks = [('lit', '[')]
        if v.is_concrete():
            first = True
            for x in v.values():
                if not first:
                    toks.append(('lit', ', '))
                first = False
                toks.extend(to_sstr(to_repr(it, x, node)).toks)
            toks.append(('lit', ']'))
            return norm_str(SStr(toks))
        return SStr([('lit', '['), ('join', ', ', [(g, to_sstr(to_repr(it, x, node))) for g, x in v.items]), ('lit', ']')])
    if isinstance(v, (PDict, Obj, SOpt, OpaqueVal, OpaqueFloat, SymList, SymMap)):
        return SStr([('opaque', 'repr', (v,))])
    raise Unsupported('repr() of %s' % type(v).__name__)


def percent_format(it, fmt, args, node=None):
    """'...%s...%d...' % args with a literal template: each conversion is the f-string field with the same presentation
    (%s / %r / %d / %i / %x / %X / %#x with optional '-' flag, '0' flag and width; %% is a percent sign)"""
    import re
    vals = list(args) if isinstance(args, tuple) else [args]
    out = ''
    pos = 0
    k = 0
    for m in re.finditer(r'%(?:\((\w+)\))?([-#0 +]*)(\d+)?(?:\.(\d+))?([sdrixX%])', fmt):
        out = str_concat(out, fmt[pos:m.start()])
        pos = m.end()
        key, flags, width, prec, conv = m.groups()
        if conv == '%':
            out = str_concat(out, '%')
            continue
        if key is not None or prec is not None or ' ' in flags or '+' in flags:
            raise Unsupported('%% formatting with %r' % m.group(0))
        if k >= len(vals):
            raise PyExc('TypeError', 'not enough arguments for format string', site=(getattr(node, 'lineno', None), 'type'), kind='type')
        v = vals[k]
        k += 1
        if conv in 'di':
            if isinstance(v, SOpt):
                it.raise_if(z3.Not(v.present), 'TypeError', 'none-format', node)
                v = v.val
            if not is_intlike(v):
                if isinstance(v, (str, SStr)) or v is None:
                    raise PyExc('TypeError', '%d format: a real number is required', site=(getattr(node, 'lineno', None), 'type'), kind='type')
                raise Unsupported('%%d of %s' % type(v).__name__)
            piece = to_str(it, v if not isinstance(v, (EnumVal, SEnum)) else enum_value(v), node)
            align = '<' if '-' in flags else '>'
        elif conv in 'xX':
            if not is_intlike(v):
                raise Unsupported('%%x of %s' % type(v).__name__)
            piece = format_value(it, v, ('#' if '#' in flags else '') + conv, node)
            align = '<' if '-' in flags else '>'
        elif conv == 'r':
            piece = to_repr(it, v, node)
            align = '<' if '-' in flags else '>'
        else:
            piece = to_str(it, v, node)
            align = '<' if '-' in flags else '>'
        if width:
            if '0' in flags and '-' not in flags and conv in 'dixX':
                raise Unsupported('zero padded %% conversion')
            w = int(width)
            piece = format(piece, align + str(w)) if isinstance(piece, str) else SStr([('pad', to_sstr(piece), w, align)])
        out = str_concat(out, piece)
    if k != len(vals):
        raise PyExc('TypeError', 'not all arguments converted during string formatting', site=(getattr(node, 'lineno', None), 'type'), kind='type')
    return str_concat(out, fmt[pos:])


def format_value(it, v, spec, node=None):
    if not spec:
        return to_str(it, v, node)
    # [[fill]align][0][width][type]
    import re
    m = re.fullmatch(r'([<>^])?(#)?(0)?(\d+)?([xXdsb])?', spec)
    if not m:
        raise Unsupported('format spec %r' % spec)
    align, alt, zero, width, typ = m.groups()
    width = int(width) if width else 0
    if alt and typ == 'x' and not width and not align:
        # '#x' renders like hex() for a non-negative int (recorded words are non-negative)
        if isinstance(v, int):
            return format(v, spec)
        if isinstance(v, SOpt):
            it.raise_if(z3.Not(v.present), 'TypeError', 'none-format', node)
            v = v.val
        if not is_intlike(v):
            raise Unsupported('hex format of %s' % type(v).__name__)
        return SStr([('hex', zi(v))])
    if alt:
        raise Unsupported('format spec %r' % spec)
    if typ in ('x', 'X'):
        if isinstance(v, int):
            return format(v, spec)
        if isinstance(v, SOpt):
            it.raise_if(z3.Not(v.present), 'TypeError', 'none-format', node)
            v = v.val
        if not is_intlike(v):
            raise Unsupported('hex format of %s' % type(v).__name__)
        if zero and width:
            return SStr([('hexpad', zi(v), width)])
        if width:
            return SStr([('pad', SStr([('hexraw', zi(v))]), width, align or '>')])
        return SStr([('hexraw', zi(v))])
    if isinstance(v, (int,)) and not isinstance(v, bool):
        return format(v, spec)
    if v is None or isinstance(v, SOpt):
        if isinstance(v, SOpt):
            it.raise_if(z3.Not(v.present), 'TypeError', 'none-format', node)
            return format_value(it, v.val, spec, node)
        raise PyExc('TypeError', 'unsupported format string passed to NoneType.__format__',
                    site=(getattr(node, 'lineno', None), 'none-format'), kind='none-format')
    if isinstance(v, (PList, PDict, tuple, Obj)) and not (isinstance(v, Obj) and v.cls.lookup('__format__') is not MISSING):
        raise PyExc('TypeError', 'unsupported format string passed to object.__format__',
                    site=(getattr(node, 'lineno', None), 'obj-format'), kind='obj-format')
    s = to_str(it, v, node)
    if is_intlike(v) and not align:
        align = '>'
    if isinstance(s, str):
        return format(s, (align or '<') + str(width)) if width else s
    return SStr([('pad', to_sstr(s), width, align or '<')])


# ------------------------------------------------------------------------------ attribute access
def getattr_(it, obj, name, node=None):
    from . import libattr
    return libattr.getattr_(it, obj, name, node)


def setattr_(it, obj, name, v, node=None):
    if isinstance(obj, Obj):
        obj.setattr(name, v)
        return
    if isinstance(obj, SOpt):
        it.raise_if(z3.Not(obj.present), 'AttributeError', 'none-attr', node)
        return setattr_(it, obj.val, name, v, node)
    if obj is None:
        raise PyExc('AttributeError', "'NoneType' object has no attribute %r" % name,
                    site=(getattr(node, 'lineno', None), 'none-attr'), kind='none-attr')
    if isinstance(obj, FuncVal) and name in ('__name__', '__qualname__', '__doc__', '__module__'):
        obj.__dict__.setdefault('meta', {})[name] = v       # naming metadata of a function object: no effect on what it computes
        return
    raise Unsupported('setattr on %s' % type(obj).__name__)


def getitem(it, obj, key, node=None):
    from . import libattr
    return libattr.getitem(it, obj, key, node)


def getslice(it, obj, lo, hi, st, node=None):
    from . import libattr
    return libattr.getslice(it, obj, lo, hi, st, node)


def setitem(it, obj, key, v, node=None):
    from . import libattr
    return libattr.setitem(it, obj, key, v, node)


def delitem(it, obj, key, node=None):
    if isinstance(obj, PDict):
        ent = obj.get_entry(_hashkey(key))
        it.raise_if(True if ent is MISSING else z3.Not(_zt(ent[0])), 'KeyError', 'dict-key', node)
        obj.del_entry(_hashkey(key))
        return
    raise Unsupported('del item on %s' % type(obj).__name__)
