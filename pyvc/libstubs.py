"""Stub modules: assumed contracts of stdlib / third-party modules the repository imports.

Host modules (errno, signal, socket) are *uninterpreted host tables*: everything read from them is
a host symbol, so a result that mentions one cannot be proved host-independent (C18)."""
import ast
import struct as _struct
import z3

from .values import *  # noqa
from .libops import _zt, OpaqueVal, OpaqueFloat, to_str, is_intlike as libops_is_intlike
from . import libattr
from .libclasses import Factory, make_namedtuple

I = z3.IntSort()
B = z3.BoolSort()

HOST_PREFIX = 'host.'
HostEnumDom = {}
HostEnumName = {}


class TypingAlias:
    def __init__(self, name):
        self.name = name


class Decorator:
    """identity decorator / decorator factory for modules we do not model (click)."""

    def __init__(self, name):
        self.name = name


def _builtin(name):
    def deco(fn):
        return Builtin(name, fn)
    return deco


def stub_module(it, name):
    m = ModuleVal(name, kind='stub')
    fn = globals().get('_mod_' + name.replace('.', '_'))
    if fn is None:
        m.ns['$opaque'] = True
        return m
    fn(it, m)
    return m


def module_getattr(it, mod, name, node):
    if mod.ns.get('$opaque'):
        return Decorator(mod.name + '.' + name)
    raise Unsupported('attribute %s of module %s' % (name, mod.name))


def special_attr(it, obj, name, node):
    if isinstance(obj, Decorator):
        return Decorator(obj.name + '.' + name)
    if isinstance(obj, TypingAlias):
        return TypingAlias(obj.name + '.' + name)
    if isinstance(obj, OpaqueFloat):
        raise Unsupported('attribute of float')
    return MISSING


def special_getitem(it, obj, key, node):
    if isinstance(obj, TypingAlias):
        return obj
    return MISSING


def special_setitem(it, obj, key, v, node):
    return False


# ------------------------------------------------------------------------------ typing / dataclasses / functools
def _mod_typing(it, m):
    for n in ('List', 'Dict', 'Any', 'Mapping', 'Optional', 'Tuple', 'Union', 'Iterable', 'Generator', 'Callable', 'Iterator', 'Sequence',
              'Set', 'FrozenSet', 'Type', 'BinaryIO', 'IO', 'ClassVar', 'Final', 'Literal'):
        m.ns[n] = TypingAlias(n)
    m.ns['NamedTuple'] = ClassVal('NamedTuple', m, 'namedtuple-base')


def _mod_dataclasses(it, m):
    m.ns['dataclass'] = Decorator('dataclass')

    @_builtin('field')
    def field(it, args, kw, n):
        if 'default_factory' in kw:
            return Factory(kw['default_factory'])
        if 'default' in kw:
            return kw['default']
        return MISSING
    m.ns['field'] = field


def _mod_functools(it, m):
    @_builtin('partial')
    def partial(it, args, kw, n):
        return PartialVal(args[0], args[1:], kw)
    m.ns['partial'] = partial
    m.ns['lru_cache'] = Decorator('lru_cache')


def _mod_collections(it, m):
    @_builtin('namedtuple')
    def namedtuple(it, args, kw, n):
        name, fields = args[0], args[1]
        if isinstance(fields, str):
            fields = fields.replace(',', ' ').split()
        else:
            fields = it.iterate(fields, n)
        return make_namedtuple(name, fields)
    m.ns['namedtuple'] = namedtuple

    @_builtin('deque')
    def deque(it, args, kw, n):
        # deque(iterable, maxlen=k): the iterable is consumed to its end, the last k items are kept
        maxlen = kw.get('maxlen', args[1] if len(args) > 1 else None)
        lst = it.builtins['list'].impl(it, list(args[:1]), {}, n)
        if maxlen is None:
            return lst
        if isinstance(maxlen, int) and maxlen == 0:
            return PList()
        raise Unsupported('deque with a positive maxlen')
    m.ns['deque'] = deque


def _mod_enum(it, m):
    for n, k in (('Enum', 'enum'), ('Flag', 'flag'), ('IntFlag', 'intflag'), ('IntEnum', 'intenum')):
        m.ns[n] = ClassVal(n, m, k)
    m.ns['auto'] = Decorator('auto')


def _mod_pathlib(it, m):
    m.ns['Path'] = Decorator('Path')


def _mod_io(it, m):
    m.ns['IOBase'] = ClassVal('IOBase', m, 'plain')
    m.ns['BytesIO'] = ClassVal('BytesIO', m, 'plain')
    m.ns['SEEK_SET'], m.ns['SEEK_CUR'], m.ns['SEEK_END'] = 0, 1, 2


def _mod_json(it, m):
    m.ns['$opaque'] = True


# ------------------------------------------------------------------------------ struct
def _fmt_fields(fmt):
    if not fmt or fmt[0] not in '<>=!@':
        raise Unsupported('struct format without byte order')
    order = fmt[0]
    import re
    out = []
    for cnt, c in re.findall(r'(\d*)([a-zA-Z?])', fmt[1:]):
        cnt = int(cnt) if cnt else 1
        if c == 's':
            out.append(('s', cnt))
        elif c == 'x':
            out.append(('x', cnt))
        else:
            size = _struct.calcsize('<' + c)
            for _ in range(cnt):
                out.append((c, size))
    return order, out


UnpackLE = z3.Function('unpack_le', I, I, I, I)   # (bytes id, offset, size) -> int


def _mod_struct(it, m):
    m.ns['error'] = ClassVal('struct.error', m, 'exception')

    @_builtin('calcsize')
    def calcsize(it, args, kw, n):
        if not isinstance(args[0], str):
            raise Unsupported('symbolic struct format')
        try:
            return _struct.calcsize(args[0])
        except _struct.error:
            raise PyExc('struct.error', 'bad format', site=(getattr(n, 'lineno', None), 'struct'), kind='struct')

    @_builtin('unpack')
    def unpack(it, args, kw, n):
        fmt, buf = args
        if not isinstance(fmt, str):
            raise Unsupported('symbolic struct format')
        try:
            size = _struct.calcsize(fmt)
        except _struct.error:
            raise PyExc('struct.error', 'bad format', site=(getattr(n, 'lineno', None), 'struct'), kind='struct')
        order, fields = _fmt_fields(fmt)
        if order not in '<>':
            raise Unsupported('native struct alignment')
        if type(buf).__name__ == 'BuiltInt':
            # the bytes of IntNul.build(v): byte i is (v div 256^i) mod 256
            from .construct_parse import BuiltFile
            bf = BuiltFile(buf.v, buf.size, it)
            buf = SBytes([mk_int(bf.byte(i)) for i in range(buf.size)])
        if isinstance(buf, (bytes, SBytes)):
            elems = list(buf) if isinstance(buf, bytes) else list(buf.elems)
            if len(elems) != size:
                raise PyExc('struct.error', 'unpack requires a buffer of %d bytes' % size,
                            site=(getattr(n, 'lineno', None), 'struct-size'), kind='struct-size')
            out = []
            off = 0
            for c, sz in fields:
                chunk = elems[off:off + sz]
                off += sz
                if c == 'x':
                    continue
                if c == 's':
                    out.append(bytes(chunk) if all(isinstance(x, int) for x in chunk) else SBytes(chunk))
                    continue
                if order == '>':
                    chunk = list(reversed(chunk))
                if all(isinstance(x, int) for x in chunk):
                    v = sum(x << (8 * i) for i, x in enumerate(chunk))
                    if c.islower() and c not in ('c',) and v >= 1 << (8 * sz - 1):
                        v -= 1 << (8 * sz)
                    out.append(v)
                else:
                    t = z3.Sum([zi(x) * (1 << (8 * i)) for i, x in enumerate(chunk)])
                    if c.islower():
                        t = z3.If(t >= (1 << (8 * sz - 1)), t - (1 << (8 * sz)), t)
                    out.append(mk_int(t))
            return tuple(out)
        if isinstance(buf, OBytes):
            it.raise_if(libattr.BLen(buf.t) != size, 'struct.error', 'struct-size', n)
            out = []
            off = 0
            for c, sz in fields:
                if c == 's':
                    out.append(OBytes(libattr.BSlice(buf.t, z3.IntVal(off), z3.IntVal(off + sz))))
                elif c != 'x':
                    if order != '<' or c.islower():
                        raise Unsupported('opaque unpack of %s%s' % (order, c))
                    v = UnpackLE(buf.t, z3.IntVal(off), z3.IntVal(sz))
                    it.ctx.assume(z3.And(v >= 0, v < (1 << (8 * sz))))
                    out.append(mk_int(v))
                off += sz
            return tuple(out)
        if buf is None or isinstance(buf, (int, str, SInt, SStr, PList, PDict, tuple)):
            raise PyExc('TypeError', 'a bytes-like object is required', site=(getattr(n, 'lineno', None), 'type'), kind='type')
        raise Unsupported('struct.unpack of %s' % type(buf).__name__)
    m.ns['calcsize'] = calcsize
    m.ns['unpack'] = unpack

    @_builtin('pack')
    def pack(it, args, kw, n):
        fmt = args[0]
        if not isinstance(fmt, str):
            raise Unsupported('symbolic struct format')
        vals = list(args[1:])
        if all(isinstance(v, (int, bytes)) and not isinstance(v, bool) for v in vals):
            try:
                return _struct.pack(fmt, *vals)
            except _struct.error:
                raise PyExc('struct.error', 'pack', site=(getattr(n, 'lineno', None), 'struct'), kind='struct')
        order, fields = _fmt_fields(fmt)
        if order not in '<>':
            raise Unsupported('native struct alignment')
        out = []
        k = 0
        for c, sz in fields:
            if c == 'x':
                out += [0] * sz
                continue
            if k >= len(vals):
                raise PyExc('struct.error', 'pack expected more items', site=(getattr(n, 'lineno', None), 'struct'), kind='struct')
            v = vals[k]
            k += 1
            if c == 's':
                if isinstance(v, bytes):
                    out += list(v[:sz].ljust(sz, b'\0'))
                    continue
                raise Unsupported('struct.pack of symbolic bytes')
            try:
                b = libattr.int_to_bytes(it, v, [sz, 'little' if order == '<' else 'big'], {'signed': c.islower()}, n)
            except PyExc:
                raise PyExc('struct.error', 'argument out of range', site=(getattr(n, 'lineno', None), 'struct'), kind='struct')
            out += list(b) if isinstance(b, bytes) else list(b.elems)
        if k != len(vals):
            raise PyExc('struct.error', 'pack expected fewer items', site=(getattr(n, 'lineno', None), 'struct'), kind='struct')
        return bytes(out) if all(isinstance(x, int) for x in out) else SBytes(out)
    m.ns['pack'] = pack

    class StructVal:
        """struct.Struct(fmt): the compiled form of a format; unpack / unpack_from / size / format delegate to the module functions"""

        def __init__(self, fmt):
            self.fmt = fmt
            self.size = _struct.calcsize(fmt)

        def py_getattr(self, it_, name, node=None):
            if name == 'size':
                return self.size
            if name == 'format':
                return self.fmt
            if name == 'unpack':
                return Builtin('Struct.unpack', lambda it2, a, k, n: unpack.impl(it2, [self.fmt, a[0]], {}, n))
            if name == 'unpack_from':
                def unpack_from(it2, a, k, n):
                    buf = a[0]
                    off = a[1] if len(a) > 1 else k.get('offset', 0)
                    if not isinstance(off, int):
                        raise Unsupported('unpack_from with a symbolic offset')
                    part = libattr.getslice(it2, buf, off, off + self.size, None, n)
                    return unpack.impl(it2, [self.fmt, part], {}, n)
                return Builtin('Struct.unpack_from', unpack_from)
            if name == 'pack':
                return Builtin('Struct.pack', lambda it2, a, k, n: pack.impl(it2, [self.fmt] + list(a), {}, n))
            raise Unsupported('attribute %s of struct.Struct' % name)

    @_builtin('Struct')
    def Struct(it, args, kw, n):
        if not isinstance(args[0], str):
            raise Unsupported('symbolic struct format')
        try:
            return StructVal(args[0])
        except _struct.error:
            raise PyExc('struct.error', 'bad format', site=(getattr(n, 'lineno', None), 'struct'), kind='struct')
    m.ns['Struct'] = Struct


# ------------------------------------------------------------------------------ ctypes
def _mod_ctypes(it, m):
    def mk(name, bits, signed):
        @_builtin(name)
        def ctor(it, args, kw, n):
            v = args[0] if args else 0
            if isinstance(v, SOpt):
                it.raise_if(z3.Not(v.present), 'TypeError', 'none-ctypes', n)
                v = v.val
            if not is_intlike(v):
                raise PyExc('TypeError', 'an integer is required', site=(getattr(n, 'lineno', None), 'type'), kind='type')
            mod = 1 << bits
            if isinstance(v, int):
                r = v % mod
                if signed and r >= mod >> 1:
                    r -= mod
            else:
                t = zi(v) % mod
                if signed:
                    t = z3.If(t >= (mod >> 1), t - mod, t)
                r = mk_int(t)
            cls = ClassVal(name, None, 'plain')
            return Obj(cls, {'value': r})
        return ctor
    for name, bits, signed in (('c_int64', 64, True), ('c_int32', 32, True), ('c_uint64', 64, False),
                               ('c_uint32', 32, False), ('c_int16', 16, True), ('c_uint16', 16, False),
                               ('c_int8', 8, True), ('c_uint8', 8, False), ('c_int', 32, True), ('c_uint', 32, False),
                               ('c_longlong', 64, True),
                               ('c_ulonglong', 64, False), ('c_short', 16, True), ('c_ushort', 16, False)):
        m.ns[name] = mk(name, bits, signed)

    def mk_long(name, signed):
        # C long: 64 bits on LP64 hosts, 32 on LLP64 ones - a host symbol
        w64, w32 = mk(name, 64, signed), mk(name, 32, signed)

        @_builtin(name)
        def ctor(it, args, kw, n):
            a, b = w64.impl(it, args, kw, n), w32.impl(it, args, kw, n)
            va, vb = a.fields['value'], b.fields['value']
            if isinstance(va, int) and isinstance(vb, int) and va == vb:
                return a
            a.fields['value'] = mk_int(z3.If(z3.Bool(HOST_PREFIX + 'ctypes.long_is_64_bits'), zi(va), zi(vb)))
            return a
        return ctor
    m.ns['c_long'] = mk_long('c_long', True)
    m.ns['c_ulong'] = mk_long('c_ulong', False)


# ------------------------------------------------------------------------------ host modules
def host_table(name, vkind):
    t = libattr.new_symmap(HOST_PREFIX + name, vkind, origin='host:' + name)
    t.reads = []
    return t


def _mod_errno(it, m):
    m.ns['errorcode'] = host_table('errno.errorcode', 'atom')
    m.ns['$host'] = True


def _host_enum(name):
    c = ClassVal(name, None, 'host-enum')
    HostEnumDom[name] = z3.Function(HOST_PREFIX + name + '.dom', I, B)
    return c


def host_enum_lookup(it, cls, v, node):
    if isinstance(v, (EnumVal, SEnum)) and v.cls is cls:
        return v
    if isinstance(v, SOpt):
        it.raise_if(z3.Not(v.present), 'ValueError', 'enum-value:' + cls.name, node)
        v = v.val
    if not is_intlike(v):
        raise PyExc('ValueError', 'not a valid %s' % cls.name, site=(getattr(node, 'lineno', None), 'enum-value'),
                    kind='enum-value:' + cls.name)
    t = zi(v)
    it.raise_if(z3.Not(HostEnumDom[cls.name](t)), 'ValueError', 'enum-value:' + cls.name, node)
    return SEnum(cls, t)


def host_enum_attr(it, cls, name, node):
    # a named member of a host enum: its value is a host constant
    return SEnum(cls, z3.Int(HOST_PREFIX + cls.name + '.' + name))


def _mod_signal(it, m):
    m.ns['Signals'] = _host_enum('Signals')
    m.ns['$host'] = True


def _mod_socket(it, m):
    m.ns['AddressFamily'] = _host_enum('AddressFamily')
    m.ns['SocketKind'] = _host_enum('SocketKind')
    m.ns['$host'] = True
    m.ns['$hostconsts'] = True


def module_getattr(it, mod, name, node):  # noqa: F811  (extends the earlier definition)
    if mod.ns.get('$opaque'):
        return Decorator(mod.name + '.' + name)
    if mod.ns.get('$hostconsts') or mod.ns.get('$host'):
        # any other constant of a host module is a host symbol
        c = z3.Int(HOST_PREFIX + mod.name + '.' + name)
        return SInt(c)
    raise Unsupported('attribute %s of module %s' % (name, mod.name))


# ------------------------------------------------------------------------------ uuid / plistlib / datetime / itertools / bisect
UuidOf = z3.Function('uuid_of_bytes', I, I)


def _mod_uuid(it, m):
    @_builtin('UUID')
    def UUID(it, args, kw, n):
        b = kw.get('bytes')
        if b is None:
            raise Unsupported('UUID() form')
        if isinstance(b, bytes):
            if len(b) != 16:
                raise PyExc('ValueError', 'bytes is not a 16-char string', site=(getattr(n, 'lineno', None), 'uuid'), kind='uuid')
            import uuid
            return OpaqueVal('UUID', ('lit', str(uuid.UUID(bytes=b))))
        if isinstance(b, SBytes):
            if len(b) != 16:
                raise PyExc('ValueError', 'bytes is not a 16-char string', site=(getattr(n, 'lineno', None), 'uuid'), kind='uuid')
            t = libattr.sbytes_id(it, b)
        else:
            t = libattr.obytes_of(b)
            it.raise_if(libattr.BLen(t) != 16, 'ValueError', 'uuid-len', n)
        return OpaqueVal('UUID', ('term', UuidOf(t), b))
    m.ns['UUID'] = UUID


def opaque_attr(it, obj, name, node):
    from .libops import Instant
    if isinstance(obj, Instant) and name == 'replace':
        def replace(it_, a, k, n):
            if a or list(k) != ['microsecond'] or not libops_is_intlike(k['microsecond']):
                raise Unsupported('datetime.replace(%s)' % ','.join(k))
            us = zi(k["microsecond"])
            it_.raise_if(z3.Or(us < 0, us > 999999), 'ValueError', 'microsecond-range', n)
            return Instant(z3.simplify(obj.us - obj.us % 1000000 + us), obj.tz)
        return Builtin('datetime.replace', replace)
    if obj.kind == 'datetime' and name == 'strftime':
        return Builtin('strftime', lambda it_, a, k, n: SStr([('opaque', 'strftime', (obj, a[0]))]))
    if obj.kind.startswith('plist'):
        if name == 'items':
            return Builtin('items', lambda it_, a, k, n: OpaqueVal('plist.items', (obj,)))
        if name == 'get':
            return Builtin('get', lambda it_, a, k, n: OpaqueVal('plist.get', (obj,) + tuple(a)))
    raise Unsupported('attribute %s of opaque %s' % (name, obj.kind))


def opaque_getitem(it, obj, key, node):
    if obj.kind.startswith('plist'):
        return OpaqueVal('plist.item', (obj, key))
    raise Unsupported('subscript of opaque %s' % obj.kind)


def _mod_plistlib(it, m):
    m.ns['loads'] = Builtin('plistlib.loads', lambda it_, a, k, n: OpaqueVal('plist', (a[0],)))
    m.ns['dumps'] = Builtin('plistlib.dumps', lambda it_, a, k, n: OpaqueVal('plist.dumps', (a[0],)))


def _mod_datetime(it, m):
    dt = ClassVal('datetime', m, 'stub-holder')
    from .libops import Instant, Duration, is_intlike

    def fromtimestamp(it_, a, k, n):
        ts = a[0]
        tz = k.get('tz', a[1] if len(a) > 1 else None)
        if is_intlike(ts) and not isinstance(ts, bool):
            # exact for an int (assumed within datetime's range: years 1..9999)
            return Instant(zi(ts) * 1000000, tz)
        return OpaqueVal('datetime', (ts, tz))
    dt.attrs['fromtimestamp'] = Builtin('datetime.fromtimestamp', fromtimestamp)
    m.ns['datetime'] = dt
    UNITS = {'microseconds': 1, 'milliseconds': 1000, 'seconds': 10 ** 6, 'minutes': 60 * 10 ** 6, 'hours': 3600 * 10 ** 6,
             'days': 86400 * 10 ** 6, 'weeks': 7 * 86400 * 10 ** 6}

    def timedelta(it_, a, k, n):
        order = ['days', 'seconds', 'microseconds', 'milliseconds', 'minutes', 'hours', 'weeks']
        kw = dict(k)
        for i, v in enumerate(a):
            kw[order[i]] = v
        total = z3.IntVal(0)
        for name, v in kw.items():
            if name not in UNITS or not is_intlike(v):
                raise Unsupported('timedelta(%s=%s)' % (name, type(v).__name__))
            total = total + zi(v) * UNITS[name]
        return Duration(z3.simplify(total))
    m.ns['timedelta'] = Builtin('datetime.timedelta', timedelta)
    tz = ClassVal('timezone', m, 'stub-holder')
    tz.attrs['utc'] = OpaqueVal('tz', ('utc',))
    m.ns['timezone'] = tz


def _mod_itertools(it, m):
    ch = ClassVal('chain', m, 'stub-holder')

    def from_iterable(it_, a, k, n):
        src = a[0]
        if isinstance(src, PList) and src.is_concrete():
            out = []
            for x in src.values():
                out.extend(it.iterate(x, n))
            return PList(out)
        if isinstance(src, SymList):
            return flatten_symlist(it, src)
        raise Unsupported('chain.from_iterable over %s' % type(src).__name__)
    ch.attrs['from_iterable'] = Builtin('chain.from_iterable', from_iterable)
    m.ns['chain'] = ch


def flatten_symlist(it, src):
    tag = it.ctx.fresh('flat')
    length = z3.Int(tag + '.len')
    it.ctx.assume(length >= 0)
    elems = z3.Function(tag + '.elem', I, I)
    return SymList(tag, length, lambda j: mk_int(elems(j)), origin=('flatten', src))


def _mod_bisect(it, m):
    def bisect(it_, a, k, n):
        from . import heap
        return heap.bisect_right(it, a[0], a[1], n)
    m.ns['bisect'] = Builtin('bisect', bisect)
    m.ns['bisect_right'] = Builtin('bisect_right', bisect)

    def bisect_left(it_, a, k, n):
        from . import heap
        return heap.bisect_left(it, a[0], a[1], n)
    m.ns['bisect_left'] = Builtin('bisect_left', bisect_left)


def _mod_construct(it, m):
    from . import construct_sem
    construct_sem.install(it, m)


def _mod_click(it, m):
    m.ns['$opaque'] = True


def _mod_pygments(it, m):
    m.ns['$opaque'] = True


def _mod_termcolor(it, m):
    m.ns['$opaque'] = True


def _mod_operator(it, m):
    @_builtin('attrgetter')
    def attrgetter(it, args, kw, n):
        names = list(args)
        if not names or not all(isinstance(a, str) for a in names):
            raise Unsupported('attrgetter of a symbolic name')

        def one(it2, obj, nm, node):
            for part in nm.split('.'):
                obj = libattr.getattr_(it2, obj, part, node)
            return obj

        def get(it2, a, k, node):
            if len(names) == 1:
                return one(it2, a[0], names[0], node)
            return tuple(one(it2, a[0], nm, node) for nm in names)
        return Builtin('attrgetter(%s)' % ','.join(names), get)

    @_builtin('itemgetter')
    def itemgetter(it, args, kw, n):
        keys = list(args)

        def get(it2, a, k, node):
            if len(keys) == 1:
                return libattr.getitem(it2, a[0], keys[0], node)
            return tuple(libattr.getitem(it2, a[0], kk, node) for kk in keys)
        return Builtin('itemgetter', get)
    m.ns['attrgetter'] = attrgetter
    m.ns['itemgetter'] = itemgetter


def _mod_sys(it, m):
    # what the interpreter reports about the machine it runs on: host symbols (C18)
    m.ns['$opaque'] = True
    for nm in ('byteorder', 'platform', 'maxsize'):
        m.ns[nm] = atom_str(z3.Int(HOST_PREFIX + 'sys.' + nm)) if nm != 'maxsize' else SInt(z3.Int(HOST_PREFIX + 'sys.maxsize'))


def _mod_os(it, m):
    m.ns['$opaque'] = True
    for nm in ('name', 'sep', 'linesep'):
        m.ns[nm] = atom_str(z3.Int(HOST_PREFIX + 'os.' + nm))


def _mod_platform(it, m):
    def host_fn(nm):
        return Builtin('platform.' + nm, lambda it_, a, kw, n: atom_str(z3.Int(HOST_PREFIX + 'platform.' + nm)))
    for nm in ('system', 'machine', 'release', 'platform', 'processor'):
        m.ns[nm] = host_fn(nm)


# ------------------------------------------------------------------------------ symbolic helpers
def symbolic_range(it, args, n):
    raise Unsupported('range with symbolic bounds (loop needs an invariant)')


def symbolic_sorted(it, v, kw, n):
    if isinstance(v, SymList):
        tag = it.ctx.fresh('sorted')
        perm = z3.Function(tag + '.perm', I, I)

        def elem(j):
            i = perm(j)
            it.ctx.assume(z3.And(i >= 0, i < v.length))
            return v.elem(i)
        return SymList(tag, v.length, elem, origin=('sorted', v, kw.get('key'), kw.get('reverse', False), perm))
    if isinstance(v, PList):
        # sort of a concrete-length list with symbolic keys: opaque permutation is not needed by
        # the verified code; refuse rather than guess
        raise Unsupported('sorted() of list with symbolic keys')
    raise Unsupported('sorted() of %s' % type(v).__name__)


def symbolic_any(it, v, n):
    raise Unsupported('any() over symbolic list')


def symbolic_all(it, v, n):
    raise Unsupported('all() over symbolic list')


def int_of_str(it, s, rest, n):
    raise Unsupported('int() of symbolic string')
