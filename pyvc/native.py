"""Child-interpreter side (runs under /venv/bin/python with the repository's dependencies):
replays counterexamples on the real code, evaluates contract clauses natively with the Python
definitions of the spec functions, samples assumed contracts, cross-checks the engine.

stdin: one JSON request  -> stdout: one JSON line.   `--replay file` re-runs a stored replay."""
import importlib
import json
import os
import sys
import traceback

VERIF = os.path.dirname(os.path.dirname(os.path.abspath(__file__)))
REPO = os.environ.get('PYVC_REPO', '/repo')
for p in (VERIF, REPO):
    if p not in sys.path:
        sys.path.insert(0, p)


def dec(x):
    if isinstance(x, dict):
        if '$b' in x:
            return bytes.fromhex(x['$b'])
        if '$t' in x:
            return tuple(dec(v) for v in x['$t'])
        if '$d' in x:
            return {dec(k): dec(v) for k, v in x['$d']}
        return {k: dec(v) for k, v in x.items()}
    if isinstance(x, list):
        return [dec(v) for v in x]
    return x


def enc(x):
    if isinstance(x, bytes):
        return {'$b': x.hex()}
    if isinstance(x, tuple):
        if hasattr(x, '_fields'):
            return {'$nt': type(x).__name__, 'fields': {f: enc(getattr(x, f)) for f in x._fields}}
        return {'$t': [enc(v) for v in x]}
    if isinstance(x, list):
        return [enc(v) for v in x]
    if isinstance(x, dict):
        return {'$d': [[enc(k), enc(v)] for k, v in x.items()]}
    if isinstance(x, (int, str, bool, float)) or x is None:
        return x
    return {'$repr': repr(x)}


def spec_env(names):
    env = {}
    for n in names or []:
        m = importlib.import_module(n)
        env.update({k: v for k, v in vars(m).items() if not k.startswith('_')})
    return env


def resolve(module, func):
    m = importlib.import_module(module)
    o = m
    for part in func.split('.'):
        o = getattr(o, part)
    return o


def do_call(req):
    f = resolve(req['module'], req['func'])
    args = [dec(a) for a in req.get('args', [])]
    env = spec_env(req.get('spec'))
    out = {'kind': 'call'}
    try:
        result = f(*args)
        out['result'] = enc(result)
        out['raised'] = None
    except BaseException as e:  # noqa
        result = None
        out['raised'] = type(e).__name__ + ': ' + str(e)
    if req.get('clause') is not None:
        env.update(dict(zip(req.get('names', []), args)))
        env['result'] = result
        env['raised'] = out['raised']
        try:
            out['clause_holds'] = bool(eval(req['clause'], env)) if out['raised'] is None else False
        except BaseException as e:  # noqa
            out['clause_holds'] = False
            out['clause_error'] = type(e).__name__ + ': ' + str(e)
    return out


def do_call2(req):
    """relational clause over two calls: names a, b; results ra, rb"""
    f = resolve(req['module'], req['func'])
    a = [dec(x) for x in req['args_a']]
    b = [dec(x) for x in req['args_b']]
    env = spec_env(req.get('spec'))
    out = {'kind': 'call2'}
    try:
        ra = f(*a)
        rb = f(*b)
        env.update({'a': a[0], 'b': b[0], 'ra': ra, 'rb': rb})
        out['ra'] = enc(ra)
        out['rb'] = enc(rb)
        out['clause_holds'] = bool(eval(req['clause'], env))
        out['raised'] = None
    except BaseException as e:  # noqa
        out['raised'] = type(e).__name__ + ': ' + str(e)
        out['clause_holds'] = False
    return out


HANDLERS = {'call': do_call, 'call2': do_call2}


def handle(req):
    out = _handle(req)
    # search requests report {'found': case-or-None}: give them the uniform 'violates' / 'what' keys as well
    if isinstance(out, dict) and 'found' in out and 'violates' not in out:
        f = out.get('found')
        out['violates'] = bool(f)
        if isinstance(f, dict):
            out.setdefault('what', f.get('what', ''))
    return out


def _handle(req):
    k = req.get('kind')
    if k in HANDLERS:
        return HANDLERS[k](req)
    # extension modules register further kinds
    for modname in ('pyvc.native_decoders', 'pyvc.native_stream', 'pyvc.native_misc', 'pyvc.native_history'):
        try:
            m = importlib.import_module(modname)
        except ImportError:
            continue
        if k in getattr(m, 'HANDLERS', {}):
            return m.HANDLERS[k](req)
    return {'error': 'unknown request kind %r' % k}


def main():
    if len(sys.argv) >= 3 and sys.argv[1] == '--replay':
        rec = json.load(open(sys.argv[2]))
        req = rec.get('request')
        if not req:
            print('replay file carries no executable request (obligation %s): %s' % (
                rec.get('obligation'), rec.get('solver_output', '')[:2000]))
            sys.exit(1)
        out = handle(req)
        print(json.dumps(out, indent=1, default=str))
        bad = (out.get('clause_holds') is False) or out.get('violates')
        print('REPRODUCED' if bad else 'NOT REPRODUCED')
        sys.exit(1 if bad else 0)
    req = json.load(sys.stdin)
    try:
        out = handle(req)
    except BaseException:  # noqa
        out = {'error': traceback.format_exc()[-3000:]}
    sys.stdout.write('\n' + json.dumps(out, default=str) + '\n')


if __name__ == '__main__':
    main()
