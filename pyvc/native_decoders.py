"""Child side: run one registered decoder of the real code on a concrete window / parser state."""
import struct
import sys


def _codes():
    from pykdebugparser.trace_codes import default_trace_codes
    return default_trace_codes()


def build_events(req, codes):
    from pykdebugparser.kevent import from_kd_buf
    inv = {v: k for k, v in codes.items()}
    evs = []
    for e in req['events']:
        eid = e.get('eventid', 0)
        if e.get('code_name') is not None and e['code_name'] in inv:
            eid = inv[e['code_name']]
        vals = [v & 0xffffffffffffffff for v in e.get('values', [0, 0, 0, 0])]
        data = bytes.fromhex(e['data']) if e.get('data') else struct.pack('<QQQQ', *vals)
        buf = struct.pack('<Q32sQIIQ', e.get('timestamp', 0) & 0xffffffffffffffff, data, req.get('tid', 1) if e.get('tid') is None else e['tid'],
                          (eid & 0xfffffffc) | (e.get('qual', 0) & 3), 0, 0)
        evs.append(from_kd_buf(buf))
    return evs


def make_parser(req, codes):
    from pykdebugparser.traces_parser import TracesParser
    p = TracesParser(codes, {}, {})
    st = req.get('parser', {})
    for tbl in ('threads_pids', 'pids_names', 'tids_names', 'global_strings'):
        for k, v in st.get(tbl, []):
            getattr(p, tbl)[k] = v
    from pykdebugparser.trace_handlers import trace as tr
    for k, d in st.get('last_data_newthread_table', []):
        p.last_data_newthread[k] = tr.TraceDataNewthread([], d['tid'], d['pid'], 0, 0)
    for k, d in st.get('last_data_exec_table', []):
        p.last_data_exec[k] = tr.TraceDataExec([], d['pid'], 0, 0)
    if st.get('last_data_newthread') is not None:
        d = st['last_data_newthread']
        p.last_data_newthread = tr.TraceDataNewthread([], d['tid'], d['pid'], d.get('is_exec_copy', 0), d.get('uniqueid', 0))
    if st.get('last_data_exec') is not None:
        d = st['last_data_exec']
        p.last_data_exec = tr.TraceDataExec([], d['pid'], d.get('fsid', 0), d.get('fileid', 0))
    return p


def run_decoder(req):
    """returns dict(text, raised, fields) of handlers[name](parser, events) + str()."""
    if req.get('host'):
        patch_host(req['host'])      # before the package is imported: names bound by `from x import y` see it
    codes = dict(_codes())
    for k, v in req.get('extra_codes', []):
        codes[k] = v
    evs = build_events(req, codes)
    p = make_parser(req, codes)
    out = {'raised': None, 'text': None, 'phase': 'decode'}
    try:
        h = p.handlers[req['name']]
        r = h(p, evs)
        out['phase'] = 'render'
        out['text'] = str(r)
        out['result_type'] = type(r).__name__
        try:
            out['fields'] = {k: repr(v)[:200] for k, v in vars(r).items() if k != 'ktraces'}
        except TypeError:
            pass
        out['tables'] = {t: sorted((k, v) for k, v in getattr(p, t).items()) for t in ('threads_pids', 'pids_names', 'tids_names', 'global_strings')}
    except BaseException as e:  # noqa
        import traceback
        tb = traceback.extract_tb(sys.exc_info()[2])
        out['raised'] = '%s: %s' % (type(e).__name__, e)
        out['raised_at'] = ['%s:%d' % (f.filename.split('/')[-1], f.lineno) for f in tb][-3:]
    return out


_ORIG = {}


def patch_host(host):
    """swap the host's errno/signal/socket tables for another platform's (C18 replays)."""
    import errno
    import enum
    import socket
    import signal
    bsd = sys.modules.get('pykdebugparser.trace_handlers.bsd')
    if 'errorcode' not in _ORIG:
        _ORIG['errorcode'] = dict(errno.errorcode)
    if 'errorcode' in host:
        errno.errorcode.clear()
        errno.errorcode.update({int(k): v for k, v in host['errorcode'].items()})
    if 'Signals' in host:
        signal.Signals = enum.IntEnum('Signals', {v: int(k) for k, v in host['Signals'].items()})
        if bsd is not None and getattr(getattr(bsd, 'Signals', None), '__module__', '') == 'signal':
            bsd.Signals = signal.Signals
    if 'AddressFamily' in host:
        socket.AddressFamily = enum.IntEnum('AddressFamily', {v: int(k) for k, v in host['AddressFamily'].items()})
    if 'SocketKind' in host:
        socket.SocketKind = enum.IntEnum('SocketKind', {v: int(k) for k, v in host['SocketKind'].items()})
    if host.get('shift_constants'):
        # another platform numbers its constants differently: every public integer constant of the host modules moves
        for mod in (socket, errno, signal):
            for nm, val in list(vars(mod).items()):
                if nm.isupper() and isinstance(val, int) and not isinstance(val, bool):
                    try:
                        setattr(mod, nm, int(val) + int(host['shift_constants']))
                    except Exception:  # noqa
                        pass
    if 'SOL_SOCKET' in host:
        socket.SOL_SOCKET = host['SOL_SOCKET']
    if host.get('byteorder'):
        sys.byteorder = host['byteorder']       # what a big-endian host reports (struct's native formats are not modelled)
    if host.get('platform'):
        sys.platform = host['platform']
    if host.get('c_long_bits') == 32:
        import ctypes
        ctypes.c_long, ctypes.c_ulong = ctypes.c_int32, ctypes.c_uint32


def run_isolated(req):
    """one decoder run in its own interpreter (host tables are swapped before the package is imported)."""
    import json
    import os
    import subprocess
    here = os.path.join(os.path.dirname(os.path.abspath(__file__)), 'native.py')
    p = subprocess.run([sys.executable, here], input=json.dumps(dict(req, kind='decoder_raw')), capture_output=True,
                       text=True, timeout=60)
    try:
        return json.loads(p.stdout.strip().splitlines()[-1])
    except Exception:
        return {'error': p.stderr[-500:], 'text': None, 'raised': 'child failed'}


def do_decoder(req):
    out = run_decoder(req)
    expect = req.get('expect', {})
    viol = False
    if expect.get('no_raise') and out['raised'] is not None:
        viol = True
    out['violates'] = viol
    return out


def do_decoder_pair(req):
    """two runs (a, b); violates if texts (after optional normalisation) differ / are equal as requested."""
    if req['a'].get('host') or req['b'].get('host'):
        a = run_isolated(req['a'])
        b = run_isolated(req['b'])
    else:
        a = run_decoder(req['a'])
        b = run_decoder(req['b'])
    ta, tb = a.get('text'), b.get('text')
    mode = req.get('mode', 'must_equal')
    if req.get('strip'):
        for s in req['strip']:
            ta = ta.replace(s, '', 1) if ta else ta
            tb = tb.replace(s, '', 1) if tb else tb
    part = req.get('part')
    if part and ta is not None and tb is not None:
        ta, tb = text_part(ta, part), text_part(tb, part)
    if mode == 'twin':
        viol = ta is None or tb is None or tb != ta.replace('(', '_nocancel(', 1)
    elif mode == 'must_equal':
        viol = ta != tb
    else:
        viol = ta == tb
    return {'a': a, 'b': b, 'compared_a': ta, 'compared_b': tb, 'violates': viol}


def split_text(text):
    """(name, [slots], tail) of 'name(slots)tail' honouring quotes, nested parens, /* */"""
    p = text.index('(')
    name = text[:p]
    depth, inq, inc = 1, False, False
    slots, buf = [], ''
    j = p + 1
    while j < len(text):
        ch = text[j]
        if inc:
            if text.startswith('*/', j):
                buf += '*/'
                j += 2
                inc = False
                continue
            buf += ch
        elif inq:
            buf += ch
            if ch == '"':
                inq = False
        elif ch == '"':
            inq = True
            buf += ch
        elif text.startswith('/*', j):
            inc = True
            buf += '/*'
            j += 2
            continue
        elif ch == '(':
            depth += 1
            buf += ch
        elif ch == ')':
            depth -= 1
            if depth == 0:
                if buf or slots:
                    slots.append(buf)
                return name, slots, text[j + 1:]
            buf += ch
        elif depth == 1 and text.startswith(', ', j):
            slots.append(buf)
            buf = ''
            j += 2
            continue
        else:
            buf += ch
        j += 1
    raise ValueError('unbalanced')


def text_part(text, part):
    try:
        name, slots, tail = split_text(text)
    except ValueError:
        return text
    if part == 'call':
        return name + '(' + ', '.join(slots) + ')'
    if part == 'tail':
        return tail
    if part.startswith('slot:'):
        k = int(part.split(':')[1])
        return slots[k] if k < len(slots) else None
    return text


def do_decoder_slot(req):
    """C09: slot k of the rendering must be one of the faithful renderings of START word k."""
    out = run_decoder(req['run'])
    k = req['slot']
    w = req['word'] & 0xffffffffffffffff
    viol = False
    slot = None
    if out.get('text') is not None:
        slot = text_part(out['text'], 'slot:%d' % k)

        def s(v, bits):
            v &= (1 << bits) - 1
            return v - (1 << bits) if v >> (bits - 1) else v
        allowed = {str(w), hex(w), str(s(w, 64))}
        if req.get('narrow') == 's32':
            allowed |= {str(s(w, 32))}
        if req.get('narrow') == 'u32':
            allowed |= {str(w & 0xffffffff), hex(w & 0xffffffff)}
        viol = slot is not None and slot not in allowed
        out['allowed'] = sorted(allowed)
    out['slot_text'] = slot
    out['violates'] = viol
    return out


def do_decoder_result(req):
    """C10: form of the result part given the END record."""
    import re
    out = run_decoder(req['run'])
    end = req['run']['events'][-1]['values']
    err = end[0] & 0xffffffffffffffff
    viol = False
    if out.get('text') is not None:
        try:
            _, _, tail = split_text(out['text'])
        except ValueError:
            tail = out['text']
        out['tail'] = tail
        tail = re.sub(r'( \w+: "[^"]*")+$', '', tail)
        if err != 0:
            viol = re.fullmatch(r', errno: (?:[A-Za-z0-9_]+\(%d\)|%d)' % (err, err), tail) is None
        else:
            if 'errno' in tail:
                viol = True
            allowed = set()
            for j in req.get('words', [1]):
                v = end[j] & 0xffffffffffffffff
                s64 = v - (1 << 64) if v >> 63 else v
                v32 = v & 0xffffffff
                s32 = v32 - (1 << 32) if v32 >> 31 else v32
                allowed |= {str(v), hex(v), str(s64), str(s32)}
            for num in re.findall(r'-?0x[0-9a-f]+|-?\d+', tail):
                if num not in allowed:
                    viol = True
    out['violates'] = viol
    return out


HOST_A = {'name': 'platform-A', 'errorcode': {str(i): 'EA%d' % i for i in range(1, 200)},
          'Signals': {str(i): 'SIGA%d' % i for i in range(1, 65)},
          'AddressFamily': {str(i): 'AF_A%d' % i for i in range(0, 64)},
          'SocketKind': {str(i): 'SOCK_A%d' % i for i in range(1, 16)}, 'SOL_SOCKET': 1}
HOST_B = {'name': 'platform-B', 'errorcode': {str(i): 'EB%d' % i for i in range(1, 200)},
          'Signals': {str(i): 'SIGB%d' % i for i in range(1, 65)},
          'AddressFamily': {str(i): 'AF_B%d' % i for i in range(0, 64)},
          'SocketKind': {str(i): 'SOCK_B%d' % i for i in range(1, 16)}, 'SOL_SOCKET': 0xffff, 'shift_constants': 1000,
          'byteorder': 'big', 'platform': 'platform-b', 'c_long_bits': 32}
WORDS = [0, 1, 2, 3, 5, 0x1a4, 0x1000, 0x7fffffff, 0x80000000, 0xffffffff, 1 << 63, (1 << 64) - 1, 0x0102030405060708]


def _domain_raise(text):
    """an exception that only says "this word is outside the range the decoder names" (the in-domain premise)"""
    return text is not None and (' is not a valid ' in text or text.startswith('UnicodeDecodeError') or text.startswith('KeyError'))


def do_decoder_property_search(req):
    """bounded refute search for the per-decoder properties when the deductive part could not decide a decoder:
    the clause of the property evaluated on the real decoder over START x END windows of boundary words"""
    import random
    from contracts import decoders as DC
    rnd = random.Random(req.get('seed', 0))
    pid = req['property']
    names = req['decoders']
    tried = 0

    def window(name, start, end, shape='pair'):
        evs = {'pair': [{'code_name': name, 'qual': 1, 'values': start}, {'code_name': name, 'qual': 2, 'values': end}],
               'end-only': [{'code_name': name, 'qual': 2, 'values': end}],
               'start-only': [{'code_name': name, 'qual': 1, 'values': start}],
               'bare': [{'code_name': name, 'qual': 0, 'values': start}],
               'text-full': [{'code_name': name, 'qual': 0, 'data': (b'abcdefgh' * 4).hex()}],
               'text-full-end': [{'code_name': name, 'qual': 2, 'data': (b'abcdefgh' * 4).hex()}],
               'nested': [{'code_name': name, 'qual': 1, 'values': start}, {'eventid': 0x7fff0000, 'qual': 0, 'values': [1, 2, 3, 4]},
                          {'code_name': name, 'qual': 2, 'values': end}]}[shape]
        return {'name': name, 'tid': 7, 'events': evs}

    def found(what, request, extra=None):
        return {'tried': tried, 'bound': 'START x END windows over %d boundary words and random words, %d decoders' % (len(WORDS), len(names)),
                'found': dict(extra or {}, violates=True, what=what, request=request)}
    RETS = [0, 1, 3, 4096, (1 << 64) - 1, 0x0102030405060708, 1 << 63, 0x80000000]
    for name in names:
        for rep in range(req.get('per_decoder', 16 if pid == 'C10' else 6)):
            start = [rnd.choice(WORDS + [rnd.getrandbits(64)]) for _ in range(4)] if rep else [1, 2, 3, 4]
            err = [0, 0, 2, 13, 1, 200][rep % 6] if pid != 'C10' else ([0] * 8 + [2, 13, 1, 200, 0xffffffff, 1 << 32, 35, 102])[rep % 16]
            end = [err, RETS[rep % 8] if pid == 'C10' else rnd.choice(RETS), rnd.choice([0, 77]), rnd.choice([0, 1234])]
            tried += 1
            if pid == 'C07':
                for shape in ('pair', 'end-only', 'start-only', 'bare', 'nested', 'text-full', 'text-full-end'):
                    w = window(name, [0, 0, 0, 0] if rep == 0 else [v & 0xff for v in start], [0, 0, 0, 0] if rep == 0 else end, shape)
                    out = run_decoder(w)
                    if out['raised'] is not None and not _domain_raise(out['raised']):
                        return found('%s decoder raises %s on a %s window of in-domain events' % (name, out['raised'], shape),
                                     dict(w, kind='decoder', expect={'no_raise': True}), out)
            elif pid == 'C10':
                base = name.replace('_nocancel', '')
                if not name.startswith('BSC_') or base in DC.C10_EXEMPT or name in DC.C10_EXEMPT:
                    continue
                w = window(name, start, end)
                rq = {'kind': 'decoder_result', 'run': w, 'words': list(DC.C10_RESULT_WORDS.get(base, (1,)))}
                out = do_decoder_result(rq)
                if out.get('violates'):
                    return found('%s: the result part %r does not have the form the END record %s calls for' % (name, out.get('tail'), end), rq, out)
                if out.get('text') is None:
                    continue
                w2 = window(name, start, [end[0]] + [(v + 0x1111) & ((1 << 64) - 1) for v in end[1:]])
                rq = {'kind': 'decoder_pair', 'a': w, 'b': w2, 'part': 'call', 'mode': 'must_equal'}
                out = do_decoder_pair(rq)
                if out['violates'] and out['a'].get('text') and out['b'].get('text'):
                    return found('%s: the call part changes when only the END record changes' % name, rq, out)
                w3 = window(name, [(v + 0x1111) & ((1 << 64) - 1) for v in start], end)
                rq = {'kind': 'decoder_pair', 'a': w, 'b': w3, 'part': 'tail', 'mode': 'must_equal'}
                out = do_decoder_pair(rq)
                if out['violates'] and out['a'].get('text') and out['b'].get('text') and '"' not in (out['compared_a'] or ''):
                    return found('%s: the result part changes when only the START record changes' % name, rq, out)
            elif pid == 'C17':
                if not name.endswith('_nocancel'):
                    continue
                base = name[:-len('_nocancel')]
                call = base.replace('BSC_', '').replace('sys_', '')
                lookups = [[], [{'code_name': 'VFS_LOOKUP', 'qual': 3, 'data': (bytes(8) + ('/%s/%s' % (call, call)).encode()[:23].ljust(24, b'\0')).hex()}]]
                for lk in lookups[:1 + (rep < 2)]:
                    a = window(name, start, end)
                    a['name'] = base
                    a['events'][1:1] = lk
                    for e in a['events']:
                        if e.get('code_name') == name:
                            e['code_name'] = name
                    b = window(name, start, end)
                    b['events'][1:1] = lk
                    rq = {'kind': 'decoder_pair', 'a': a, 'b': b, 'mode': 'twin'}
                    out = do_decoder_pair(rq)
                    ra, rb = out['a'].get('raised'), out['b'].get('raised')
                    if out['violates'] and not (ra is not None and rb is not None):
                        return found('%s and %s render the same window differently (beyond the name): %r / %r' % (
                            base, name, out.get('compared_a'), out.get('compared_b')), rq, out)
            elif pid == 'C18':
                if rep > 1:
                    continue
                w = window(name, [v if v < 64 else (v & 0x1f) for v in start], end)
                rq = {'kind': 'decoder_pair', 'a': dict(w, host=HOST_A), 'b': dict(w, host=HOST_B), 'mode': 'must_equal'}
                out = do_decoder_pair(rq)
                if out['violates']:
                    return found('%s: the text for one window differs between two hosts: %r / %r' % (name, out.get('compared_a'), out.get('compared_b')), rq, out)
    return {'tried': tried, 'bound': 'START x END windows over boundary words, %d decoders' % len(names), 'found': None}


def do_host_call(req):
    """one call of a repository function under a swapped host model (own interpreter)"""
    import importlib
    from pyvc.native import dec
    patch_host(req['host'])
    m = importlib.import_module(req['module'])
    o = m
    for part in req['func'].split('.'):
        o = getattr(o, part)
    try:
        return {'result': repr(o(*dec(req['args']))), 'raised': None}
    except BaseException as e:  # noqa
        return {'result': None, 'raised': '%s: %s' % (type(e).__name__, e)}


def do_host_call_pair(req):
    import json
    import os
    import subprocess
    here = os.path.join(os.path.dirname(os.path.abspath(__file__)), 'native.py')
    outs = []
    for h in (req['a'], req['b']):
        p = subprocess.run([sys.executable, here], input=json.dumps({'kind': 'host_call', 'host': h, 'module': req['module'], 'func': req['func'],
                                                                     'args': req['args']}), capture_output=True, text=True, timeout=60)
        try:
            outs.append(json.loads(p.stdout.strip().splitlines()[-1]))
        except Exception:
            outs.append({'error': p.stderr[-300:]})
    viol = outs[0] != outs[1] and not any('error' in o for o in outs)
    return {'a': outs[0], 'b': outs[1], 'violates': viol,
            'what': 'the same call gives %s on one host and %s on another' % (str(outs[0])[:150], str(outs[1])[:150]) if viol else ''}


HANDLERS = {'host_call': do_host_call, 'host_call_pair': do_host_call_pair, 'decoder_property_search': do_decoder_property_search, 'decoder_raw': run_decoder, 'decoder': do_decoder, 'decoder_result': do_decoder_result, 'decoder_pair': do_decoder_pair, 'decoder_slot': do_decoder_slot}
