"""Child side: history independence at the level of the public API (bounded refute mode, DESIGN 3.6).

Two kinds of history are exercised over a fixed set of operations on small dumps built in memory:
  (1) same interpreter: every operation is run on fresh objects after all the others have run in the process, and again in
      an interpreter that runs nothing else - a difference means state kept at module / class level (or in a shared default
      argument) leaks from one use of the package to the next;
  (2) same object: the listing methods are called repeatedly on ONE PyKdebugParser / KdBufParser / CallstacksParser object over
      different dumps and compared with fresh objects - a difference means state kept on the object outlives a request."""
import json
import os
import plistlib
import struct
import subprocess
import sys

from pyvc.native_misc import _cached_codes


def _rec(ts, tid, name, q=0, vals=(0, 0, 0, 0), text=None, inv=None):
    d = struct.pack('<QQQQ', *vals) if text is None else text.ljust(32, b'\0')
    return struct.pack('<Q32sQIIQ', ts, d, tid, inv[name] | q, 0, 0)


def dumps():
    from spec import container as S
    inv = {v: k for k, v in _cached_codes().items()}
    r = lambda *a, **k: _rec(*a, inv=inv, **k)
    lookup = lambda ts, tid, vid, path: r(ts, tid, 'VFS_LOOKUP', 3, text=struct.pack('<Q', vid) + path)
    a = [r(10, 5, 'BSC_getpid', 1), r(11, 5, 'BSC_getpid', 2, (0, 10, 0, 0)),
         r(12, 5, 'BSC_open', 1, (0, 0x601, 0x1a4, 0)), lookup(13, 5, 77, b'/tmp/a'), r(14, 5, 'BSC_open', 2, (0, 3, 0, 0)),
         r(15, 5, 'DBG_DYLD_TIMING_LAUNCH_EXECUTABLE', 1, (0, 0x100000, 0, 0)), r(16, 5, 'DYLD_uuid_map_a', 0, (1, 2, 0x5000, 1)),
         r(17, 5, 'DYLD_uuid_shared_cache_a', 0, (3, 4, 0x9000, 2)), r(18, 5, 'DBG_DYLD_TIMING_LAUNCH_EXECUTABLE', 2),
         r(19, 5, 'PERF_Event', 1, (9, 1, 0, 0)), r(20, 5, 'PERF_STK_UHdr', 0, (1, 3, 0, 0)), r(21, 5, 'PERF_STK_UData', 0, (0x5010, 0x9020, 0x30, 0)),
         r(22, 5, 'PERF_THD_Data', 0, (10, 5, 0, 0)), r(23, 5, 'PERF_Event', 2),
         r(24, 5, 'BSC_lseek', 1, (3, 0, 0, 0)), r(25, 5, 'BSC_lseek', 2, (0, 2 ** 64 - 1, 0, 0)),
         r(26, 5, 'TRACE_DATA_NEWTHREAD', 0, (77, 10, 0, 0)),                      # data record whose name record never comes
         struct.pack('<Q32sQIIQ', 26, bytes(32), 5, 0x00040008, 0, 0),            # an event of class 0, subclass 4 (no name in the table)
         r(27, 5, 'BSC_read', 1, (3, 0x16b000000, 111, 0))]                        # START left open at the end of the dump
    b = [r(10, 5, 'BSC_read', 2, (0, 50, 0, 0)),                                  # END without START in this dump
         r(11, 5, 'TRACE_STRING_NEWTHREAD', 0, text=b'Safari'),                   # name record without data record in this dump
         r(12, 5, 'BSC_getpid', 1), r(13, 5, 'BSC_getpid', 2, (0, 10, 0, 0)),
         r(14, 5, 'BSC_read', 1, (4, 0x7000, 8, 0)), r(15, 5, 'BSC_read', 2, (0, 2 ** 64 - 1, 0, 0)),
         r(16, 5, 'BSC_access', 1, (0, 0, 0, 0)), lookup(17, 5, 77, b'/tmp/b'), r(18, 5, 'BSC_access', 2, (35, 0, 0, 0)),
         r(19, 5, 'DBG_DYLD_TIMING_LAUNCH_EXECUTABLE', 1, (0, 0x200000, 0, 0)), r(20, 5, 'DYLD_uuid_map_a', 0, (5, 6, 0x7000, 1)),
         r(21, 5, 'DBG_DYLD_TIMING_LAUNCH_EXECUTABLE', 2),
         r(22, 5, 'PERF_Event', 1, (8, 1, 0, 0)), r(23, 5, 'PERF_STK_UHdr', 0, (1, 2, 0, 0)), r(24, 5, 'PERF_STK_UData', 0, (0x7004, 0x5010, 0, 0)),
         r(25, 5, 'PERF_Event', 2),
         r(26, 5, 'BSC_open', 1, (0, 0x9, 0, 0)), r(27, 5, 'BSC_open', 2, (0, 4, 0, 0)),
         r(28, 5, 'BSC_issetugid', 1), r(29, 5, 'BSC_issetugid', 2, (0, 2 ** 64 - 1, 0, 0))]
    out = {'A': S.build_v2([(5, 10, 'launchd'), (1, 10, 'launchd')], 0, a), 'B': S.build_v2([(5, 10, 'launchd'), (1, 20, 'other')], 0, b)}
    kexts = plistlib.dumps({'Binaries': [{'n': 'k1'}, {'n': 'k2'}]}, fmt=plistlib.FMT_BINARY)
    out['V3K'] = S.build_v3([(5, 10, 'launchd')], [a[:2], a[2:5]], [('kernel_extensions', kexts), ('trace_codes', b'0x4 A\n')], flags=0)
    out['V3N'] = S.build_v3([(5, 10, 'launchd')], [b[2:4]], [('trace_codes', b'0x8 B\n')], flags=1)
    return out


def _attrs(o):
    import re
    return {k: re.sub(r' at 0x[0-9a-f]+', '', repr(v))[:400] for k, v in sorted(vars(o).items())
            if not callable(v) and k not in ('handlers', 'qualifiers_actions', 'trace_codes', 'versions')}


def _listing(p, meth, blob):
    import io
    try:
        import re
        return [x if isinstance(x, str) else re.sub(r' at 0x[0-9a-f]+', '', repr(x))[:300] for x in getattr(p, meth)(io.BytesIO(blob))]
    except BaseException as ex:  # noqa
        return ['raised %s: %s' % (type(ex).__name__, str(ex)[:120])]


def _listing_reader(p, meth, reader):
    try:
        return [x if isinstance(x, str) else repr(x)[:300] for x in getattr(p, meth)(reader)]
    except BaseException as ex:  # noqa
        return ['raised %s' % type(ex).__name__]


def _pk():
    from pykdebugparser.pykdebugparser import PyKdebugParser
    p = PyKdebugParser()
    p.color = False
    return p


LISTINGS = ('kevents', 'traces', 'formatted_traces', 'callstacks', 'formatted_callstacks', 'formatted_kevents')


def op_names():
    names = ['kd:%d' % q for q in (1, 2, 3, 0)]
    names += ['parse:%s' % d for d in ('V3K', 'A', 'V3N', 'B')]
    names += ['pk:%s:%s' % (m, d) for d in ('A', 'B', 'V3K', 'V3N') for m in LISTINGS]
    names += ['ti:%d' % i for i in range(3)] + ['codes:0', 'codes:1', 'table:user', 'table:default', 'ioerror:11', 'ioerror:104', 'errno:0']
    return names


def run_op(name, D):
    from pykdebugparser.kevent import from_kd_buf
    kind, _, arg = name.partition(':')
    inv = {v: k for k, v in _cached_codes().items()}
    try:
        if kind == 'kd':
            e = from_kd_buf(struct.pack('<Q32sQIIQ', 7, bytes(32), 5, inv['BSC_read'] | int(arg), 3, 0))
            return repr(e)
        if kind == 'parse':
            import io
            from pykdebugparser.kd_buf_parser import KdBufParser
            tp, pn = {}, {}
            p = KdBufParser(tp, pn)
            try:
                evs = [repr(x)[:200] for x in p.parse(io.BytesIO(D[arg]))]
            except BaseException as ex:  # noqa
                evs = ['raised %s: %s' % (type(ex).__name__, str(ex)[:120])]
            return {'events': evs, 'attrs': _attrs(p)}
        if kind == 'pk':
            meth, _, d = arg.partition(':')
            p = _pk()
            return {'listing': _listing(p, meth, D[d]), 'threads_pids': repr(sorted(p.threads_pids.items())), 'pids_names': repr(sorted(p.pids_names.items()))}
        if kind == 'ioerror':
            import io

            class Failing(io.BytesIO):
                def __init__(self, data, code):
                    io.BytesIO.__init__(self, data)
                    self.code, self.n = code, 0

                def read(self, n=-1):
                    # the header and the first records arrive, then the live stream breaks
                    if self.tell() >= 0x120 + 64 + 64 * 4:
                        raise OSError(self.code, os.strerror(self.code))
                    return io.BytesIO.read(self, n)
            return _listing_reader(_pk(), 'formatted_traces', Failing(D['A'], int(arg)))
        if kind == 'errno':
            from pykdebugparser.traces_parser import TracesParser
            from pykdebugparser.kevent import from_kd_buf as fk
            p = TracesParser(dict(_cached_codes()), {}, {})
            out = []
            for code in (11, 35, 104, 110, 1):
                p.feed(fk(_rec(1, 5, 'BSC_sys_close', 1, (3, 0, 0, 0), inv=inv)))
                out.append(str(p.feed(fk(_rec(2, 5, 'BSC_sys_close', 2, (code, 0, 0, 0), inv=inv)))))
            return out
        if kind == 'ti':
            from pykdebugparser.os_log_event import OsLogEvent
            words = [(0x1111 << 32) | 0x02000104, (0x2222 << 32) | 0x02000104, (0x3333 << 32) | 0x03000104]
            return repr(OsLogEvent.parse_trace_identifier(words[int(arg)]))
        if kind == 'codes':
            from pykdebugparser.trace_codes import from_trace_codes_text
            return repr(sorted(from_trace_codes_text(['0x40c0000 MINE\n0x4 X\n', '0x40c0000 OTHER\n'][int(arg)]).items()))
        if kind == 'table':
            from pykdebugparser.traces_parser import TracesParser
            codes = dict(_cached_codes())
            if arg == 'user':
                codes = {k: ('BSC_read_nocancel' if v == 'BSC_read' else 'BSC_read' if v == 'BSC_read_nocancel' else v) for k, v in codes.items()}
            p = TracesParser(codes, {}, {})
            out = []
            for nm in ('BSC_read', 'BSC_read_nocancel', 'BSC_open'):
                for q, vals in ((1, (3, 0x7000, 8, 0)), (2, (0, 8, 0, 0))):
                    from pykdebugparser.kevent import from_kd_buf as fk
                    t = p.feed(fk(_rec(1, 5, nm, q, vals, inv=inv)))
                    if t is not None:
                        out.append(str(t))
            return out
    except BaseException as ex:  # noqa
        return 'raised %s: %s' % (type(ex).__name__, str(ex)[:160])
    return None


def do_api_history_ops(req):
    D = dumps()
    return {'out': {n: run_op(n, D) for n in req['ops']}}


def same_object_histories():
    """one object, several requests: every request must equal the same request on a fresh object"""
    import io
    D = dumps()
    p = _pk()
    for d in ('A', 'B', 'A', 'V3K', 'V3N'):
        for meth in LISTINGS:
            got = _listing(p, meth, D[d])
            want = _listing(_pk(), meth, D[d])
            if got != want:
                k = next((i for i in range(max(len(got), len(want))) if i >= len(got) or i >= len(want) or got[i] != want[i]), 0)
                return {'violates': True, 'what': '%s of dump %s on a parser object that served earlier requests differs from a fresh parser object: item %d is %r, '
                                                  'a fresh object reports %r' % (meth, d, k, got[k] if k < len(got) else None, want[k] if k < len(want) else None)}
    # the caller appends to the default filter lists of a new object
    for attr, value in (('filter_class', 4), ('filter_subclass', 0x040c), ('filter_class', 0x0004)):
        p = _pk()
        getattr(p, attr).append(value)
        f = _pk()
        setattr(f, attr, [value])
        for meth in ('kevents', 'traces'):
            got, want = _listing(p, meth, D['A']), _listing(f, meth, D['A'])
            if got != want:
                return {'violates': True, 'what': '%s after appending %#x to the default %s of a new parser object lists %d items, a parser object whose %s was '
                                                  'set to [%#x] lists %d: %r / %r' % (meth, value, attr, len(got), attr, value, len(want), got[:3], want[:3])}
    # the caller edits the filter lists in place between two requests
    p, steps = _pk(), [([4], []), ([4, 7], []), ([7], [0x040c]), ([], []), ([31], [])]
    p.filter_class, p.filter_subclass = [], []
    for fc, fsc in steps:
        del p.filter_class[:]
        p.filter_class.extend(fc)
        del p.filter_subclass[:]
        p.filter_subclass.extend(fsc)
        for meth in ('kevents', 'traces', 'formatted_kevents'):
            got = _listing(p, meth, D['A'])
            f = _pk()
            f.filter_class, f.filter_subclass = list(fc), list(fsc)
            want = _listing(f, meth, D['A'])
            if got != want:
                return {'violates': True, 'what': '%s with filter_class=%r filter_subclass=%r (lists edited in place on a parser object that served earlier requests) '
                                                  'lists %d items, a fresh parser object with these settings lists %d: %r / %r' % (meth, fc, fsc, len(got), len(want), got[:4], want[:4])}
    # the caller supplies a different code table on the next request
    from pykdebugparser.trace_codes import default_trace_codes
    base = dict(default_trace_codes())
    swapped = {k: ('BSC_write' if v == 'BSC_read' else 'BSC_read' if v == 'BSC_write' else v) for k, v in base.items()}
    p = _pk()
    for table in (base, swapped, {}, base):
        for meth in ('formatted_kevents', 'formatted_traces', 'traces'):
            def lst(obj):
                try:
                    return [x if isinstance(x, str) else str(x) for x in getattr(obj, meth)(io.BytesIO(D['B']), table)]
                except BaseException as ex:  # noqa
                    return ['raised %s' % type(ex).__name__]
            got, want = lst(p), lst(_pk())
            if got != want:
                k = next((i for i in range(max(len(got), len(want))) if i >= len(got) or i >= len(want) or got[i] != want[i]), 0)
                return {'violates': True, 'what': '%s with a supplied code table on a parser object that served requests under another table: item %d is %r, a fresh '
                                                  'object reports %r' % (meth, k, got[k] if k < len(got) else None, want[k] if k < len(want) else None)}
    from pykdebugparser.kd_buf_parser import KdBufParser
    tp, pn = {}, {}
    for d in ('A', 'B', 'V3K', 'V3N', 'A'):
        kp = KdBufParser(tp, pn)
        try:
            list(kp.parse(io.BytesIO(D[d])))
        except BaseException:  # noqa
            pass
        ftp, fpn = {}, {}
        fk = KdBufParser(ftp, fpn)
        try:
            list(fk.parse(io.BytesIO(D[d])))
        except BaseException:  # noqa
            pass
        if (tp, pn) != (ftp, fpn) or _attrs(kp) != _attrs(fk):
            return {'violates': True, 'what': 'after parsing dump %s with tables that served earlier dumps the tables / metadata are %r %r %r; with fresh tables %r %r %r'
                                              % (d, tp, pn, _attrs(kp), ftp, fpn, _attrs(fk))}
    return {'violates': False}


def oracle_histories():
    """results that must not change after they were handed out, and decodes that must not depend on what was decoded before
    (each compared with the specification's value)"""
    from pykdebugparser.os_log_event import OsLogEvent
    words = [(0x1111 << 32) | 0x02000104, (0x2222 << 32) | 0x02000104, (0x3333 << 32) | 0x03000104, (0x4444 << 32) | 0x02000104]
    objs = [OsLogEvent.parse_trace_identifier(w) for w in words]
    codes = [o.code for o in objs]
    if codes != [w >> 32 for w in words]:
        return {'violates': True, 'what': 'trace identifiers %s decoded one after the other carry the codes %r, their words pack %r' % (
            [hex(w) for w in words], codes, [w >> 32 for w in words])}
    flags = [int(o.flags) if o.flags is not None else None for o in objs]
    if flags != [(w >> 24) & 0xff for w in words]:
        return {'violates': True, 'what': 'trace identifiers %s decoded one after the other carry the flags %r, their words pack %r' % (
            [hex(w) for w in words], flags, [(w >> 24) & 0xff for w in words])}
    segs = [{'p': {'w': 1, 'p': 2, 'rs': 0}, 'a': {'c': 1, 'sc': 1}}, {'p': {'w': 3, 'p': 4}}, {'lp': 1}]
    strings = {0: 'msg', 1: 'lit'}
    outs = [OsLogEvent.parse_decomposed_segment(sg, strings) for sg in segs]
    want = [{'placeholder': {'raw_string': 'msg', 'width': 1, 'precision': 2}, 'arg': {'category': 1, 'scalar_category': 1}},
            {'placeholder': {'width': 3, 'precision': 4}}, {'literal_prefix': 'lit'}]
    if outs != want:
        return {'violates': True, 'what': 'message segments decoded one after the other are %r, each decoded alone is %r' % (outs, want)}
    return {'violates': False}


def do_api_history_case(req):
    from concurrent.futures import ThreadPoolExecutor

    def child(ops):
        p = subprocess.run([sys.executable, os.path.join(os.path.dirname(os.path.abspath(__file__)), 'native.py')],
                           input=json.dumps({'kind': 'api_history_ops', 'ops': ops}), capture_output=True, text=True, timeout=600, env=dict(os.environ))
        return json.loads(p.stdout.strip().splitlines()[-1])['out']
    r = same_object_histories()
    if r['violates']:
        return r
    r = oracle_histories()
    if r['violates']:
        return r
    names = op_names()
    for order in (names, list(reversed(names))):
        seasoned = child(order)
        with ThreadPoolExecutor(16) as ex:
            fresh = list(ex.map(lambda n: child([n])[n], names))
        for n, fr in zip(names, fresh):
            if fr != seasoned[n]:
                return {'violates': True, 'operation': n,
                        'what': 'operation %s gives %r in an interpreter that did nothing else and %r after the other sample operations ran in the same '
                                'interpreter (on fresh objects): state kept outside the objects leaks between uses' % (n, str(fr)[:500], str(seasoned[n])[:500])}
    return {'violates': False, 'operations': len(names)}


HANDLERS = {'api_history_ops': do_api_history_ops, 'api_history_case': do_api_history_case}


# ------------------------------------------------------------------------------ command line (bounded refute mode)
def do_cli_case(req):
    """the listing commands of the command-line entry point over a small dump file, against PyKdebugParser configured by hand"""
    import io
    import itertools
    import tempfile
    from click.testing import CliRunner
    from pykdebugparser.__main__ import cli
    D = dumps()
    tmp = tempfile.NamedTemporaryFile(suffix='.kdebug', delete=False)
    tmp.write(D['A'] + D['B'][0x120 + 64:])        # one version-2 dump holding the records of both sample dumps
    tmp.close()
    blob = open(tmp.name, 'rb').read()
    cases = []
    for count in (-1, 0, 2):
        for tid in (None, 5, 77):
            cases.append(('kevents', 'formatted_kevents', {'count': count, 'tid': tid, 'show_tid': tid is None, 'cf': [4], 'sf': []}))
            cases.append(('kevents', 'formatted_kevents', {'count': count, 'tid': tid, 'show_tid': False, 'cf': [], 'sf': [0x040c]}))
            cases.append(('traces', 'formatted_traces', {'count': count, 'tid': tid, 'show_tid': True, 'cf': [4, 7], 'sf': [], 'process': None}))
            cases.append(('traces', 'formatted_traces', {'count': count, 'tid': tid, 'show_tid': False, 'cf': [], 'sf': [], 'process': 'launchd'}))
            cases.append(('callstacks', 'formatted_callstacks', {'count': count, 'tid': tid, 'show_tid': True, 'process': None}))
            cases.append(('callstacks', 'formatted_callstacks', {'count': count, 'tid': tid, 'show_tid': False, 'process': '10'}))
    try:
        for cmd, meth, o in cases:
            args = [cmd, tmp.name, '--count', str(o['count'])]
            if o.get('tid') is not None:
                args += ['--tid', str(o['tid'])]
            if o.get('process') is not None:
                args += ['--process', o['process']]
            args += ['--show-tid' if o['show_tid'] else '--no-show-tid']
            for c in o.get('cf', []):
                args += ['-cf', str(c)]
            for c in o.get('sf', []):
                args += ['-sf', hex(c)]
            if cmd == 'traces':
                args += ['--no-color']
            res = CliRunner().invoke(cli, args)
            got = res.output.splitlines()
            p = _pk()
            p.filter_tid, p.show_tid = o.get('tid'), o['show_tid']
            if 'process' in o:
                p.filter_process = o['process']
            if 'cf' in o:
                p.filter_class, p.filter_subclass = list(o['cf']), list(o['sf'])
            want = []
            for ln in itertools.islice(getattr(p, meth)(io.BytesIO(blob)), o['count'] if o['count'] >= 0 else None):
                want += str(ln).splitlines()
            if res.exception is not None and not isinstance(res.exception, SystemExit):
                return {'violates': True, 'what': 'command line %r raised %r' % (args[:1] + args[2:], res.exception)}
            if got != want:
                return {'violates': True, 'what': 'command line %r prints %d lines %r; the parser configured with these options lists %d: %r'
                                                  % (args[:1] + args[2:], len(got), got[:3], len(want), want[:3])}
    finally:
        os.unlink(tmp.name)
    return {'violates': False, 'cases': len(cases)}


HANDLERS['cli_case'] = do_cli_case
