"""Child side: miscellaneous requests."""


def do_default_codes(req):
    from pykdebugparser.trace_codes import default_trace_codes
    c = default_trace_codes()
    return {'codes': sorted(c.items())}


def do_reachable(req):
    from pykdebugparser.trace_codes import default_trace_codes
    from pykdebugparser.traces_parser import TracesParser
    c = default_trace_codes()
    p = TracesParser(c, {}, {})
    name = req['name']
    ids = [k for k, v in c.items() if v == name]
    ok = name in p.handlers and bool(ids) and all(i & 3 == 0 for i in ids)
    return {'registered': name in p.handlers, 'ids': ids, 'violates': not ok}


def do_conf_struct(req):
    import random
    import struct
    rnd = random.Random(req.get('seed', 0))
    mism = []
    n = req.get('n', 1000)
    for _ in range(n):
        b = bytes(rnd.getrandbits(8) for _ in range(64))
        ts, data, tid, dbg, cpu, un = struct.unpack('<Q32sQIIQ', b)
        le = lambda bs: sum(x << (8 * i) for i, x in enumerate(bs))
        if (ts, data, tid, dbg, cpu, un) != (le(b[0:8]), b[8:40], le(b[40:48]), le(b[48:52]), le(b[52:56]), le(b[56:64])):
            mism.append(b.hex())
        if struct.unpack('<QQQQ', data) != tuple(le(data[8 * i:8 * i + 8]) for i in range(4)):
            mism.append(b.hex())
    for ln in (0, 1, 63, 65, 128):
        try:
            struct.unpack('<Q32sQIIQ', bytes(ln))
            mism.append('no error for length %d' % ln)
        except struct.error:
            pass
    return {'samples': n, 'mismatches': mism}


HANDLERS = {'default_codes': do_default_codes, 'reachable': do_reachable, 'conf_struct': do_conf_struct}


def _resolve(module, name):
    import importlib
    return getattr(importlib.import_module(module), name)


def do_enum_iter(req):
    out = []
    for module, cls in req['classes']:
        out.append([m.name for m in _resolve(module, cls)])
    return {'members': out}


def do_enum_value(req):
    c = _resolve(req['module'], req['cls'])
    v = c[req['name']].value
    return {'value': v, 'violates': v != req['expect']}


def _probe(names, probe, raised):
    if probe.get('no_raise'):
        return raised is not None
    if raised is not None:
        return True
    if 'must_show' in probe:
        return probe['must_show'] not in names
    if 'must_not_show' in probe:
        return probe['must_not_show'] in names
    return False


def do_flags(req):
    f = _resolve(req['module'], req['func'])
    raised = None
    names = []
    try:
        names = [m.name for m in f(req['word'])]
    except BaseException as e:  # noqa
        raised = '%s: %s' % (type(e).__name__, e)
    return {'names': names, 'raised': raised, 'violates': _probe(names, req['probe'], raised)}


def do_decoder_field_names(req):
    from pyvc import native_decoders as nd
    import struct
    run = req['run']
    codes = dict(nd._codes())
    for k, v in run.get('extra_codes', []):
        codes[k] = v
    evs = nd.build_events(run, codes)
    p = nd.make_parser(run, codes)
    raised = None
    names = []
    try:
        r = p.handlers[run['name']](p, evs)
        names = [m.name for m in getattr(r, req['field'])]
    except BaseException as e:  # noqa
        raised = '%s: %s' % (type(e).__name__, e)
    return {'names': names, 'raised': raised, 'violates': _probe(names, req['probe'], raised)}


def do_ioctl_text(req):
    """independent _IOC inverse (bsd/sys/ioccom.h) compared with what the tool prints"""
    import re
    from pykdebugparser.trace_handlers.bsd import BscIoctl
    w = req['request'] & 0xffffffff
    dirs = {0x20000000: ['IOC_VOID'], 0x40000000: ['IOC_OUT'], 0x80000000: ['IOC_IN'], 0xc0000000: ['IOC_INOUT', 'IOC_IN | IOC_OUT']}
    out = {'raised': None}
    try:
        text = str(BscIoctl([], 3, w, 0, ''))
        out['text'] = text
        m = re.search(r"_IOC\((.*), '(.)', (\d+), (\d+)\)", text, re.S)
        if not m:
            out['violates'] = True
            return out
        d, g, num, ln = m.group(1), m.group(2), int(m.group(3)), int(m.group(4))
        want = dirs.get(w & 0xe0000000)
        viol = (want is not None and d not in want) or ord(g) != (w >> 8) & 0xff or num != w & 0xff or ln != (w >> 16) & 0x1fff
        out['violates'] = viol
    except BaseException as e:  # noqa
        out['raised'] = '%s: %s' % (type(e).__name__, e)
        out['violates'] = True
    return out


HANDLERS.update({'enum_iter': do_enum_iter, 'enum_value': do_enum_value, 'flags': do_flags,
                 'decoder_field_names': do_decoder_field_names, 'ioctl_text': do_ioctl_text})
