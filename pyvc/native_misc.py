"""Child side: miscellaneous requests."""


def do_default_codes(req):
    from pykdebugparser.trace_codes import default_trace_codes
    c = default_trace_codes()
    return {'codes': sorted(c.items())}


def do_reachable(req):
    from pykdebugparser.trace_codes import default_trace_codes
    from pykdebugparser.traces_parser import TracesParser
    c = default_trace_codes()
    p = TracesParser(c, {}, {})
    name = req['name']
    ids = [k for k, v in c.items() if v == name]
    ok = name in p.handlers and bool(ids) and all(i & 3 == 0 for i in ids)
    return {'registered': name in p.handlers, 'ids': ids, 'violates': not ok}


def do_conf_struct(req):
    import random
    import struct
    rnd = random.Random(req.get('seed', 0))
    mism = []
    n = req.get('n', 1000)
    for _ in range(n):
        b = bytes(rnd.getrandbits(8) for _ in range(64))
        ts, data, tid, dbg, cpu, un = struct.unpack('<Q32sQIIQ', b)
        le = lambda bs: sum(x << (8 * i) for i, x in enumerate(bs))
        if (ts, data, tid, dbg, cpu, un) != (le(b[0:8]), b[8:40], le(b[40:48]), le(b[48:52]), le(b[52:56]), le(b[56:64])):
            mism.append(b.hex())
        if struct.unpack('<QQQQ', data) != tuple(le(data[8 * i:8 * i + 8]) for i in range(4)):
            mism.append(b.hex())
    for ln in (0, 1, 63, 65, 128):
        try:
            struct.unpack('<Q32sQIIQ', bytes(ln))
            mism.append('no error for length %d' % ln)
        except struct.error:
            pass
    return {'samples': n, 'mismatches': mism}


HANDLERS = {'default_codes': do_default_codes, 'reachable': do_reachable, 'conf_struct': do_conf_struct}
