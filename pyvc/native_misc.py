"""Child side: miscellaneous requests."""
import os
import sys


def do_default_codes(req):
    from pykdebugparser.trace_codes import default_trace_codes
    c = default_trace_codes()
    return {'codes': sorted(c.items())}


def do_reachable(req):
    from pykdebugparser.trace_codes import default_trace_codes
    from pykdebugparser.traces_parser import TracesParser
    c = default_trace_codes()
    p = TracesParser(c, {}, {})
    name = req['name']
    ids = [k for k, v in c.items() if v == name]
    ok = name in p.handlers and bool(ids) and all(i & 3 == 0 for i in ids)
    return {'registered': name in p.handlers, 'ids': ids, 'violates': not ok}


def do_conf_struct(req):
    import random
    import struct
    rnd = random.Random(req.get('seed', 0))
    mism = []
    n = req.get('n', 1000)
    for _ in range(n):
        b = bytes(rnd.getrandbits(8) for _ in range(64))
        ts, data, tid, dbg, cpu, un = struct.unpack('<Q32sQIIQ', b)
        le = lambda bs: sum(x << (8 * i) for i, x in enumerate(bs))
        if (ts, data, tid, dbg, cpu, un) != (le(b[0:8]), b[8:40], le(b[40:48]), le(b[48:52]), le(b[52:56]), le(b[56:64])):
            mism.append(b.hex())
        if struct.unpack('<QQQQ', data) != tuple(le(data[8 * i:8 * i + 8]) for i in range(4)):
            mism.append(b.hex())
    for ln in (0, 1, 63, 65, 128):
        try:
            struct.unpack('<Q32sQIIQ', bytes(ln))
            mism.append('no error for length %d' % ln)
        except struct.error:
            pass
    return {'samples': n, 'mismatches': mism}


HANDLERS = {'default_codes': do_default_codes, 'reachable': do_reachable, 'conf_struct': do_conf_struct}


def _resolve(module, name):
    import importlib
    return getattr(importlib.import_module(module), name)


def do_enum_iter(req):
    out = []
    for module, cls in req['classes']:
        out.append([m.name for m in _resolve(module, cls)])
    return {'members': out}


def do_enum_value(req):
    c = _resolve(req['module'], req['cls'])
    v = c[req['name']].value
    return {'value': v, 'violates': v != req['expect']}


def _probe(names, probe, raised):
    if probe.get('no_raise'):
        return raised is not None
    if raised is not None:
        return True
    if 'must_show' in probe:
        return probe['must_show'] not in names
    if 'must_not_show' in probe:
        return probe['must_not_show'] in names
    return False


def do_flags(req):
    f = _resolve(req['module'], req['func'])
    raised = None
    names = []
    try:
        names = [m.name for m in f(req['word'])]
    except BaseException as e:  # noqa
        raised = '%s: %s' % (type(e).__name__, e)
    return {'names': names, 'raised': raised, 'violates': _probe(names, req['probe'], raised)}


def do_decoder_field_names(req):
    from pyvc import native_decoders as nd
    import struct
    run = req['run']
    codes = dict(nd._codes())
    for k, v in run.get('extra_codes', []):
        codes[k] = v
    evs = nd.build_events(run, codes)
    p = nd.make_parser(run, codes)
    raised = None
    names = []
    try:
        r = p.handlers[run['name']](p, evs)
        names = [m.name for m in getattr(r, req['field'])]
    except BaseException as e:  # noqa
        raised = '%s: %s' % (type(e).__name__, e)
    return {'names': names, 'raised': raised, 'violates': _probe(names, req['probe'], raised)}


def do_ioctl_text(req):
    """independent _IOC inverse (bsd/sys/ioccom.h) compared with what the tool prints"""
    import re
    from pykdebugparser.trace_handlers.bsd import BscIoctl
    w = req['request'] & 0xffffffff
    dirs = {0x20000000: ['IOC_VOID'], 0x40000000: ['IOC_OUT'], 0x80000000: ['IOC_IN'], 0xc0000000: ['IOC_INOUT', 'IOC_IN | IOC_OUT']}
    out = {'raised': None}
    try:
        text = str(BscIoctl([], 3, w, 0, ''))
        out['text'] = text
        m = re.search(r"_IOC\((.*), '(.)', (\d+), (\d+)\)", text, re.S)
        if not m:
            out['violates'] = True
            return out
        d, g, num, ln = m.group(1), m.group(2), int(m.group(3)), int(m.group(4))
        want = dirs.get(w & 0xe0000000)
        viol = (want is not None and d not in want) or ord(g) != (w >> 8) & 0xff or num != w & 0xff or ln != (w >> 16) & 0x1fff
        out['violates'] = viol
    except BaseException as e:  # noqa
        out['raised'] = '%s: %s' % (type(e).__name__, e)
        out['violates'] = True
    return out


def do_ioctl_search(req):
    """every group byte x every direction, with boundary numbers and lengths: the shown _IOC(...) inverts Darwin's packing"""
    tried = 0
    for d in (0x20000000, 0x40000000, 0x80000000, 0xc0000000):
        for g in range(256):
            for num, ln in ((0, 0), (255, 0x1fff), (1, 4)):
                w = d | (ln << 16) | (g << 8) | num
                tried += 1
                r = do_ioctl_text({'request': w})
                if r.get('violates'):
                    return {'tried': tried, 'bound': 'all group bytes x 4 directions x 3 (number, length) pairs',
                            'found': dict(r, what='ioctl request 0x%08x is shown as %r, which does not invert Darwin\'s _IOC packing' % (w, r.get('text') or r.get('raised')),
                                          request={'kind': 'ioctl_text', 'request': w})}
    return {'tried': tried, 'bound': 'all group bytes x 4 directions x 3 (number, length) pairs', 'found': None}


HANDLERS['ioctl_search'] = do_ioctl_search
HANDLERS.update({'enum_iter': do_enum_iter, 'enum_value': do_enum_value, 'flags': do_flags,
                 'decoder_field_names': do_decoder_field_names, 'ioctl_text': do_ioctl_text})


# ------------------------------------------------------------------------------ C20 bounded search / replay
def _composite_eval(name, evspec):
    """run the real decoder on a concrete window; compare with spec/composite.py. returns (violates, what, info)"""
    from pyvc import native_decoders as nd
    from spec import composite as S
    codes = dict(nd._codes())
    req = {'name': name, 'tid': 7, 'events': evspec, 'parser': {}}
    evs = nd.build_events(req, codes)
    p = nd.make_parser(req, codes)
    try:
        r = p.handlers[name](p, evs)
    except BaseException as e:  # noqa
        return True, 'decoder raised %s: %s' % (type(e).__name__, e), {}
    if name == 'MACH_vmfault':
        from pykdebugparser.trace_handlers import mach
        decodable = set(k for k in p.handlers if k.startswith('RealFaultAddress'))
        res, ft, has, nested = S.vmfault_expected(evs, codes, decodable)
        info = {'result': r.result, 'fault_type': getattr(r.fault_type, 'value', None), 'pid': r.pid}
        if r.result != res:
            return True, 'result %r, END record says %r' % (r.result, res), info
        if (r.fault_type.value if r.fault_type is not None else None) != ft:
            return True, 'fault type %r, END record says %r' % (r.fault_type, ft), info
        if has != (r.pid is not None):
            return True, 'pid/protection %s although %s' % ('shown' if r.pid is not None else 'omitted',
                                                            'a decodable nested record exists' if has else 'there is none'), info
        if has:
            exp = p.handlers[codes[nested.eventid]](p, [nested])
            if (r.pid, r.caller_prot) != (exp.pid, exp.caller_prot):
                return True, 'pid/protection %r are not those of the first nested record %r' % ((r.pid, r.caller_prot), (exp.pid, exp.caller_prot)), info
        return False, '', info
    if name == 'DBG_DYLD_TIMING_LAUNCH_EXECUTABLE':
        exp = S.launch_expected(evs, codes)
        got = [m.load_addr for m in r.uuid_map_a]
        return got != exp, 'listed load addresses %r, expected %r' % (got, exp), {'got': got}
    if name == 'PERF_Event':
        has_th, frames = S.sampler_expected(evs, codes)
        info = {'th_info': r.th_info is not None, 'cs_frames': r.cs_frames}
        if has_th != (r.th_info is not None):
            return True, 'thread info %s, expected %s' % ('present' if r.th_info is not None else 'absent', 'present' if has_th else 'absent'), info
        if frames != (list(r.cs_frames) if r.cs_frames is not None else None):
            return True, 'user stack %r, expected %r' % (r.cs_frames, frames), info
        if (r.cs_flags is None) != (frames is None):
            return True, 'callstack flags without frames (or vice versa)', info
        return False, '', info
    return False, '', {}


def do_composite_case(req):
    v, what, info = _composite_eval(req['name'], req['events'])
    return {'violates': v, 'what': what, 'observed': info}


def do_composite_search(req):
    import itertools
    import random
    name = req['name']
    rnd = random.Random(req.get('seed', 0))
    budget = req.get('budget', 500)

    def ev(code, vals, q=0):
        return {'code_name': code, 'values': list(vals), 'qual': q}
    if name == 'MACH_vmfault':
        palette = [ev('RealFaultAddressInternal', [0x1000, (41 << 16) | (3 << 8) | 2, 5, 6]),
                   ev('RealFaultAddressExternal', [0x2000, (42 << 16) | (1 << 8) | 3, 7, 8]),
                   ev('RealFaultAddressPurgeable', [0x3000, (43 << 16) | (1 << 8) | 1, 0, 0]),
                   ev('RealFaultAddressSharedCache', [0x4000, (44 << 16) | (5 << 8) | 4, 0, 0]),
                   ev('MACH_SCHED', [0, 0, 0, 0]), ev('VFS_LOOKUP', [1, 2, 3, 4], 3)]
        heads = [([0x10, 0x20, 0, 0], [0, 0, r, ft]) for r in (0, 1) for ft in (1, 2)]
    elif name == 'DBG_DYLD_TIMING_LAUNCH_EXECUTABLE':
        palette = [ev('DYLD_uuid_map_a', [1, 2, 0x5000, 1]), ev('DYLD_uuid_map_a', [3, 4, 0x1000, 1]),
                   ev('DYLD_uuid_shared_cache_a', [5, 6, 0x3000, 2]), ev('DYLD_uuid_shared_cache_a', [7, 8, 0x9000, 2]),
                   ev('DYLD_uuid_map_b', [1, 1, 1, 1]), ev('VFS_LOOKUP', [1, 2, 3, 4], 3)]
        heads = [([0, 0x100000, 0, 0], [0, 0, 0, 0])]
    else:
        palette = [ev('PERF_THD_Data', [11, 12, 13, 1]), ev('PERF_STK_UHdr', [1, 3, 0, 0]), ev('PERF_STK_UHdr', [1, 6, 0, 0]),
                   ev('PERF_STK_UData', [0xa1, 0xa2, 0xa3, 0xa4]), ev('PERF_STK_UData', [0xb1, 0xb2, 0xb3, 0xb4]),
                   ev('PERF_STK_UData', [0xc1, 0xc2, 0, 0]), ev('PERF_STK_UHdr', [1, 4, 0, 0]),
                   ev('MACH_SCHED', [0, 0, 0, 0]), ev('PERF_STK_UHdr', [0x245, 2, 0, 0])]        # header flags with bits no table names
        heads = [([fl, 9, 0, 0], [0, 0, 0, 0]) for fl in (0, 1, 8, 9, 0x0b, 0x4009, 0xffffffff)]
    tried = 0
    cases = []
    for n in range(0, 4):
        for mid in itertools.product(range(len(palette)), repeat=n):
            for h in heads:
                cases.append((h, mid))
    rnd.shuffle(cases)
    cases.sort(key=lambda c: len(c[1]))
    for (sv, evv), mid in cases[:budget]:
        evspec = [dict(ev(name, sv, 1))] + [dict(palette[i]) for i in mid] + [dict(ev(name, evv, 2))]
        tried += 1
        v, what, info = _composite_eval(name, evspec)
        if v:
            return {'tried': tried, 'bound': 'windows with <= 3 nested records over a palette of %d record kinds' % len(palette),
                    'found': {'request': {'kind': 'composite_case', 'name': name, 'events': evspec}, 'what': what, 'observed': info,
                              'violates': True}}
    return {'tried': tried, 'bound': 'windows with <= 3 nested records over a palette of %d record kinds' % len(palette), 'found': None}


HANDLERS.update({'composite_case': do_composite_case, 'composite_search': do_composite_search})


# ------------------------------------------------------------------------------ C12 / C13 replays
def _mk_kevent(eventid, tid, qual=0, values=(0, 0, 0, 0), ts=0):
    import struct
    from pykdebugparser.kevent import from_kd_buf
    return from_kd_buf(struct.pack('<Q32sQIIQ', ts, struct.pack('<QQQQ', *values), tid, (eventid & 0xfffffffc) | qual, 0, 0))


def _mk_log(tid, process, pid):
    from pykdebugparser.os_log_event import OsLogEvent
    from datetime import datetime, timezone
    return OsLogEvent('msg', 't', 's', tid, 0, 0, b'', b'', datetime.fromtimestamp(0, tz=timezone.utc), {}, process=process,
                      process_identifier=pid)


def spec_keep(method, cfg, x):
    from pykdebugparser.os_log_event import OsLogEvent
    is_log = isinstance(x, OsLogEvent)
    if method == 'kevents':
        if is_log:
            return False
        if cfg.get('filter_tid') is not None and x.tid != cfg['filter_tid']:
            return False
        fc, fsc = cfg.get('filter_class') or [], cfg.get('filter_subclass') or []
        if not fc and not fsc:
            return True
        return (x.eventid >> 24) in fc or (x.eventid >> 16) in fsc
    if not is_log:
        return False
    if cfg.get('filter_tid') is not None and x.thread_identifier != cfg['filter_tid']:
        return False
    fp = cfg.get('filter_process')
    return fp is None or fp == x.process or fp == str(x.process_identifier)


def do_filters(req):
    import pykdebugparser.pykdebugparser as M
    cfg = req['config']
    e = req['element']
    if e['kind'] == 'kevent':
        x = _mk_kevent(e['eventid'], e['tid'], e.get('qual', 0))
        other = _mk_log(e['tid'], 'p', 1)
    else:
        x = _mk_log(e['thread_identifier'], e['process'], e['process_identifier'])
        other = _mk_kevent(0x40c0000, e['thread_identifier'])
    stream = [x, other, x]

    class FakeParser:
        def __init__(self, *a, **k):
            pass

        def parse(self, reader):
            return iter(list(stream))
    M.KdBufParser = FakeParser
    p = M.PyKdebugParser()
    p.filter_tid = cfg.get('filter_tid')
    p.filter_process = cfg.get('filter_process')
    p.filter_class = list(cfg.get('filter_class') or [])
    p.filter_subclass = list(cfg.get('filter_subclass') or [])
    out = {'raised': None}
    try:
        got = list(getattr(p, req['method'])(None))
    except BaseException as ex:  # noqa
        out['raised'] = '%s: %s' % (type(ex).__name__, ex)
        out['violates'] = True
        return out
    exp = [y for y in stream if spec_keep(req['method'], cfg, y)]
    out['got'] = [repr(y)[:80] for y in got]
    out['expected'] = [repr(y)[:80] for y in exp]
    out['violates'] = [id(y) for y in got] != [id(y) for y in exp]
    return out


def do_filters_sequence(req):
    """several listings requested one after the other on ONE parser object: each must equal the specification's selection"""
    import pykdebugparser.pykdebugparser as M
    cfg = req['config']
    stream = _demo_stream(req.get('eventid', 0x40c0000), 5) + [_mk_kevent(0x04010004, 5), _mk_kevent(0x04020008, 6), _mk_log(5, 'p', 1), _mk_log(6, 'q', 2)]

    class FakeParser:
        def __init__(self, *a, **k):
            pass

        def parse(self, reader):
            return iter(list(stream))
    M.KdBufParser = FakeParser
    p = M.PyKdebugParser()
    p.filter_tid, p.filter_process = cfg.get('filter_tid'), cfg.get('filter_process')
    p.filter_class, p.filter_subclass = list(cfg.get('filter_class') or []), list(cfg.get('filter_subclass') or [])
    done = []
    for meth in req['methods']:
        try:
            got = list(getattr(p, meth)(None))
        except BaseException as ex:  # noqa
            return {'violates': True, 'what': '%s after %s raised %s: %s' % (meth, done, type(ex).__name__, ex)}
        if meth in ('kevents', 'os_log_events'):
            exp = [y for y in stream if spec_keep(meth, cfg, y)]
            if [id(y) for y in got] != [id(y) for y in exp]:
                return {'violates': True, 'what': '%s with the filters %r, requested after %s on the same parser object, lists %d items %r; the filter selects %d: %r'
                                                  % (meth, cfg, done or 'nothing', len(got), [repr(y)[:60] for y in got][:6], len(exp), [repr(y)[:60] for y in exp][:6])}
        done.append(meth)
    return {'violates': False}


def _log_filter_grid():
    """the process filter of the log listing compares the filter text with the process name and with the decimal process id:
    names made of digits, ids spelled with leading zeros, an id that is another process' name"""
    tried = 0
    for fp in ('2048', '007', '7', 'p', ''):
        for proc, pid in (('2048', 7), ('p', 2048), ('7', 1), ('p', 7), ('', 0)):
            for tid_f in (None, 5):
                tried += 1
                rq = {'kind': 'filters', 'method': 'os_log_events', 'config': {'filter_tid': tid_f, 'filter_process': fp, 'filter_class': [], 'filter_subclass': []},
                      'element': {'kind': 'log', 'thread_identifier': 5, 'process': proc, 'process_identifier': pid}}
                r = do_filters(rq)
                if r['violates']:
                    r['request'] = rq
                    r['what'] = 'os_log_events with filter_process=%r over a record of process %r (pid %d) reports %r, the filter selects %r' % (
                        fp, proc, pid, r.get('got'), r.get('expected'))
                    return tried, r
    return tried, None


def do_filters_search(req):
    tried = 0
    for fc, fsc in (([4], []), ([], []), ([7], []), ([], [0x040c]), ([3, 4], []), ([31], [0x0703]), ([4], [0x040c]), ([4, 7], [0x0301, 0x040c])):
        for tid in (None, 5, 4):
            for proc in (None, 'p', '2'):
                cfg = {'filter_tid': tid, 'filter_process': proc, 'filter_class': fc, 'filter_subclass': fsc}
                for methods in (['kevents'], ['os_log_events'], ['traces', 'kevents'], ['kevents', 'traces', 'kevents'], ['traces', 'os_log_events'],
                                ['callstacks', 'kevents']):
                    tried += 1
                    r = do_filters_sequence({'config': cfg, 'methods': methods})
                    if r['violates']:
                        r['request'] = {'kind': 'filters_sequence', 'config': cfg, 'methods': methods}
                        return {'tried': tried, 'bound': 'grid of filter settings x request sequences on one parser object over the demonstration stream', 'found': r}
    n2, r2 = _log_filter_grid()
    tried += n2
    if r2 is not None:
        return {'tried': tried, 'bound': 'log process-filter grid (digit-only names, leading zeros)', 'found': r2}
    return {'tried': tried, 'bound': 'grid of filter settings x request sequences on one parser object over the demonstration stream', 'found': None}


HANDLERS.update({'filters': do_filters, 'filters_sequence': do_filters_sequence, 'filters_search': do_filters_search})


def _demo_stream(eid, tid):
    """a small stream with traces of several classes; `eid` (if decodable) appears as a single event of thread tid"""
    import struct
    from pykdebugparser.trace_codes import default_trace_codes
    inv = {v: k for k, v in default_trace_codes().items()}
    t2 = tid ^ 1
    out = []

    def add(name_or_id, tid_, q, vals=(0, 0, 0, 0), data=None):
        i = inv[name_or_id] if isinstance(name_or_id, str) else name_or_id
        from pykdebugparser.kevent import from_kd_buf
        d = data if data is not None else struct.pack('<QQQQ', *vals)
        out.append(from_kd_buf(struct.pack('<Q32sQIIQ', len(out), d, tid_, (i & 0xfffffffc) | q, 0, 0)))
    add('TRACE_STRING_GLOBAL', tid, 3, data=struct.pack('<QQ', 0, 5) + b'libfoo.dylib'.ljust(16, b'\0'))
    add('BSC_open', tid, 1, (0, 0x601, 0, 0))
    add('VFS_LOOKUP', tid, 3, data=struct.pack('<Q', 77) + b'/tmp/a'.ljust(24, b'\0'))
    add('BSC_open', tid, 2, (0, 3, 0, 0))
    add('MACH_SCHED', t2, 0, (1, 2, 3, 4))
    add('BSC_read', t2, 1, (3, 0x1000, 16, 0))
    add('BSC_read', t2, 2, (0, 16, 0, 0))
    add('TRACE_DATA_NEWTHREAD', tid, 0, (99, 42, 0, 0))
    add('TRACE_STRING_NEWTHREAD', tid, 0, data=b'procname'.ljust(32, b'\0'))
    add('DBG_DYLD_TIMING_DLOPEN', tid, 1, (0, 5, 1, 0))
    add('DBG_DYLD_TIMING_DLOPEN', tid, 2, (0, 9, 0, 0))
    add(eid, tid, 0, (1, 2, 3, 4))
    add('VFS_LOOKUP', t2, 3, data=struct.pack('<Q', 78) + b'/tmp/b'.ljust(24, b'\0'))
    # the new thread 99 of process 42 ("procname", announced above by another process' thread) makes calls of its own;
    # then process 42 is renamed by an exec announced on its own thread
    add('BSC_getpid', 99, 1)
    add('BSC_getpid', 99, 2, (0, 42, 0, 0))
    add('TRACE_DATA_EXEC', 99, 0, (42, 0, 0, 0))
    add('TRACE_STRING_EXEC', 99, 0, data=b'renamed'.ljust(32, b'\0'))
    add('BSC_getppid', 99, 1)
    add('BSC_getppid', 99, 2, (0, 1, 0, 0))
    return out


def do_traces_filters(req):
    import pykdebugparser.pykdebugparser as M
    real = M.KdBufParser
    try:
        return _traces_filters(req)
    finally:
        M.KdBufParser = real


def _traces_filters(req):
    import copy
    import pykdebugparser.pykdebugparser as M
    cfg = dict(req['config'])
    tid = req.get('tid', 5)
    if tid < 2:
        if cfg.get('filter_tid') == tid:
            cfg['filter_tid'] = 5
        tid = 5
    stream = _demo_stream(req['eventid'], tid)

    class FakeParser:
        def __init__(self, *a, **k):
            pass

        def parse(self, reader):
            return iter(list(stream))
    M.KdBufParser = FakeParser

    def run(fc, fsc, tid, proc, parser=None):
        p = parser or M.PyKdebugParser()
        p.filter_tid, p.filter_process, p.filter_class, p.filter_subclass = tid, proc, fc, fsc
        res = []
        for t in p.traces(None):
            # the process the thread belongs to when the trace is reported (the maps are learned while decoding)
            t_tid = t.ktraces[0].tid
            pid = p.threads_pids.get(t_tid)
            res.append((t.ktraces[0].eventid, t_tid, str(t), pid, p.pids_names.get(pid)))
        return p, res
    out = {'raised': None}
    try:
        _, unf = run([], [], None, None)
        fc, fsc = list(cfg.get('filter_class') or []), list(cfg.get('filter_subclass') or [])
        fc0, fsc0 = list(fc), list(fsc)
        p, got = run(fc, fsc, cfg.get('filter_tid'), cfg.get('filter_process'))
        residue = (fc != fc0) or (fsc != fsc0)
        _, again = run(fc, fsc, cfg.get('filter_tid'), cfg.get('filter_process'), parser=p)
        proc = cfg.get('filter_process')

        def allows(eid, tid, pid, pname):
            if cfg.get('filter_tid') is not None and tid != cfg['filter_tid']:
                return False
            if proc is not None and proc not in (str(pid), pname):
                return False
            return (not fc0 and not fsc0) or (eid >> 24) in fc0 or (eid >> 16) in fsc0
        exp = [t for t in unf if allows(t[0], t[1], t[3], t[4])]
        out.update({'got': [t[2] for t in got], 'expected': [t[2] for t in exp], 'caller_lists_after': [fc, fsc], 'second_call': [t[2] for t in again]})
        out['violates'] = residue or [t[:3] for t in got] != [t[:3] for t in exp] or [t[:3] for t in again] != [t[:3] for t in got]
        out['residue'] = residue
        if not out['violates']:
            # a later request on the same parser object after the caller edited its filter lists in place must equal the
            # same request on a fresh parser object
            for edit in ([4], [7], [31]):
                fc_b = list(fc) + [c for c in edit if c not in fc]
                del p.filter_class[:]
                p.filter_class.extend(fc_b)
                _, seq = run(p.filter_class, p.filter_subclass, cfg.get('filter_tid'), cfg.get('filter_process'), parser=p)
                _, fresh = run(list(fc_b), list(fsc), cfg.get('filter_tid'), cfg.get('filter_process'))
                if [t[:3] for t in seq] != [t[:3] for t in fresh]:
                    out['violates'] = True
                    out['what'] = ('after a request with filter_class %r the caller changes the list in place to %r and asks again: the parser reports %r, '
                                   'a fresh parser with these settings reports %r' % (fc0, fc_b, [t[2] for t in seq], [t[2] for t in fresh]))
                    break
        if not out['violates']:
            # a request that is only partly consumed and still referenced: the caller's settings are as the caller set them, and
            # the next request on the same object (made without touching the settings) equals the request on a fresh object
            p3 = M.PyKdebugParser()
            fc3, fsc3 = list(fc0), list(fsc0)
            p3.filter_tid, p3.filter_process, p3.filter_class, p3.filter_subclass = cfg.get('filter_tid'), cfg.get('filter_process'), fc3, fsc3
            pending = iter(p3.traces(None))
            first = next(pending, None)
            now = (p3.filter_tid, p3.filter_process, p3.filter_class, p3.filter_subclass)
            if p3.filter_class is not fc3 or p3.filter_subclass is not fsc3 or list(fc3) != fc0 or list(fsc3) != fsc0 \
                    or now[0] != cfg.get('filter_tid') or now[1] != cfg.get('filter_process'):
                out['violates'] = True
                out['what'] = ('after taking the first trace of a request with the filters %r the filter settings of the parser are %r' % (
                    cfg, (now[0], now[1], list(now[2]), list(now[3]))))
            else:
                nxt = [str(t) for t in p3.traces(None)]
                if nxt != [t[2] for t in got]:
                    out['violates'] = True
                    out['what'] = ('a request with the filters %r made while an earlier, partly consumed request is still pending reports %r, '
                                   'a fresh parser reports %r' % (cfg, nxt, [t[2] for t in got]))
            del pending, first
        if out['violates'] and not residue and 'what' not in out:
            out['what'] = 'traces() with the filters %r reports %r; the unfiltered run restricted to the filter is %r (second request: %r)' % (
                cfg, out['got'], out['expected'], out['second_call'])
    except BaseException as ex:  # noqa
        out['raised'] = '%s: %s' % (type(ex).__name__, ex)
        out['violates'] = True
    return out


def do_traces_filters_search(req):
    """grid of filter settings over the demonstration stream (bounded refute mode for C13)"""
    tried = 0
    base = req.get('config') or {}
    for tid_f in (base.get('filter_tid'), None, 99, 5):
        for proc in (base.get('filter_process'), None, 'procname', '42', 'renamed'):
            for fc, fsc in ((base.get('filter_class') or [], base.get('filter_subclass') or []), ([], []), ([4], []), ([7], []), ([3], []), ([], [0x040c]), ([4, 31], [])):
                cfg = {'filter_tid': tid_f, 'filter_process': proc, 'filter_class': list(fc), 'filter_subclass': list(fsc)}
                r = do_traces_filters({'config': cfg, 'eventid': req.get('eventid', 0), 'tid': req.get('tid', 5)})
                tried += 1
                if r.get('violates'):
                    r['request'] = {'kind': 'traces_filters', 'config': cfg, 'eventid': req.get('eventid', 0), 'tid': req.get('tid', 5)}
                    r['tried'] = tried
                    return r
    return {'violates': False, 'tried': tried}


HANDLERS.update({'traces_filters': do_traces_filters, 'traces_filters_search': do_traces_filters_search})


# ------------------------------------------------------------------------------ C04 refute mode
_CODES = []


def _cached_codes():
    if not _CODES:
        from pykdebugparser.trace_codes import default_trace_codes
        _CODES.append(default_trace_codes())
    return _CODES[0]


def do_pairing_case(req):
    from pykdebugparser.traces_parser import TracesParser
    from pykdebugparser.trace_handlers.trace import handlers as trace_handlers
    from spec import pairing as S
    codes = _cached_codes()
    stream = [tuple(x) for x in req['stream']]
    p = TracesParser(codes, {t: 1 for t, _, _ in stream}, {1: 'proc'})
    # word 0 names one of the stream's threads (thread-terminate and similar records refer to a thread by their first word)
    evs = [_mk_kevent(c, t, q, (11 + ((i + 1) % 2), 2, 3, 4), ts=i) for i, (t, c, q) in enumerate(stream)]
    ids = {id(e): i for i, e in enumerate(evs)}
    dom = lambda c: 'trace' if codes.get(c) in trace_handlers else 'event'
    dec = lambda c: codes.get(c) in p.handlers
    frag = set(k for k, v in codes.items() if v in ('VFS_LOOKUP', 'TRACE_STRING_GLOBAL', 'TRACE_STRING_THREADNAME', 'TRACE_STRING_THREADNAME_PREV'))
    exp = S.expected(stream, dom, dec, frag)
    got = []
    for i, e in enumerate(evs):
        try:
            r = p.feed(e)
        except BaseException as ex:  # noqa
            return {'violates': True, 'what': 'feed raised %s: %s at position %d' % (type(ex).__name__, ex, i), 'position': i}
        g = None if r is None else [ids.get(id(x), -1) for x in r.ktraces]
        got.append(g)
        if not S.window_ok(exp[i], g):
            return {'violates': True, 'position': i, 'expected': exp[i], 'got': g,
                    'what': 'at stream position %d the emitted trace window is %r, the pairing specification allows %r' % (i, g, exp[i])}
    return {'violates': False, 'got': got}


def do_pairing_search(req):
    import itertools
    import random
    inv = {v: k for k, v in _cached_codes().items()}
    from pykdebugparser.traces_parser import TracesParser
    hs = TracesParser({}, {}, {}).handlers
    cls7 = sorted(k for k, v in _cached_codes().items() if k >> 24 == 7 and v not in hs)
    codes = [inv['BSC_getpid'], inv['TRACE_DATA_THREAD_TERMINATE'], inv['MACH_SCHED_BT'], inv['BSC_getuid'], 0x7fff0000,
             cls7[0] if cls7 else 0x07ff0000, 0x07fe0000]
    tids = [11, 12]
    alpha = [(t, c, q) for t in tids for c in codes[:3] for q in (0, 1, 2, 3)]
    alpha_full = [(t, c, q) for t in tids for c in codes for q in (0, 1, 2, 3)]
    rnd = random.Random(req.get('seed', 0))
    budget = req.get('budget', 20000)
    depth = req.get('depth', 4)
    tried = 0

    def trial(stream):
        return do_pairing_case({'stream': stream})
    # long windows first: one START, many nested same-thread records, the END
    for inner in (50, 300, 1100, 5000):
        st = [(11, codes[0], 1)] + [(11, codes[2], 0)] * inner + [(11, codes[0], 2)]
        tried += 1
        r = trial(st)
        if r['violates']:
            r.pop('expected', None)
            r.pop('got', None)
            r['what'] = 'a window of one START, %d nested same-thread records and the END: %s' % (inner, r['what'][:300])
            r['request'] = {'kind': 'pairing_case', 'stream': [list(x) for x in st]}
            return {'tried': tried, 'bound': 'long windows (50..5000 nested records)', 'found': r}
    for n in range(1, 4):
        for st in itertools.product(alpha, repeat=n):
            tried += 1
            r = trial(st)
            if r['violates']:
                r['request'] = {'kind': 'pairing_case', 'stream': [list(x) for x in st]}
                return {'tried': tried, 'bound': 'all streams of length <= 3 over %d symbols, then random longer ones' % len(alpha), 'found': r}
            if tried >= budget:
                break
    while tried < budget:
        n = rnd.randint(4, max(4, depth + 3))
        st = tuple(rnd.choice(alpha_full) for _ in range(n))
        tried += 1
        r = trial(st)
        if r['violates']:
            r['request'] = {'kind': 'pairing_case', 'stream': [list(x) for x in st]}
            return {'tried': tried, 'bound': 'all streams of length <= 3 over %d symbols + random streams up to length %d' % (len(alpha), depth + 3), 'found': r}
    return {'tried': tried, 'bound': 'all streams of length <= 3 over %d symbols + random streams up to length %d' % (len(alpha), depth + 3), 'found': None}


HANDLERS.update({'pairing_case': do_pairing_case, 'pairing_search': do_pairing_search})


# ------------------------------------------------------------------------------ C15 refute mode
def do_callstack_case(req):
    from pykdebugparser.callstacks_parser import CallstacksParser
    from pykdebugparser.trace_handlers.perf import PerfEvent
    from pykdebugparser.trace_handlers.dyld import DyldUuidMapA, DyldLaunchExecutable
    from spec import callstacks as S
    ops = [tuple(o) for o in req['ops']]
    traces = []
    for op in ops:
        if op[0] == 'image':
            traces.append(DyldUuidMapA([_mk_kevent(0x1f050000, 1)], op[2], op[1], 0))
        elif op[0] == 'launch':
            traces.append(DyldLaunchExecutable([_mk_kevent(0x1f070000, 1)], 0, [DyldUuidMapA([], u, a, 0) for a, u in op[1]]))
        elif op[0] == 'sample':
            traces.append(PerfEvent([_mk_kevent(0x25000000, op[2], 1, ts=op[1]), _mk_kevent(0x25000000, op[2] + 1, 2, ts=op[1] + 5)], [], 1,
                                    None, [], list(op[3])))
        else:
            traces.append(PerfEvent([_mk_kevent(0x25000000, 3, 0)], [], 1))
    cp = CallstacksParser([], [])
    try:
        got = [(c.timestamp, c.tid, [(f.address, f.uuid, f.offset) for f in c.frames]) for c in cp.feed_generator(iter(traces))]
    except BaseException as ex:  # noqa
        return {'violates': True, 'what': 'feed_generator raised %s: %s' % (type(ex).__name__, ex)}
    exp = S.expected([(o[0], o[1], o[2], list(o[3])) if o[0] == 'sample' else ((o[0], [tuple(x) for x in o[1]]) if o[0] == 'launch' else o) for o in ops])
    exp = [(t, tid, [tuple(f) for f in fr]) for t, tid, fr in exp]
    return {'violates': got != exp, 'got': got, 'expected': exp,
            'what': 'callstacks %r, the specification gives %r' % (got, exp) if got != exp else ''}


def do_callstack_search(req):
    import random
    rnd = random.Random(req.get('seed', 0))
    budget = req.get('budget', 3000)
    addrs = [0x1000, 0x2000, 0x2001, 0x3000, 0x5000]
    tried = 0
    while tried < budget:
        ops = []
        for _ in range(rnd.randint(1, 6)):
            r = rnd.random()
            if r < 0.4:
                ops.append(['image', rnd.choice(addrs), 'u%d' % rnd.randint(1, 9)])
            elif r < 0.55:
                ops.append(['launch', [[rnd.choice(addrs), 'u%d' % rnd.randint(1, 9)] for _ in range(rnd.randint(0, 3))]])
            elif r < 0.95:
                ops.append(['sample', rnd.randint(1, 99), rnd.randint(1, 9),
                            [rnd.choice(addrs) + rnd.choice([-1, 0, 1, 0x10]) for _ in range(rnd.randint(0, 3))]])
            else:
                ops.append(['other'])
        tried += 1
        r = do_callstack_case({'ops': ops})
        if r['violates']:
            r['request'] = {'kind': 'callstack_case', 'ops': ops}
            return {'tried': tried, 'bound': 'random sequences of <= 6 announcements/samples over 5 addresses', 'found': r}
    return {'tried': tried, 'bound': 'random sequences of <= 6 announcements/samples over 5 addresses', 'found': None}


HANDLERS.update({'callstack_case': do_callstack_case, 'callstack_search': do_callstack_search})


# ------------------------------------------------------------------------------ C02 / C06 refute mode
def _v2_eval(threads, pad, records, preload=None, cut=None, is_64bit=1):
    import io
    from pykdebugparser.kd_buf_parser import KdBufParser
    from pykdebugparser.kevent import from_kd_buf
    from spec import container as S
    data = S.build_v2(threads, pad, records, is_64bit=is_64bit)
    if cut is not None:
        data = data[:cut]
    tp, pn = dict(preload or {}), {k + 1000: 'old' for k in (preload or {})}
    p = KdBufParser(tp, pn)
    got, err = [], None
    try:
        for e in p.parse(io.BytesIO(data)):
            got.append(e)
    except BaseException as ex:  # noqa
        err = '%s: %s' % (type(ex).__name__, ex)
    return data, got, err, tp, pn


def do_v2_case(req):
    from pykdebugparser.kevent import from_kd_buf
    from spec import container as S
    threads = [tuple(t) for t in req['threads']]
    records = [bytes.fromhex(r) for r in req['records']]
    if req.get('repeat'):
        records = records * req['repeat']
    data, got, err, tp, pn = _v2_eval(threads, req['pad'], records, preload=req.get('preload'), is_64bit=req.get('is_64bit', 1))
    exp = [from_kd_buf(r) for r in records]
    etp, epn = S.expected_tables(threads)
    what = ''
    if err is not None:
        what = 'parsing a well-formed version-2 dump raised %s' % err
    elif got != exp:
        what = 'yielded %d events, the dump holds %d records%s' % (len(got), len(exp), '' if len(got) != len(exp) else ' (contents differ)')
    elif tp != etp or pn != epn:
        what = 'thread tables %r / %r differ from the dump\'s thread map %r / %r' % (tp, pn, etp, epn)
    return {'violates': bool(what), 'what': what, 'events': len(got), 'error': err}


def do_v2_search(req):
    import random
    import struct
    rnd = random.Random(req.get('seed', 0))
    budget = req.get('budget', 500)
    skip_leading_zero = 'first-record-leading-zero' in (req.get('known') or [])
    tried = 0
    # directed: many records (more than any internal block), and the header word that says "32-bit kernel" (the thread map
    # entries are 32 bytes whatever it says: the tool's own sample dumps have it zero)
    base_rec = struct.pack('<Q32sQIIQ', 1, bytes(range(32)), 2, 0x40c0004, 0, 0)
    for req2 in ({'kind': 'v2_case', 'threads': [[1, 5, 'proc']], 'pad': 0, 'records': [base_rec.hex()], 'repeat': 1025, 'preload': None},
                 {'kind': 'v2_case', 'threads': [[1, 5, 'proc']], 'pad': 8, 'records': [base_rec.hex()], 'repeat': 3000, 'preload': None},
                 {'kind': 'v2_case', 'threads': [[1, 5, 'proc'], [2, 6, 'x']], 'pad': 0, 'records': [base_rec.hex()], 'is_64bit': 0, 'preload': None},
                 {'kind': 'v2_case', 'threads': [[1, 5, 'launchd']], 'pad': 16, 'records': [base_rec.hex()] * 2, 'is_64bit': 0, 'preload': None},
                 # boundary words of the thread map: ids with the top bit set, the longest name the field holds, a non-ASCII name
                 {'kind': 'v2_case', 'threads': [[2 ** 64 - 1, 0xffffffff, 'x' * 19], [2 ** 63, 0x80000000, 'ghost'], [7, 0x7fffffff, ''],
                                                 [8, 0, 'kernel_task'], [9, 5, 'caf\u00e9']], 'pad': 8, 'records': [base_rec.hex()], 'preload': None},
                 # the command field is a C string: bytes after its first NUL (left over from a longer earlier name) are not part of it
                 {'kind': 'v2_case', 'threads': [[1, 5, 'zsh\x00ingboardd'], [2, 6, 'a\x00\x00b']], 'pad': 0, 'records': [base_rec.hex()], 'preload': None},
                 # a thread id / a process id declared more than once: the later entry wins, per table
                 {'kind': 'v2_case', 'threads': [[1, 2, 'a'], [3, 2, 'b'], [1, 2, 'c'], [3, 4, 'd']], 'pad': 0, 'records': [base_rec.hex()], 'preload': None}):
        tried += 1
        r = do_v2_case(req2)
        if r['violates']:
            r['request'] = req2
            return {'tried': tried, 'bound': 'directed dumps (many records, 32-bit header word)', 'found': r}
    while tried < budget:
        n = rnd.choice([0, 1, 2, 3])
        threads = [(rnd.choice([1, 2, 3, 0x10]), rnd.choice([5, 6, 7]), rnd.choice(['a', 'proc', 'x' * 19, ''])) for _ in range(n)]
        pad = rnd.choice([0, 0, 1, 7, 8, 32, 100])
        m = rnd.choice([0, 1, 2, 5])
        records = []
        for i in range(m):
            ts = rnd.choice([0, 1, 256, 0x0100000000000000, rnd.getrandbits(64)])
            records.append(struct.pack('<Q32sQIIQ', ts, bytes(rnd.getrandbits(8) for _ in range(32)), rnd.choice([1, 2, 3]),
                                       rnd.getrandbits(32), 0, 0))
        if skip_leading_zero and records and records[0][0] == 0:
            continue
        preload = rnd.choice([None, {77: 88}])
        tried += 1
        req2 = {'kind': 'v2_case', 'threads': [list(t) for t in threads], 'pad': pad, 'records': [r.hex() for r in records], 'preload': preload}
        r = do_v2_case(req2)
        if r['violates']:
            r['request'] = req2
            return {'tried': tried, 'bound': 'random dumps: <= 3 threads, padding <= 100, <= 5 records', 'found': r}
    return {'tried': tried, 'bound': 'random dumps: <= 3 threads, padding <= 100, <= 5 records', 'found': None}


HANDLERS.update({'v2_case': do_v2_case, 'v2_search': do_v2_search})


# ------------------------------------------------------------------------------ C03 bounded stand-in / C06 sweep
def _rec64(i, tid=5, code=0x40c0000, q=0):
    import struct
    return struct.pack('<Q32sQIIQ', 1000 + i, struct.pack('<QQQQ', i, i + 1, i + 2, i + 3), tid, code | q, 0, 0)


def _raw_log(i, with_proc=True, ids=(0, 1, 2)):
    d = {'cm': ids[i % 3], 't': 'Log', 's': 'x', 'tid': 40 + i, 'ns': 1, 'mct': 2, 'b': b'b' * 16, 'piu': b'p' * 16,
         'ud': {'sec': 10 + i, 'usec': 5}, 'utz': {'mw': 0, 'dt': 0}}
    if with_proc:
        d.update({'p': ids[(i + 1) % 3], 'pid': 900 + i})
    if i % 2:
        # a trace identifier: signpost namespace (interval begin, process scope) on odd records, log namespace otherwise
        d['ti'] = ((0x1000 + i) << 32) | (0x02 << 24) | (0x81 << 8) | 6 if i % 4 == 1 else ((0x2000 + i) << 32) | (0x01 << 8) | 4
    return d


def _v3_expected(threads, chunks, blocks):
    import plistlib
    from pykdebugparser.kevent import from_kd_buf
    from spec import container as S
    events = [from_kd_buf(r) for c in chunks for r in c]
    tp, pn = S.expected_tables(threads)
    meta = {'trace_codes': '', 'kernel_extensions': [], 'dyld_binaries': None, 'dyld_first': None, 'images': {}, 'processes': {}}
    logs, strings = [], {}
    for kind, payload in blocks:
        if kind == 'trace_codes':
            meta['trace_codes'] += payload.decode()
        elif kind == 'kernel_extensions':
            meta['kernel_extensions'] += plistlib.loads(payload)['Binaries']
        elif kind == 'dyld_modules':
            d = plistlib.loads(payload)
            if meta['dyld_first'] is None:
                meta['dyld_first'] = {k: v for k, v in d.items() if k != 'Binaries'}
                meta['dyld_binaries'] = list(d['Binaries'])
            else:
                meta['dyld_binaries'] += d['Binaries']
        elif kind == 'images':
            meta['images'] = plistlib.loads(payload)
        elif kind == 'processes':
            meta['processes'] = plistlib.loads(payload)
        elif kind == 'log_events':
            logs += plistlib.loads(payload)['Events']
        elif kind == 'log_strings':
            strings = {v: k for k, v in plistlib.loads(payload)['StringIndex'].items()}
    return events, tp, pn, meta, logs, strings


def do_v3_case(req):
    import io
    import plistlib
    from pykdebugparser.kd_buf_parser import KdBufParser
    from pykdebugparser.os_log_event import OsLogEvent
    from spec import container as S
    threads = [tuple(t) for t in req['threads']]
    chunks = [[bytes.fromhex(r) for r in c] for c in req['chunks']]
    blocks = [(k, bytes.fromhex(p)) for k, p in req['blocks']]
    data = S.build_v3(threads, chunks, blocks, filler=bytes.fromhex(req.get('filler', '')), aligned=req.get('aligned', True),
                      gap=bytes.fromhex(req.get('gap', '')), chunk_gaps=[bytes.fromhex(g) for g in req.get('chunk_gaps', [])] or None)
    events, tp, pn, meta, logs, strings = _v3_expected(threads, chunks, blocks)
    p = KdBufParser({99: 1}, {1: 'stale'})
    try:
        got = list(p.parse(_BudgetReader(data, 8 * len(data) + 200)))
    except (TimeoutError, BudgetExceeded):
        return {'violates': True, 'what': 'parsing a well-formed version-3 dump does not terminate (read budget of 8 reads per byte exhausted)'}
    except BaseException as ex:  # noqa
        return {'violates': True, 'what': 'parsing a well-formed version-3 dump raised %s: %s' % (type(ex).__name__, ex)}
    gev = [e for e in got if not isinstance(e, OsLogEvent)]
    glog = [e for e in got if isinstance(e, OsLogEvent)]
    what = ''
    if gev != events:
        what = 'yielded %d events, the chunks hold %d (%s)' % (len(gev), len(events), 'order/content differs' if len(gev) == len(events) else 'count differs')
    elif got[:len(gev)] != gev:
        what = 'a log record was yielded before the last event'
    elif len(glog) != len(logs):
        what = 'yielded %d log records, the log blocks hold %d' % (len(glog), len(logs))
    else:
        import copy
        for g, raw in zip(glog, logs):
            if g.thread_identifier != raw['tid'] or g.composed_message != strings.get(raw['cm']):
                what = 'log record decoded wrongly (tid/message)'
            else:
                # the container yields the record as the record decoder (C16) decodes it: nothing added, nothing changed
                try:
                    want = OsLogEvent.from_raw_log_event(copy.deepcopy(raw), strings)
                except BaseException:  # noqa
                    want = None
                if want is not None and g != want:
                    diff = [f for f in vars(want) if getattr(g, f, None) != getattr(want, f)]
                    what = 'log record of thread %r comes out of the version-3 parse with %s = %r, its own decoding gives %r' % (
                        raw['tid'], diff[0] if diff else '?', getattr(g, diff[0], None) if diff else None, getattr(want, diff[0]) if diff else None)
        for raw in logs:
            if raw.get('p') is not None and strings.get(raw['p']) and raw.get('tid'):
                tp[raw['tid']] = raw.get('pid', 0)
                pn[raw.get('pid', 0)] = strings[raw['p']]
        if not what and (p.threads_pids != tp or p.pids_names != pn):
            what = 'thread/process tables %r %r differ from the dump\'s %r %r' % (p.threads_pids, p.pids_names, tp, pn)
        if not what and p.trace_codes != meta['trace_codes']:
            what = 'embedded trace codes differ from the concatenation of their blocks'
        if not what and p.kernel_extensions.get('Binaries') != meta['kernel_extensions']:
            what = 'kernel extensions differ from the concatenation of their blocks'
        if not what and meta['dyld_binaries'] is not None and p.dyld_modules.get('Binaries') != meta['dyld_binaries']:
            what = 'dyld modules differ from the concatenation of their blocks'
        if not what and (p.images != meta['images'] or p.processes != meta['processes']):
            what = 'images/processes differ from their payload'
    return {'violates': bool(what), 'what': what}


def do_v3_blocks_search(req):
    import random
    import plistlib
    rnd = random.Random(req.get('seed', 0))
    budget = req.get('budget', 200)
    tried = 0
    strings = ['msg a', 'proc', 'msg c']
    while tried < budget:
        ids = rnd.choice([(0, 1, 2), (1, 2, 3), (5, 9, 50), (2, 0, 1)])        # the index numbers its strings as it likes
        threads = [(rnd.choice([1, 2, 3, 2 ** 63, 2 ** 64 - 1]), rnd.choice([5, 6, 0x80000000, 0xffffffff]), rnd.choice(['a', 'launchd', 'x' * 19]))
                   for _ in range(rnd.randint(0, 3))]
        nrec = rnd.randint(0, 7)
        recs = [_rec64(i) for i in range(nrec)]
        k = rnd.randint(1, 3)
        cuts = sorted(rnd.randint(0, nrec) for _ in range(k - 1))
        chunks = [recs[a:b] for a, b in zip([0] + cuts, cuts + [nrec])]
        blocks = []
        for _ in range(rnd.randint(0, 5)):
            kind = rnd.choice(['trace_codes', 'kernel_extensions', 'dyld_modules', 'images', 'processes', 'log_events', 'log_strings'])
            if kind == 'trace_codes':
                payload = ('0x%x\tNAME%d\n' % (rnd.randint(1, 99) * 4, rnd.randint(1, 9))).encode() * rnd.randint(1, 3)
            elif kind in ('kernel_extensions', 'dyld_modules'):
                payload = plistlib.dumps({'Binaries': [{'Name': 'b%d' % rnd.randint(1, 9)} for _ in range(rnd.randint(0, 2))], 'Other': 1}, fmt=plistlib.FMT_BINARY)
            elif kind in ('images', 'processes'):
                payload = plistlib.dumps({'x': rnd.randint(1, 9)}, fmt=plistlib.FMT_BINARY)
            elif kind == 'log_events':
                payload = plistlib.dumps({'Events': [_raw_log(rnd.randint(0, 5), rnd.random() < 0.7, ids) for _ in range(rnd.randint(0, 2))]}, fmt=plistlib.FMT_BINARY)
            else:
                payload = plistlib.dumps({'StringIndex': {s: ids[i] for i, s in enumerate(strings)}}, fmt=plistlib.FMT_BINARY)
            blocks.append((kind, payload))
        # the string index must be known for logs to resolve: make sure one strings block is present when logs are
        if any(b[0] == 'log_events' for b in blocks) and not any(b[0] == 'log_strings' for b in blocks):
            blocks.append(('log_strings', plistlib.dumps({'StringIndex': {s: ids[i] for i, s in enumerate(strings)}}, fmt=plistlib.FMT_BINARY)))
        tried += 1
        req2 = {'kind': 'v3_case', 'threads': [list(t) for t in threads], 'chunks': [[r.hex() for r in c] for c in chunks],
                'blocks': [[k_, p_.hex()] for k_, p_ in blocks], 'aligned': rnd.random() < 0.8,
                'filler': rnd.choice([b'', bytes(5), b'stack', b'stackshot_out_f', b'sstackshot_out_', b'xx\x00\x1d']).hex(),
                'gap': rnd.choice([b'', b'\x00', b'\x00\x1d\x00', b'\x00\x00\x1d']).hex(),
                'chunk_gaps': [rnd.choice([b'', b'\x00', b'\x00\x1e\x00', b'\x00\x00\x1e', b'j\x00\x1e']).hex() for _ in range(3)]}
        r = do_v3_case(req2)
        if r['violates']:
            r['request'] = req2
            return {'tried': tried, 'bound': '<= 3 threads, <= 7 events in <= 3 chunks, <= 6 metadata/log blocks, both paddings', 'found': r}
    return {'tried': tried, 'bound': '<= 3 threads, <= 7 events in <= 3 chunks, <= 6 metadata/log blocks, both paddings', 'found': None}


class BudgetExceeded(BaseException):
    """not an Exception: library code that wraps every Exception of a read (construct does) must not swallow it"""


class _BudgetReader:
    """stream with a budget linear in its length: number of read calls, and number of bytes handed out (reading the same
    bytes again and again is not "an amount of reading linear in the length")"""

    def __init__(self, data, budget):
        import io
        self.b = io.BytesIO(data)
        self.budget = budget
        self.bytes_budget = 24 * len(data) + 8192

    def _charge(self, got):
        self.budget -= 1
        self.bytes_budget -= got
        if self.budget < 0:
            raise BudgetExceeded('read budget exhausted (number of read calls)')
        if self.bytes_budget < 0:
            raise BudgetExceeded('read budget exhausted (bytes read: more than 24 times the length of the stream)')

    def read(self, n=-1):
        r = self.b.read(n)
        self._charge(len(r))
        return r

    def readinto(self, buf):
        r = self.b.readinto(buf)
        self._charge(r or 0)
        return r

    def seek(self, *a):
        return self.b.seek(*a)

    def tell(self):
        return self.b.tell()


def do_truncation_case(req):
    from pykdebugparser.kd_buf_parser import KdBufParser
    from pykdebugparser.os_log_event import OsLogEvent
    data = bytes.fromhex(req['data'])
    cut = req['cut']
    full = []
    try:
        for e in KdBufParser({}, {}).parse(_BudgetReader(data, 4 * len(data) + 100)):
            full.append(e)
    except BaseException:  # noqa
        pass
    got, err = [], None
    try:
        for e in KdBufParser({}, {}).parse(_BudgetReader(data[:cut], 4 * len(data) + 100)):
            got.append(e)
    except (TimeoutError, BudgetExceeded) as ex:
        return {'violates': True, 'what': 'parsing the dump cut at byte %d of %d does not stop: %s' % (cut, len(data), ex)}
    except BaseException as ex:  # noqa
        err = type(ex).__name__
    ev_full = [e for e in full if not isinstance(e, OsLogEvent)]
    ev_got = [e for e in got if not isinstance(e, OsLogEvent)]
    if ev_got != ev_full[:len(ev_got)]:
        return {'violates': True, 'what': 'events reported for the dump cut at byte %d are not a prefix of the full dump\'s' % cut}
    # the listings of the tool itself: events, traces and formatted lines of the cut dump are a prefix of the full dump's,
    # and limiting the output count does not change the lines
    if req.get('listings', True) and data[:4] == b'\x00\x02\xaa\x55':
        import io
        import itertools
        from pykdebugparser.pykdebugparser import PyKdebugParser

        def listing(meth, blob, limit=None):
            p = PyKdebugParser()
            p.color = False
            out = []
            try:
                it_ = getattr(p, meth)(_BudgetReader(blob, 4 * len(data) + 100))
                for x in (it_ if limit is None else itertools.islice(it_, limit)):
                    out.append(x if isinstance(x, str) else str(x))
            except (TimeoutError, BudgetExceeded) as ex:
                raise
            except BaseException:  # noqa
                pass
            return out
        for meth in ('kevents', 'traces', 'formatted_kevents', 'formatted_traces'):
            try:
                lf = listing(meth, data)
                lc = listing(meth, data[:cut])
                if lc != lf[:len(lc)]:
                    k = next(i for i in range(len(lc)) if i >= len(lf) or lc[i] != lf[i])
                    return {'violates': True, 'what': '%s of the dump cut at byte %d of %d is not a prefix of the full dump\'s: item %d is %r, the full dump reports %r'
                                                      % (meth, cut, len(data), k, lc[k], lf[k] if k < len(lf) else None)}
                for n in req.get('limits', (1, 2)):
                    ll = listing(meth, data[:cut], n)
                    if ll != lc[:n]:
                        return {'violates': True, 'what': '%s of the dump cut at byte %d limited to %d items is %r, unlimited it starts %r' % (meth, cut, n, ll, lc[:n])}
            except (TimeoutError, BudgetExceeded) as ex:
                return {'violates': True, 'what': '%s on the dump cut at byte %d of %d does not stop: %s' % (meth, cut, len(data), ex)}
    return {'violates': False, 'error': err, 'events': len(ev_got)}


def do_truncation_search(req):
    import random
    from spec import container as S
    rnd = random.Random(req.get('seed', 0))
    budget = req.get('budget', 40)
    dumps = []
    recs = [_rec64(i) for i in range(4)]
    dumps.append(S.build_v2([(1, 5, 'proc'), (2, 6, 'x')], 8, recs))
    # a process that reads, is renamed by an exec, learns a new thread and reads again: lines must not depend on what follows them
    import struct
    inv = {v: k for k, v in _cached_codes().items()}

    def rec(ts, tid, name, q=0, vals=(0, 0, 0, 0), text=None):
        d = struct.pack('<QQQQ', *vals) if text is None else text.ljust(32, b'\0')
        return struct.pack('<Q32sQIIQ', ts, d, tid, inv[name] | q, 0, 0)
    story = [rec(10, 1, 'BSC_read', 1, (3, 0x7000, 128, 0)), rec(11, 1, 'BSC_read', 2, (0, 128, 0, 0)),
             rec(12, 1, 'TRACE_DATA_EXEC', 0, (5, 1, 2, 0)), rec(13, 1, 'TRACE_STRING_EXEC', 0, text=b'renamed'),
             rec(14, 1, 'BSC_read', 1, (4, 0x8000, 64, 0)), rec(15, 1, 'BSC_read', 2, (0, 64, 0, 0)),
             rec(16, 1, 'TRACE_DATA_NEWTHREAD', 0, (9, 5, 0, 0)), rec(17, 1, 'TRACE_STRING_NEWTHREAD', 0, text=b'child'),
             rec(18, 9, 'BSC_getpid', 1), rec(19, 9, 'BSC_getpid', 2, (0, 5, 0, 0))]
    dumps.append(S.build_v2([(1, 5, 'proc'), (2, 6, 'x')], 0, story))
    dumps.append(S.build_v3([(1, 5, 'proc')], [recs[:2], recs[2:]], [('trace_codes', b'0x4 A\n')], filler=b'zz'))
    # a long trailer: reading a cut dump must stay linear in its length
    dumps.append(S.build_v3([(1, 5, 'proc')], [recs[:1]], [('trace_codes', b'0x4 A\n' * 700), ('trace_codes', b'0x8 B\n' * 100)], filler=b'zz'))
    tried = 0
    for data in dumps:
        cuts = list(range(0, len(data) + 1))
        if len(cuts) > budget:
            step = max(1, len(cuts) // budget)
            cuts = sorted(set(cuts[::step] + cuts[-70:] + [rnd.randrange(len(data)) for _ in range(10)] + [c for c in cuts if c % 32 in (0, 1)]))
            if len(data) > 3000:
                cuts = sorted(set(list(range(0, len(data), 211)) + cuts[-12:]))
        for cut in cuts:
            tried += 1
            r = do_truncation_case({'data': data.hex(), 'cut': cut})
            if r['violates']:
                r['request'] = {'kind': 'truncation_case', 'data': data.hex(), 'cut': cut}
                return {'tried': tried, 'bound': 'cut offsets of two small version-2 dumps (one with exec/new-thread renames; events, traces and formatted lines, count limits 1 and 2) and one small version-3 dump', 'found': r}
    return {'tried': tried, 'bound': 'cut offsets of two small version-2 dumps (one with exec/new-thread renames; events, traces and formatted lines, count limits 1 and 2) and one small version-3 dump', 'found': None}


HANDLERS.update({'v3_case': do_v3_case, 'v3_blocks_search': do_v3_blocks_search, 'truncation_case': do_truncation_case,
                 'truncation_search': do_truncation_search})


# ------------------------------------------------------------------------------ C16 bounded stand-in / replay
SECS = [0, 1, 1600000000, 2 ** 31 - 1, 2 ** 32 + 5, 2 ** 33, 2 ** 33 + 12345, 2 ** 35 + 7, 2 ** 37 + 1, 253402300799]
USECS = [0, 1, 3, 499999, 500000, 999999]


def _mk_raw(keys, rnd=None, ti=None, ud=None):
    import random
    rnd = rnd or random.Random(1)
    raw = {'cm': 0, 't': 'Log', 's': 'x', 'tid': rnd.randint(1, 99), 'ns': 5, 'mct': 6, 'b': b'b' * 16, 'piu': b'p' * 16,
           'ud': ud or {'sec': rnd.choice(SECS), 'usec': rnd.choice(USECS)},
           'utz': {'mw': 120, 'dt': 1}}
    for k in keys:
        if k in ('pip', 'p', 'sip', 'send', 'sub', 'cat', 'f', 'sn'):
            raw[k] = rnd.randint(0, 3)
        elif k == 'lt':
            raw[k] = rnd.choice([0, 1, 2, 0x10, 0x11])
        elif k == 'ti':
            raw[k] = ti if ti is not None else ((rnd.getrandbits(32) << 32) | (rnd.getrandbits(8) << 24) | (rnd.getrandbits(6) << 16)
                                                 | (rnd.choice([0, 1, 2, 0x10, 0x11]) << 8) | rnd.choice([3, 4]))
        elif k in ('lsutz', 'leutz'):
            raw[k] = {'mw': 1, 'dt': 0}
        elif k in ('lsud', 'leud'):
            raw[k] = {'sec': 1, 'usec': 2}
        elif k == 'bt':
            raw[k] = [{'iu': b'u' * 16, 'io': i} for i in range(rnd.randint(0, 3))]
        elif k == 'lc':
            raw[k] = {'c': 3, 's': 1}
        elif k == 'dm':
            segs = []
            for _ in range(rnd.randint(0, 2)):
                seg = {}
                if rnd.random() < 0.6:
                    seg['lp'] = rnd.randint(0, 3)
                if rnd.random() < 0.6:
                    p = {'w': 1, 'p': 2}
                    if rnd.random() < 0.5:
                        p['rs'] = 1
                    if rnd.random() < 0.5:
                        p['t'] = [0, 2] if rnd.random() < 0.7 else []
                    if rnd.random() < 0.5:
                        p['tn'] = 2
                    if rnd.random() < 0.5:
                        p['ty'] = 3
                    seg['p'] = p
                if rnd.random() < 0.6:
                    a = {'c': rnd.choice([1, 2, 3])}
                    if rnd.random() < 0.5:
                        a['a'] = rnd.choice([1, 3])
                    if rnd.random() < 0.5:
                        a['p'] = 1
                    if rnd.random() < 0.5:
                        a['sc'] = 1
                        a['st'] = 2
                    if rnd.random() < 0.5:
                        a['or'] = rnd.randint(0, 3)
                    seg['a'] = a
                segs.append(seg)
            raw[k] = {'pc': len(segs), 's': 1, 'seg': segs}
        else:
            raw[k] = rnd.randint(0, 2 ** 40)
    return raw


def do_log_case(req, raw=None):
    import copy
    from pykdebugparser.os_log_event import OsLogEvent
    from spec import logrecord as S
    strings = {0: 'msg', 1: 'proc', 2: 'img', 3: 'sub'}
    raw = raw if raw is not None else _mk_raw(req['keys'], ti=req.get('ti'), ud=req.get('ud'))
    rawc = copy.deepcopy(raw)
    try:
        ev = OsLogEvent.from_raw_log_event(rawc, strings)
    except BaseException as ex:  # noqa
        return {'violates': True, 'what': 'decoding a raw log record with keys %s raised %s: %s' % (sorted(raw), type(ex).__name__, ex)}
    exp = S.expected(raw, strings)
    for f, v in exp.items():
        got = getattr(ev, f, '<missing>')
        if f == 'log_type':
            got = getattr(got, 'value', got)
        if got != v:
            return {'violates': True, 'what': 'field %s is %r, the record says %r' % (f, got, v)}
    if 'ti' in raw:
        t = S.unpack_trace_identifier(raw['ti'])
        ti = ev.trace_identifier
        g = {'namespace': ti.namespace.value, 'type': getattr(ti.type_, 'value', ti.type_), 'has_current_aid': bool(ti.has_current_aid),
             'pc_style': ti.pc_style.value, 'has_unique_pid': bool(ti.has_unique_pid), 'has_large_offset': bool(ti.has_large_offset),
             'code': ti.code}
        for k_, v in g.items():
            if t[k_] != v:
                return {'violates': True, 'what': 'trace identifier %#x: %s decoded as %r, packed value is %r' % (raw['ti'], k_, v, t[k_])}
        if ti.flags is not None and int(ti.flags) != t['flags']:
            return {'violates': True, 'what': 'trace identifier flags decoded as %r, packed value is %r' % (ti.flags, t['flags'])}
    if 'dm' in raw:
        dm = ev.decomposed_message
        if dm.get('placeholder_count') != raw['dm']['pc'] or len(dm.get('segments', [])) != len(raw['dm']['seg']):
            return {'violates': True, 'what': 'decomposed message segments %r do not match the record\'s %r' % (dm, raw['dm'])}
    return {'violates': False}


def do_log_search(req):
    import random
    rnd = random.Random(req.get('seed', 0))
    budget = req.get('budget', 300)
    allk = ['ti', 'pip', 'p', 'sip', 'send', 'sio', 'siu', 'lt', 'ttl', 'pid', 'aid', 'paid', 'tai', 'sub', 'cat', 'f', 'cai', 'cpui', 'si', 'sn',
            'st', 'ss', 'lsmct', 'lemct', 'lsud', 'leud', 'lsutz', 'leutz', 'bt', 'lc', 'dm']
    tried = 0
    singles = [[k] for k in allk] + [[], allk]
    bound = 'a grid of %d x %d (second, microsecond) dates up to year 9999; every single optional key, none, all, then random subsets' % (len(SECS), len(USECS))
    for sec in SECS:
        for usec in USECS:
            tried += 1
            ud = {'sec': sec, 'usec': usec}
            r = do_log_case({'keys': [], 'ud': ud})
            if r['violates']:
                r['request'] = {'kind': 'log_case', 'keys': [], 'ud': ud}
                return {'tried': tried, 'bound': bound, 'found': r}
    budget += tried
    while tried < budget:
        keys = singles[tried] if tried < len(singles) else [k for k in allk if rnd.random() < 0.4]
        tried += 1
        raw = _mk_raw(keys, rnd)
        r = do_log_case({'keys': keys}, raw=raw)
        if r['violates']:
            r['request'] = {'kind': 'log_case', 'keys': keys, 'ti': raw.get('ti'), 'ud': raw['ud']}
            return {'tried': tried, 'bound': bound, 'found': r}
    return {'tried': tried, 'bound': bound, 'found': None}


HANDLERS.update({'log_case': do_log_case, 'log_search': do_log_search})


# ------------------------------------------------------------------------------ C19 replays
def do_codes_case(req):
    from pykdebugparser.trace_codes import from_trace_codes_text
    lines = req['lines']            # [[hex text, name, rest]]
    text = '\n'.join('%s%s%s%s' % (h, sep, nm, rest) for h, sep, nm, rest in lines)
    exp = {}
    for h, sep, nm, rest in lines:
        exp[int(h, 16)] = nm
    try:
        got = from_trace_codes_text(text)
    except BaseException as ex:  # noqa
        return {'violates': True, 'what': 'from_trace_codes_text raised %s: %s on %r' % (type(ex).__name__, ex, text)}
    return {'violates': dict(got) != exp, 'what': 'mapping %r, expected %r for text %r' % (dict(got), exp, text) if dict(got) != exp else ''}


def do_codes_search(req):
    import random
    rnd = random.Random(req.get('seed', 0))
    tried = 0
    while tried < req.get('budget', 300):
        lines = []
        for _ in range(rnd.randint(0, 5)):
            v = rnd.choice([0, 4, 0x40c0004, 0xffffffff, rnd.getrandbits(32), 8, 8])
            h = rnd.choice(['%x', '0x%x', '0X%X', '%X', '0x%08x']) % v
            lines.append([h, rnd.choice([' ', '\t', '  \t ']), rnd.choice(['BSC_a', 'Zz', 'aa', 'MACH_x', 'n1', 'BSC_#164', 'IOKIT-x', 'a.b:c', 'Q++']),
                          rnd.choice(['', ' ', '\t\t#Params: a b', ' trailing words here'])])
        tried += 1
        r = do_codes_case({'lines': lines})
        if r['violates']:
            r['request'] = {'kind': 'codes_case', 'lines': lines}
            return {'tried': tried, 'found': r}
    return {'tried': tried, 'found': None}


def do_codetable_vmfault(req):
    """a supplied table that gives the fault-address decoder's name another id: is the nested record still used?"""
    from pykdebugparser.traces_parser import TracesParser
    codes = dict(_cached_codes())
    inv = {v: k for k, v in codes.items()}
    old = inv['RealFaultAddressInternal']
    new = 0x13200f0
    del codes[old]
    codes[new] = 'RealFaultAddressInternal'
    p = TracesParser(codes, {}, {})
    vm = inv['MACH_vmfault']
    evs = [_mk_kevent(vm, 5, 1, (0x10, 0x20, 0, 0)), _mk_kevent(new, 5, 0, (0x1000, (41 << 16) | (3 << 8) | 2, 5, 6)),
           _mk_kevent(vm, 5, 2, (0, 0, 0, 2))]
    out = [p.feed(e) for e in evs]
    standalone = out[1]
    fault = out[2]
    return {'standalone_decoded': str(standalone), 'fault_pid': getattr(fault, 'pid', None),
            'violates': standalone is not None and getattr(fault, 'pid', None) is None,
            'what': 'under a table that gives RealFaultAddressInternal the id %#x the record is decoded on its own (%s) but the page-fault trace '
                    'does not take pid/protection from it (nested records are recognised by the id range 0x1320008..0x1320014)' % (new, standalone)}


HANDLERS.update({'codes_case': do_codes_case, 'codes_search': do_codes_search, 'codetable_vmfault': do_codetable_vmfault})


def do_supplied_table_case(req):
    """the same events decoded by two parser objects under two different supplied tables"""
    from pykdebugparser.traces_parser import TracesParser
    codes = dict(_cached_codes())
    inv = {v: k for k, v in codes.items()}
    a, b = inv['BSC_getpid'], inv['BSC_getuid']
    swapped = dict(codes)
    swapped[a], swapped[b] = codes[b], codes[a]

    def run(table):
        p = TracesParser(table, {}, {})
        out = []
        for i, (c, q) in enumerate([(a, 1), (a, 2), (b, 1), (b, 2)]):
            r = p.feed(_mk_kevent(c, 7, q, (0, 42, 0, 0), ts=i))
            if r is not None:
                out.append(str(r))
        return out
    first = run(codes)
    second = run(swapped)
    exp_second = [first[1], first[0]] if len(first) == 2 else None
    viol = second != exp_second
    what = 'a second parser given a table with two names swapped decodes %r, expected %r' % (second, exp_second) if viol else ''
    if not viol:
        # a table may give one name to several ids, move a name to an unused id, or be empty: the table alone decides
        alias = dict(codes)
        alias[b] = codes[a]
        third = run(alias)
        exp_third = [first[0], first[0]] if len(first) == 2 else None
        moved = {k: v for k, v in codes.items() if k != a}
        moved[0x7ff0000] = codes[a]
        p = TracesParser(moved, {}, {})
        mv = [str(r) for r in (p.feed(_mk_kevent(0x7ff0000, 7, q, (0, 42, 0, 0), ts=q)) for q in (1, 2)) if r is not None]
        none = run({})
        lk = inv['VFS_LOOKUP']
        alias_lk = dict(codes)
        alias_lk[0x3ff0000] = 'VFS_LOOKUP'
        import struct
        pl = TracesParser(alias_lk, {}, {})
        texts = []
        for ev in (_mk_kevent(inv['BSC_access'], 7, 1, (0, 0, 0, 0), ts=1),
                   _ev_raw(lk, 7, 3, struct.pack('<Q', 77) + b'/first'.ljust(24, b'\0'), ts=2),
                   _mk_kevent(inv['BSC_access'], 7, 2, (0, 0, 0, 0), ts=3),
                   _mk_kevent(inv['BSC_access'], 7, 1, (0, 0, 0, 0), ts=4),
                   _ev_raw(0x3ff0000, 7, 3, struct.pack('<Q', 78) + b'/second'.ljust(24, b'\0'), ts=5),
                   _mk_kevent(inv['BSC_access'], 7, 2, (0, 0, 0, 0), ts=6)):
            r = pl.feed(ev)
            if r is not None:
                texts.append(str(r))
        if not viol and (not any('"/first"' in t and 'access' in t for t in texts) or not any('"/second"' in t and 'access' in t for t in texts)):
            viol, what = True, 'under a table that gives the name VFS_LOOKUP to two ids, lookups recorded under either id must reach the enclosing call: %r' % (texts,)
        if not viol:
            import io
            import struct as _st
            from spec import container as _S
            from pykdebugparser.pykdebugparser import PyKdebugParser
            recs_ = [_st.pack('<Q32sQIIQ', 1, bytes(32), 7, a | 1, 0, 0), _st.pack('<Q32sQIIQ', 2, _st.pack('<QQQQ', 0, 42, 0, 0), 7, a | 2, 0, 0)]
            dump_ = _S.build_v2([(7, 3, 'p')], 0, recs_)
            odd = {a | 1: codes[a], b | 2: codes[b]}           # ids that no event id (qualifier bits clear) can equal
            pk = PyKdebugParser()
            pk.color = False
            tr_ = [str(t) for t in pk.traces(io.BytesIO(dump_), odd)]
            lines_ = list(PyKdebugParser().formatted_kevents(io.BytesIO(dump_), odd))
            if tr_ or any(codes[a] in ln for ln in lines_):
                viol, what = True, 'under a supplied table whose only ids are %#x and %#x the event id %#x is decoded / named: %r %r' % (a | 1, b | 2, a, tr_, lines_[:2])
        if viol:
            pass
        elif third != exp_third:
            viol, what = True, 'under a table that gives the name %s to two ids the two calls decode to %r, expected %r' % (codes[a], third, exp_third)
        elif mv != first[:1]:
            viol, what = True, 'under a table that moves %s to the id 0x7ff0000 the call on that id decodes to %r, expected %r' % (codes[a], mv, first[:1])
        elif none:
            viol, what = True, 'under an empty table the records still decode to %r' % (none,)
    return {'first': first, 'second': second, 'expected_second': exp_second, 'violates': viol, 'what': what}


HANDLERS.update({'supplied_table_case': do_supplied_table_case})


# ------------------------------------------------------------------------------ C14 stand-ins
def _ansi_strip(s):
    import re
    return re.sub(r'\x1b\[[0-9;]*m', '', s)


def do_color_search(req):
    import random
    from pykdebugparser.pykdebugparser import PyKdebugParser
    rnd = random.Random(req.get('seed', 0))
    texts = ['read(3, 0x1000, 16), count: 16', 'open("/tmp/a b", O_RDONLY | O_CREAT), errno: ENOENT(2)', 'lookup("/x/y"), vnode id: 7',
             'New thread 5 of parent: 9', 'ioctl(3, 0x80047410 /* _IOC(IOC_IN, \'t\', 16, 4) */, 0x0)', 'a  b\tc', '  leading', 'x' * 200,
             'MACH_SCHED, to: 5, reason: AST_PREEMPT | AST_URGENT', '"quoted \\" text"', "it's", '/* comment */ 0x10', '']
    tried = 0

    class T:
        def __init__(self, text, ev):
            self.text, self.ktraces = text, [ev]

        def __str__(self):
            return self.text
    while tried < req.get('budget', 50):
        text = rnd.choice(texts) if tried >= len(texts) else texts[tried]
        tried += 1
        p = PyKdebugParser()
        p.show_timestamp = p.show_process = False
        t = T(text, _mk_kevent(0x40c0000, 5))
        p.color = False
        plain = p._format_trace(t)
        p.color = True
        col = _ansi_strip(p._format_trace(t))
        if col != plain.strip() and col != plain:
            return {'tried': tried, 'found': {'violates': True, 'request': {'kind': 'color_search', 'budget': tried, 'seed': req.get('seed', 0)},
                                              'what': 'coloured line %r differs from the plain line %r after removing the colour codes' % (col, plain)}}
    return {'tried': tried, 'found': None}


def do_process_column_case(req):
    import pykdebugparser.pykdebugparser as M
    real_parser = M.KdBufParser
    try:
        return _process_column_case(req)
    finally:
        M.KdBufParser = real_parser


def _process_column_case(req):
    """the process column of formatted_traces over a stream with every kind of declaring record, against the tables the dump
    declares at each point (model written from the property: thread map, then new-thread / terminate-pid / sampler records)"""
    import struct
    import pykdebugparser.pykdebugparser as M
    from pykdebugparser.kevent import from_kd_buf
    inv = {v: k for k, v in _cached_codes().items()}
    recs = []

    def add(name, tid, q, vals=(0, 0, 0, 0), text=None):
        d = text.ljust(32, b'\0') if text is not None else struct.pack('<QQQQ', *vals)
        recs.append((name, tid, q, vals, text))
        return from_kd_buf(struct.pack('<Q32sQIIQ', len(recs), d, tid, inv[name] | q, 0, 0))
    stream = [add('BSC_getpid', 5, 1), add('BSC_getpid', 5, 2, (0, 42, 0, 0)),
              add('PERF_THD_Data', 7, 0, (10, 9, 0, 0)),
              add('BSC_getpid', 9, 1), add('BSC_getpid', 9, 2, (0, 10, 0, 0)),
              add('TRACE_DATA_NEWTHREAD', 5, 0, (11, 42, 0, 0)), add('TRACE_STRING_NEWTHREAD', 5, 0, text=b'kid'),
              add('BSC_getpid', 11, 1), add('BSC_getpid', 11, 2, (0, 42, 0, 0)),
              add('TRACE_DATA_THREAD_TERMINATE_PID', 9, 0, (77, 1, 0, 0)),
              add('BSC_getppid', 9, 1), add('BSC_getppid', 9, 2, (0, 1, 0, 0)),
              add('BSC_getpid', 13, 1), add('BSC_getpid', 13, 2, (0, 1, 0, 0)),
              add('TRACE_DATA_THREAD_TERMINATE', 5, 0, (5, 0, 0, 0)),          # not a declaration: thread 5 stays what the dump declared
              add('BSC_getuid', 5, 1), add('BSC_getuid', 5, 2, (0, 0, 0, 0))]

    class FakeParser:
        def __init__(self, tp=None, pn=None):
            self.tp, self.pn = tp, pn

        def parse(self, reader):
            self.tp.clear()
            self.pn.clear()
            self.tp[5] = 42
            self.pn[42] = 'proc'
            return iter(list(stream))
    M.KdBufParser = FakeParser
    p = M.PyKdebugParser()
    p.color = False
    p.show_timestamp = p.show_tid = False
    p.show_process = True
    # the model
    tp, pn, last = {5: 42}, {42: 'proc'}, {}
    want = []
    for name, tid, q, vals, text in recs:
        if name == 'PERF_THD_Data':
            tp[vals[1]] = vals[0]
        elif name == 'TRACE_DATA_NEWTHREAD':
            tp[vals[0]] = vals[1]
            last[tid] = vals[1]
        elif name == 'TRACE_STRING_NEWTHREAD' and tid in last:
            pn[last[tid]] = text.decode()
        elif name == 'TRACE_DATA_THREAD_TERMINATE_PID':
            tp[tid] = vals[0]
        if q in (0, 2):
            pid = tp.get(tid)
            want.append((name, tid, None if pid is None else '%s(%d)' % (pn.get(pid, ''), pid)))
    try:
        lines = list(p.formatted_traces(None))
    except BaseException as ex:  # noqa
        return {'violates': True, 'what': 'formatted_traces raised %s: %s' % (type(ex).__name__, ex)}
    if len(lines) != len(want):
        return {'violates': True, 'what': '%d lines for %d traces' % (len(lines), len(want))}
    for ln, (name, tid, col) in zip(lines, want):
        head = ln[:34].rstrip()
        if col is None:
            if '(' in head and head.endswith(')') and 'rror' not in head:
                return {'violates': True, 'what': 'thread %d was never declared by the dump, the line %r attributes it to a process' % (tid, ln)}
        elif head != col:
            return {'violates': True, 'what': 'the line of %s on thread %d reads %r: the dump declares %s for this thread at that point of the stream' % (name, tid, ln, col)}
    return {'violates': False, 'lines': len(lines)}


def do_format_case(req):
    """composition of columns and freshness of the process column"""
    from pykdebugparser.pykdebugparser import PyKdebugParser
    names = ['show_timestamp', 'show_name', 'show_func_qual', 'show_tid', 'show_process', 'show_args']
    p = PyKdebugParser()
    p.color = False
    p.threads_pids.update({5: 42})
    p.pids_names.update({42: 'proc'})
    codes = _cached_codes()
    ev = _mk_kevent(0x40c0000, 5, 1, (1, 2, 3, 4), ts=77)

    class T:
        ktraces = [ev]

        def __str__(self):
            return 'body'
    from pykdebugparser.callstacks_parser import Callstack, Frame
    cs = Callstack(77, 5, [Frame(0x10, None, None), Frame(0x20, 'uuid', 4)])
    setting = req['setting']

    def render(which, sw):
        for n, v in zip(names, sw):
            setattr(p, n, v)
        if which == 'kevent':
            return p._format_kevent(ev, codes)
        if which == 'trace':
            return p._format_trace(T())
        return p._format_callstack(cs)
    which = req['which']
    idx = {'kevent': [0, 1, 2, 3, 4, 5], 'trace': [0, 3, 4], 'callstack': [0, 3, 4]}[which]
    off = [False] * 6
    body = render(which, off)
    full = [setting[i] if i in idx else False for i in range(6)]
    got = render(which, full)
    cols = ''
    for i in idx:
        if setting[i]:
            one = list(off)
            one[i] = True
            r = render(which, one)
            cols += r[:len(r) - len(body)] if body else r
    want = cols + body
    viol = got != want
    what = '%s with switches %s renders %r, the enabled columns concatenate to %r' % (which, dict(zip(names, full)), got, want) if viol else ''
    if not viol and req.get('freshness'):
        for n, v in zip(names, [False, False, False, False, True, False]):
            setattr(p, n, v)
        a = p._format_kevent(ev, codes)
        p.threads_pids[5] = 43
        p.pids_names[43] = 'other'
        b = p._format_kevent(ev, codes)
        if 'other(43)' not in b:
            viol, what = True, 'after the tables declare pid 43 for thread 5 the process column still reads %r (before: %r)' % (b, a)
    return {'violates': viol, 'what': what}


HANDLERS['process_column_case'] = do_process_column_case


def do_declared_dump_case(req):
    """the process column over real version-2 and version-3 files whose thread maps hold boundary words (ids with the top bit
    set, the longest name): every line names what the file's own thread map declares for its thread"""
    import io
    import struct
    from spec import container as S
    from pykdebugparser.pykdebugparser import PyKdebugParser
    inv = {v: k for k, v in _cached_codes().items()}
    threads = [(300, 0xffffffff, 'ghost'), (2 ** 63 + 5, 0x80000001, 'big'), (7, 0x7fffffff, 'x' * 19), (8, 0, 'kernel_task'), (9, 5, '')]
    tids = [t for t, _, _ in threads] + [0x4242]
    recs = []
    for i, tid in enumerate(tids):
        recs.append(struct.pack('<Q32sQIIQ', 10 + 2 * i, bytes(32), tid, inv['BSC_getpid'] | 1, 0, 0))
        recs.append(struct.pack('<Q32sQIIQ', 11 + 2 * i, struct.pack('<QQQQ', 0, 1, 0, 0), tid, inv['BSC_getpid'] | 2, 0, 0))
    want = {t: '%s(%d)' % (n, p) for t, p, n in threads}
    for label, data in (('version-2', S.build_v2(threads, 8, recs)), ('version-3', S.build_v3(threads, [recs], []))):
        p = PyKdebugParser()
        p.color = False
        p.show_timestamp = False
        p.show_tid = p.show_process = True
        try:
            lines = list(p.formatted_traces(io.BytesIO(data)))
        except BaseException as ex:  # noqa
            return {'violates': True, 'what': 'formatted_traces of a well-formed %s dump raised %s: %s' % (label, type(ex).__name__, ex)}
        if len(lines) != len(tids):
            return {'violates': True, 'what': '%s dump: %d lines for %d system calls' % (label, len(lines), len(tids))}
        for tid, ln in zip(tids, lines):
            lead = len('%11d ' % tid)
            col = ln[lead:lead + 34].rstrip()
            if tid in want and col != want[tid]:
                return {'violates': True, 'what': '%s dump declares %s for thread %d, the line reads %r' % (label, want[tid], tid, ln)}
            if tid not in want and '(' in col and 'rror' not in col:
                return {'violates': True, 'what': '%s dump never declares thread %d, the line %r attributes it to a process' % (label, tid, ln)}
    return {'violates': False}


HANDLERS['declared_dump_case'] = do_declared_dump_case


def do_format_search(req):
    import itertools
    tried = 1
    r = do_process_column_case({})
    if r['violates']:
        r['request'] = {'kind': 'process_column_case'}
        return {'tried': tried, 'found': r}
    tried += 1
    r = do_declared_dump_case({})
    if r['violates']:
        r['request'] = {'kind': 'declared_dump_case'}
        return {'tried': tried, 'found': r}
    for which in ('kevent', 'trace', 'callstack'):
        for setting in itertools.product([False, True], repeat=6):
            tried += 1
            r = do_format_case({'which': which, 'setting': list(setting), 'freshness': True})
            if r['violates']:
                r['request'] = {'kind': 'format_case', 'which': which, 'setting': list(setting), 'freshness': True}
                return {'tried': tried, 'found': r}
    return {'tried': tried, 'found': None}


HANDLERS.update({'color_search': do_color_search, 'format_case': do_format_case, 'format_search': do_format_search})


# ------------------------------------------------------------------------------ C05 refute mode
def do_interleaving_case(req):
    """two per-thread programs, two interleavings: per-thread traces and learned names must agree"""
    from pykdebugparser.traces_parser import TracesParser
    codes = _cached_codes()
    inv = {v: k for k, v in codes.items()}
    progs = req['programs']          # {tid: [[code name, qual, values, text]]}

    def build(order):
        idx = {t: 0 for t in progs}
        out = []
        for t in order:
            name, q, vals, text = progs[t][idx[t]]
            idx[t] += 1
            import struct
            from pykdebugparser.kevent import from_kd_buf
            data = text.encode().ljust(32, b'\0') if text is not None else struct.pack('<QQQQ', *vals)
            out.append(from_kd_buf(struct.pack('<Q32sQIIQ', len(out), data, int(t), inv[name] | q, 0, 0)))
        return out

    def run(order):
        # the dump's thread map already knows the threads (as it does for every thread alive when the capture started)
        p = TracesParser(codes, {int(t): 1 for t in progs}, {1: 'proc'})
        per = {}
        for e in build(order):
            r = p.feed(e)
            if r is not None:
                per.setdefault(e.tid, []).append((str(r), repr(getattr(r, 'cs_frames', None)), repr(getattr(r, 'cs_flags', None)),
                                                  [(x.tid, x.eventid, x.func_qualifier, x.values) for x in r.ktraces]))
        return per, dict(p.pids_names)
    try:
        a = run(req['order_a'])
        b = run(req['order_b'])
    except BaseException as ex:  # noqa
        return {'violates': True, 'what': 'feed raised %s: %s' % (type(ex).__name__, ex)}
    # the names a thread's data + name records declare are learned whatever else happens in between
    want = {}
    for t, prog in progs.items():
        pending = {}
        for name, q, vals, text in prog:
            if name in ('TRACE_DATA_NEWTHREAD', 'TRACE_DATA_EXEC') and vals is not None:
                pending[name.split('_')[-1]] = vals[1] if name.endswith('NEWTHREAD') else vals[0]
            elif name in ('TRACE_STRING_NEWTHREAD', 'TRACE_STRING_EXEC') and name.split('_')[-1] in pending and text is not None:
                want[pending[name.split('_')[-1]]] = text
    for label, (per, names) in (('sequential', a), ('interleaved', b)):
        miss = {k: v for k, v in want.items() if names.get(k) != v}
        if miss and len(want) == len(set(want)):
            return {'violates': True, 'what': 'in the %s order the process names learned are %r; the data and name records of the threads declare %r' % (label, names, want)}
    viol = a != b
    return {'violates': viol, 'a': repr(a)[:600], 'b': repr(b)[:600],
            'what': 'two interleavings of the same per-thread programs give different per-thread results / learned names: %r vs %r' % (a, b) if viol else ''}


def do_interleaving_search(req):
    import itertools
    import random
    rnd = random.Random(req.get('seed', 0))
    pool = [['TRACE_DATA_NEWTHREAD', 0, [101, 11, 0, 0], None], ['TRACE_STRING_NEWTHREAD', 0, None, 'procA'],
            ['TRACE_DATA_EXEC', 0, [21, 0, 0, 0], None], ['TRACE_STRING_EXEC', 0, None, 'execB'],
            ['BSC_getpid', 1, [0, 0, 0, 0], None], ['BSC_getpid', 2, [0, 7, 0, 0], None], ['BSC_getuid', 1, [0, 0, 0, 0], None],
            ['BSC_getuid', 2, [0, 9, 0, 0], None], ['BSC_getpid', 0, [0, 3, 0, 0], None]]
    tried = 0
    budget = req.get('budget', 300)
    # directed cases first: both threads inside the same call; both threads announcing a new thread / an exec
    sample = [['PERF_Event', 1, [9, 1, 0, 0], None], ['PERF_STK_UHdr', 0, [1, 5, 0, 0], None], ['PERF_STK_UData', 0, [0xa1, 0xa2, 0xa3, 0xa4], None],
              ['PERF_STK_UData', 0, [0xa5, 0, 0, 0], None], ['PERF_THD_Data', 0, [77, 5, 0, 0], None], ['PERF_Event', 2, [0, 0, 0, 0], None]]
    lookup = [['BSC_access', 1, [0, 0, 0, 0], None], ['VFS_LOOKUP', 3, None, 'AAAAAAAA/tmp/x'], ['BSC_access', 2, [0, 0, 0, 0], None]]
    directed = [[pool[4], pool[5]], [pool[0], pool[1]], [pool[2], pool[3]], [pool[0], pool[1], pool[2], pool[3]], [pool[4], pool[6], pool[7], pool[5]],
                sample, lookup]
    for pa in directed:
        for pb in directed:
            progs = {}
            for t, prog in (('5', pa), ('6', pb)):
                pp = []
                for e in prog:
                    e = list(e)
                    if e[2] is not None and e[0].startswith('TRACE_DATA'):
                        e[2] = [e[2][0] + int(t), e[2][1] + int(t), 0, 0]
                    if e[3] is not None:
                        e[3] = e[3] + t
                    pp.append(e)
                progs[t] = pp
            base = ['5'] * len(progs['5']) + ['6'] * len(progs['6'])
            alt = []
            i5 = i6 = 0
            while i5 < len(progs['5']) or i6 < len(progs['6']):
                if i5 < len(progs['5']):
                    alt.append('5')
                    i5 += 1
                if i6 < len(progs['6']):
                    alt.append('6')
                    i6 += 1
            tried += 1
            r = do_interleaving_case({'programs': progs, 'order_a': base, 'order_b': alt})
            if r['violates']:
                r['request'] = {'kind': 'interleaving_case', 'programs': progs, 'order_a': base, 'order_b': alt}
                return {'tried': tried, 'bound': 'directed two-thread programs, sequential vs alternating order', 'found': r, 'violates': True, 'what': r['what']}
    # one thread's call spans a long stretch of another thread's records
    long_progs = {'5': [list(pool[4]), list(pool[5])], '6': [['MACH_SCHED', 0, [1, 2, 3, 4], None]] * 70000}
    base = ['5', '5'] + ['6'] * 70000
    alt = ['5'] + ['6'] * 70000 + ['5']
    tried += 1
    r = do_interleaving_case({'programs': long_progs, 'order_a': base, 'order_b': alt})
    if r['violates']:
        r = {'violates': True, 'what': 'a call of thread 5 that spans 70000 records of thread 6: ' + r['what'][:400],
             'request': {'kind': 'interleaving_search', 'budget': 0}}
        return {'tried': tried, 'bound': 'one call spanning 70000 records of another thread', 'found': r, 'violates': True, 'what': r['what']}
    while tried < budget:
        progs = {}
        for t in ('5', '6'):
            n = rnd.randint(1, 4)
            prog = []
            for _ in range(n):
                e = list(rnd.choice(pool))
                if e[2] is not None and e[0].startswith('TRACE_DATA'):
                    e[2] = [e[2][0] + int(t), e[2][1] + int(t), 0, 0]
                if e[3] is not None:
                    e[3] = e[3] + t
                prog.append(e)
            progs[t] = prog
        base = ['5'] * len(progs['5']) + ['6'] * len(progs['6'])
        orders = set(itertools.permutations(base))
        orders = list(orders)
        rnd.shuffle(orders)
        for o in orders[:6]:
            tried += 1
            r = do_interleaving_case({'programs': progs, 'order_a': base, 'order_b': list(o)})
            if r['violates']:
                r['request'] = {'kind': 'interleaving_case', 'programs': progs, 'order_a': base, 'order_b': list(o)}
                return {'tried': tried, 'bound': 'two threads, <= 4 events each, 6 interleavings per program pair', 'found': r, 'violates': True, 'what': r['what']}
    return {'tried': tried, 'bound': 'two threads, <= 4 events each, 6 interleavings per program pair', 'found': None}


HANDLERS.update({'interleaving_case': do_interleaving_case, 'interleaving_search': do_interleaving_search})


# ------------------------------------------------------------------------------ C08 refute mode
def _ev_raw(code, tid, q, data, ts=0):
    import struct
    from pykdebugparser.kevent import from_kd_buf
    return from_kd_buf(struct.pack('<Q32sQIIQ', ts, data, tid, (code & 0xfffffffc) | q, 0, 0))


def do_lookup_case(req):
    from pykdebugparser.traces_parser import TracesParser
    from spec import chunks as S
    codes = _cached_codes()
    inv = {v: k for k, v in codes.items()}
    kind, text = req['what'], req['text']
    between = req.get('between', [])          # positions (chunk index) after which an unrelated record is inserted
    tid = 5
    p = TracesParser(codes, {}, {})
    evs = []
    if kind == 'lookup':
        recs = S.enc_lookup(77, text)
        code = inv['VFS_LOOKUP']
        unrelated = lambda: _ev_raw(inv['MACH_SCHED'], tid, 0, b'JUNK' * 8)
        evs.append(_ev_raw(inv[req.get('syscall', 'BSC_access')], tid, 1, bytes(32)))
    elif kind == 'global':
        recs = S.enc_global_string(0, 9, text)
        code = inv['TRACE_STRING_GLOBAL']
        unrelated = lambda: _ev_raw(inv['TRACE_DATA_THREAD_TERMINATE'], tid, 0, b'JUNK' * 8)
    else:
        recs = S.enc_thread_name(text)
        code = inv['TRACE_STRING_THREADNAME']
        unrelated = lambda: _ev_raw(inv['TRACE_DATA_THREAD_TERMINATE'], tid, 0, b'JUNK' * 8)
    for i, (q, data) in enumerate(recs):
        evs.append(_ev_raw(code, tid, q, data))
        if i in between and i < len(recs) - 1:
            if req.get('pair'):
                # an unrelated START/END pair of the same thread (an interrupt taken between two chunks)
                evs.append(_ev_raw(inv['INTERRUPT'], tid, 1, bytes(32)))
                evs.append(_ev_raw(inv['INTERRUPT'], tid, 2, bytes(32)))
            else:
                evs.append(unrelated())
    if kind == 'lookup':
        evs.append(_ev_raw(inv[req.get('syscall', 'BSC_access')], tid, 2, bytes(32)))
    traces = []
    try:
        for e in evs:
            r = p.feed(e)
            if r is not None:
                traces.append(r)
                str(r)
    except BaseException as ex:  # noqa
        return {'violates': True, 'what': 'feeding the %d records of a %d-byte %s raised %s: %s' % (len(recs), len(text), kind, type(ex).__name__, ex)}
    cls = {'lookup': 'VfsLookup', 'global': 'TraceStringGlobal', 'name': 'TraceStringThreadname'}[kind]
    mine = [t for t in traces if type(t).__name__ == cls]
    got = [getattr(t, 'path', getattr(t, 'vstr', getattr(t, 'name', None))) for t in mine]
    what = ''
    if len(mine) != 1:
        what = '%d %s traces %r for one %d-byte text split over %d records (exactly one expected)' % (len(mine), cls, got, len(text), len(recs))
    elif got[0] != text:
        what = 'reassembled text %r differs from the original %r (%d records%s)' % (got[0], text, len(recs), ', unrelated records in between' if between else '')
    elif kind == 'lookup' and mine[0].vnode_id != 77:
        what = 'vnode id %r is not the first record\'s 77' % (mine[0].vnode_id,)
    elif kind == 'lookup':
        sysc = [t for t in traces if type(t).__name__.startswith('Bsc')]
        if len(sysc) != 1 or ('"%s"' % text) not in str(sysc[0]):
            what = 'the enclosing syscall shows %r, not the looked-up path %r' % ([str(x) for x in sysc], text)
    elif kind == 'global' and (p.global_strings.get(9, '') != text or 0 in p.global_strings):
        what = 'global string table %r after announcing id 9 = %r' % (p.global_strings, text)
    elif kind == 'name' and p.tids_names.get(tid, '') != text:
        what = 'thread name table %r after naming thread %d %r' % (p.tids_names, tid, text)
    return {'violates': bool(what), 'what': what, 'records': len(recs)}


def do_multi_lookup_case(req):
    """a path-taking syscall window holding n complete lookups of distinct paths: the quoted paths the decoder shows are
    the first lookups of the window in order (only in increasing lookup order for contracts.decoders.C08_ORDER_ONLY)"""
    import re
    from pykdebugparser.traces_parser import TracesParser
    from spec import chunks as S
    from contracts.decoders import C08_ORDER_ONLY
    codes = _cached_codes()
    inv = {v: k for k, v in codes.items()}
    name, n, tid = req['decoder'], req['n'], 5
    paths = ['/dir%d/file%d' % (i, i) for i in range(n)]
    import struct
    out = None
    # argument words: the first choice every enum parameter of the decoder accepts (a word outside the range a decoder names
    # is not an input the property speaks about)
    for word in (0, 1, 2, 4):
        p = TracesParser(codes, {}, {})
        evs = [_ev_raw(inv[name], tid, 1, struct.pack('<QQQQ', word, word, word, word))]
        for i, pth in enumerate(paths):
            for q, data in S.enc_lookup(100 + i, pth):
                evs.append(_ev_raw(inv['VFS_LOOKUP'], tid, q, data))
        evs.append(_ev_raw(inv[name], tid, 2, bytes(32)))
        out = None
        try:
            for e in evs:
                r = p.feed(e)
                if r is not None and type(r).__name__ != 'VfsLookup':
                    out = str(r)
            break
        except ValueError as ex:
            if ' is not a valid ' in str(ex):
                continue
            return {'violates': True, 'what': '%s with %d lookups in its window raised %s: %s' % (name, n, type(ex).__name__, ex)}
        except BaseException as ex:  # noqa
            return {'violates': True, 'what': '%s with %d lookups in its window raised %s: %s' % (name, n, type(ex).__name__, ex)}
    if out is None:
        return {'violates': False, 'note': 'no trace'}
    shown = [q for q in re.findall(r'"([^"]*)"', out) if q in paths]
    if name in C08_ORDER_ONLY:
        pos = [paths.index(q) for q in shown]
        bad = pos != sorted(set(pos))
    else:
        bad = shown != paths[:len(shown)]
    return {'violates': bad, 'text': out,
            'what': '%s with the %d lookups %r in its window shows the paths %r: not the looked-up paths in lookup order (%s)' % (name, n, paths, shown, out) if bad else ''}


def do_lookup_search(req):
    import random
    rnd = random.Random(req.get('seed', 0))
    budget = req.get('budget', 400)
    tried = 0
    if req.get('decoder'):
        for n in range(0, 7):
            tried += 1
            r = do_multi_lookup_case({'decoder': req['decoder'], 'n': n})
            if r['violates']:
                r['request'] = {'kind': 'multi_lookup_case', 'decoder': req['decoder'], 'n': n}
                return {'tried': tried, 'bound': '0..6 complete lookups in the window of %s' % req['decoder'], 'found': r, 'violates': True, 'what': r['what']}
    lens = sorted(set([0, 1, 15, 16, 17, 23, 24, 25, 31, 32, 33, 47, 48, 49, 55, 56, 57, 63, 64, 65, 87, 88, 89, 120, 183, 184]))
    plan = []
    for kind, maxlen in (('lookup', 184), ('global', 184), ('name', 64)):
        for n in lens:
            if n <= maxlen:
                plan.append((kind, n, [], False))
                plan.append((kind, n, [0], False))
                plan.append((kind, n, [0, 1, 2, 3, 4], False))
                if kind == 'lookup':
                    plan.append((kind, n, [0], True))
    rnd.shuffle(plan)
    plan.sort(key=lambda x: 0 if not x[2] else 1)
    for kind, n, between, pair in plan[:budget]:
        text = ''.join(chr(97 + (i % 26)) for i in range(n))
        if kind == 'lookup' and n:
            text = '/' + text[1:]
        tried += 1
        r = do_lookup_case({'what': kind, 'text': text, 'between': between, 'pair': pair})
        if r['violates']:
            r['request'] = {'kind': 'lookup_case', 'what': kind, 'text': text, 'between': between, 'pair': pair}
            return {'tried': tried, 'bound': 'texts of the boundary lengths 0..184, with/without unrelated same-thread records between the chunks',
                    'found': r, 'violates': True, 'what': r['what']}
    return {'tried': tried, 'bound': 'texts of the boundary lengths 0..184, with/without unrelated same-thread records between the chunks', 'found': None,
            'violates': False}


HANDLERS.update({'lookup_case': do_lookup_case, 'lookup_search': do_lookup_search, 'multi_lookup_case': do_multi_lookup_case})


# ------------------------------------------------------------------------------ sampled conformance of assumed contracts
def do_conf_bytes(req):
    """byte-string algebra used by C08: strip0 distributes over +, identity on NUL-free strings, erases zero padding;
    decode(encode(text)) == text"""
    import random
    rnd = random.Random(req.get('seed', 0))
    strip0 = lambda b: b.replace(b'\x00', b'')
    mism = []
    n = req.get('n', 2000)
    for _ in range(n):
        a = bytes(rnd.choice([0, 0, 65, 66, 0xc3, 0xa9, 47]) for _ in range(rnd.randint(0, 40)))
        b = bytes(rnd.choice([0, 97, 98]) for _ in range(rnd.randint(0, 40)))
        if strip0(a + b) != strip0(a) + strip0(b):
            mism.append(('distribute', a.hex(), b.hex()))
        if 0 not in a and strip0(a) != a:
            mism.append(('identity', a.hex()))
        if strip0(bytes(len(b))) != b'':
            mism.append(('zeros', len(b)))
        t = ''.join(rnd.choice('ab/é漢') for _ in range(rnd.randint(0, 20)))
        if t.encode().decode() != t:
            mism.append(('roundtrip', t))
    return {'samples': n, 'mismatches': mism[:5]}


def do_conf_bisect(req):
    import bisect
    import random
    rnd = random.Random(req.get('seed', 0))
    mism = []
    n = req.get('n', 2000)
    for _ in range(n):
        lst = sorted(rnd.randint(0, 30) for _ in range(rnd.randint(0, 8)))
        x = rnd.randint(-1, 31)
        i = bisect.bisect(lst, x)
        if not (0 <= i <= len(lst) and all(v <= x for v in lst[:i]) and all(v > x for v in lst[i:])):
            mism.append(('bisect', lst, x, i))
        l2 = list(lst)
        p = rnd.randint(0, len(lst))
        l2.insert(p, 99)
        if not (len(l2) == len(lst) + 1 and l2[p] == 99 and l2[:p] == lst[:p] and l2[p + 1:] == lst[p:]):
            mism.append(('insert', lst, p))
    return {'samples': n, 'mismatches': mism[:5]}


HANDLERS.update({'conf_bytes': do_conf_bytes, 'conf_bisect': do_conf_bisect})


def do_log_segment_case(req):
    from pykdebugparser.os_log_event import OsLogEvent
    strings = {0: 'msg', 1: 'proc', 2: 'img', 3: 'sub'}
    seg = req['segment']
    try:
        out = OsLogEvent.parse_decomposed_segment(seg, strings)
    except BaseException as ex:  # noqa
        return {'violates': True, 'what': 'decoding the message segment %r raised %s: %s' % (seg, type(ex).__name__, ex)}
    exp_keys = set()
    if 'lp' in seg:
        exp_keys.add('literal_prefix')
    if 'p' in seg:
        exp_keys.add('placeholder')
    if 'a' in seg:
        exp_keys.add('arg')
    if set(out) != exp_keys:
        return {'violates': True, 'what': 'segment %r decoded to %r' % (seg, out), 'decoded': repr(out)}
    # the argument's fields, written from the property: each key present appears with its value ("present" is key presence:
    # 0 and string index 0 are values), the per-category fields under the category / availability the format names
    if 'a' in seg:
        a = seg['a']
        want = {}
        for rk, fk in (('a', 'availability'), ('p', 'privacy'), ('c', 'category')):
            if rk in a:
                want[fk] = a[rk]
        if a.get('c') == 1:
            for rk, fk in (('sc', 'scalar_category'), ('st', 'scalar_type')):
                if rk in a:
                    want[fk] = a[rk]
        if 'or' in a and a.get('a', 3) == 3:
            want['object_representation'] = strings[a['or']] if a.get('c') == 2 else a['or']
        if out.get('arg') != want:
            return {'violates': True, 'what': 'the argument %r of a message segment decoded to %r, its fields say %r' % (a, out.get('arg'), want),
                    'decoded': repr(out)}
    return {'violates': False, 'what': '', 'decoded': repr(out)}


def do_log_segment_search(req):
    import itertools
    tried = 0
    for keys in itertools.chain.from_iterable(itertools.combinations(('a', 'p', 'c', 'sc', 'st', 'or'), n) for n in range(7)):
        for val in (0, 1, 2, 3):
            a = {k: (val if k != 'a' else (3 if val else 0)) for k in keys}
            tried += 1
            rq = {'kind': 'log_segment_case', 'segment': {'a': a}}
            r = do_log_segment_case(rq)
            if r['violates']:
                return {'tried': tried, 'bound': 'every subset of the argument keys x values 0..3', 'found': dict(r, request=rq)}
    return {'tried': tried, 'bound': 'every subset of the argument keys x values 0..3', 'found': None}


HANDLERS.update({'log_segment_case': do_log_segment_case, 'log_segment_search': do_log_segment_search})


# ------------------------------------------------------------------------------ frame condition: module-level state
HISTORY_WORDS = [((3, 0x80, 0x80, 0x1000), (0, 2 ** 64 - 1, 0, 0)), ((3, 0x80, 0x80, 0x1000), (0, 0x1000, 0, 0)),
                 ((1, 2, 3, 4), (0, 1, 0, 0)), ((0x80, 0x80, 0x80, 0x80), (35, 5, 0, 0)), ((7, 7, 7, 7), (0, 0x80, 0, 0))]


def do_history_texts(req):
    """decode one sample window per decoder and word combination, each with a fresh TracesParser, in the given order:
    {window id: [texts]} - any dependence on the order comes from state kept outside the parser objects"""
    import struct
    from pykdebugparser.traces_parser import TracesParser
    codes = _cached_codes()
    inv = {v: k for k, v in codes.items()}
    probe = TracesParser(codes, {}, {})
    names = sorted(n for n in probe.handlers if n in inv)
    if req.get('names'):
        names = [n for n in names if n in req['names']]
    jobs = [(n, k) for n in names for k in range(len(HISTORY_WORDS))]
    if req.get('order') == 'reverse':
        jobs.reverse()
    out = {}
    for n, k in jobs:
        sv, ev = HISTORY_WORDS[k]
        p = TracesParser(codes, {}, {})
        texts = []
        for q, vals in ((1, sv), (2, ev), (0, sv)):
            try:
                r = p.feed(_ev_raw(inv[n], 5, q, struct.pack('<QQQQ', *vals)))
                if r is not None:
                    texts.append(str(r))
            except BaseException as ex:  # noqa
                texts.append('raised %s' % type(ex).__name__)
        out['%s#%d' % (n, k)] = texts
    return {'texts': out}


def do_history_case(req):
    """every sample window must decode to the same text after all the other windows have been decoded in the process
    as it does in an interpreter that decodes that decoder's windows only"""
    import json
    import subprocess
    from concurrent.futures import ThreadPoolExecutor

    def child(names, order='forward'):
        p = subprocess.run([sys.executable, os.path.join(os.path.dirname(os.path.abspath(__file__)), 'native.py')],
                           input=json.dumps({'kind': 'history_texts', 'order': order, 'names': names}), capture_output=True, text=True,
                           timeout=600, env=dict(os.environ))
        return json.loads(p.stdout.strip().splitlines()[-1])['texts']
    if req.get('window'):
        n = req['window'].split('#')[0]
        names = [n]
        seasoned = child(req.get('names'), req.get('order', 'forward'))
    else:
        seasoned = child(req.get('names'))
        names = sorted(set(k.split('#')[0] for k in seasoned))
    for order in (['forward', 'reverse'] if not req.get('window') else [req.get('order', 'forward')]):
        if order == 'reverse':
            seasoned = child(req.get('names'), 'reverse')
        with ThreadPoolExecutor(16) as ex:
            fresh = list(ex.map(lambda n: child([n]), names))
        for n, fr in zip(names, fresh):
            for k in sorted(fr):
                if fr[k] != seasoned.get(k):
                    return {'violates': True, 'window': k, 'order': order,
                            'what': 'the window %s decodes to %r in an interpreter that decoded nothing else, and to %r after the sample windows of the other '
                                    'decoders have been decoded: state kept outside the parser objects leaks between decodes' % (k, fr[k], seasoned.get(k))}
    return {'violates': False, 'windows': len(seasoned)}


HANDLERS.update({'history_texts': do_history_texts, 'history_case': do_history_case})


# ------------------------------------------------------------------------------ seek_until refute mode (C03 / C06)
def do_seek_case(req):
    from pykdebugparser.kd_buf_parser import seek_until
    data = bytes.fromhex(req['data'])
    pat = bytes.fromhex(req['pattern'])
    start = req.get('start', 0)
    r = _BudgetReader(data, 8 * len(data) + 200)
    r.seek(start)
    first = data.find(pat, start)
    try:
        seek_until(r, pat)
        pos = r.tell()
    except EOFError:
        pos = None
    except (TimeoutError, BudgetExceeded) as ex:
        return {'violates': True, 'what': 'seek_until does not stop on %d bytes: %s' % (len(data), ex)}
    except BaseException as ex:  # noqa
        return {'violates': True, 'what': 'seek_until raised %s: %s' % (type(ex).__name__, ex)}
    want = None if first < 0 else first + len(pat)
    bad = pos != want
    return {'violates': bad, 'what': 'a %d-byte pattern first occurs at offset %s of a %d-byte stream (search from %d): the stream is left at %s, expected %s'
                                     % (len(pat), first if first >= 0 else None, len(data), start, pos, want) if bad else ''}


def do_seek_search(req):
    pats = [b'stackshot_out_fl', bytes.fromhex('1e00000000000000'), bytes.fromhex('1d00000000000000')]
    tried = 0
    bases = [0, 1, 7, 8, 15, 16, 17, 100]
    for blk in (512, 1024, 4096, 8192, 65536):
        for k in (1, 2):
            bases += list(range(blk * k - 20, blk * k + 3))
    for pat in pats:
        for off in sorted(set(b for b in bases if b >= 0)):
            for filler in (b'\x01', pat[:1], pat[:-1]):
                body = (filler * (off // len(filler) + 1))[:off]
                if body.find(pat) >= 0 or (body + pat).find(pat) != off:
                    continue
                data = body + pat + b'\x02' * 40
                tried += 1
                r = do_seek_case({'data': data.hex(), 'pattern': pat.hex()})
                if r['violates']:
                    r['request'] = {'kind': 'seek_case', 'data': data.hex(), 'pattern': pat.hex()}
                    return {'tried': tried, 'bound': 'patterns at offsets around 0 and multiples of 512..65536, three fillers', 'found': r}
        # absent pattern: EOFError expected
        for n in (0, 5, 4096, 4100):
            tried += 1
            data = b'\x01' * n
            r = do_seek_case({'data': data.hex(), 'pattern': pat.hex()})
            if r['violates']:
                r['request'] = {'kind': 'seek_case', 'data': data.hex(), 'pattern': pat.hex()}
                return {'tried': tried, 'bound': 'patterns at offsets around 0 and multiples of 512..65536, three fillers', 'found': r}
    return {'tried': tried, 'bound': 'patterns at offsets around 0 and multiples of 512..65536, three fillers', 'found': None}


HANDLERS.update({'seek_case': do_seek_case, 'seek_search': do_seek_search})


# ------------------------------------------------------------------------------ C18 replays (names are Darwin's)
def do_errno_text_case(req):
    import struct
    from pykdebugparser.traces_parser import TracesParser
    codes = _cached_codes()
    inv = {v: k for k, v in codes.items()}
    p = TracesParser(codes, {}, {})
    p.feed(_ev_raw(inv['BSC_sys_close'], 5, 1, struct.pack('<QQQQ', 3, 0, 0, 0)))
    t = p.feed(_ev_raw(inv['BSC_sys_close'], 5, 2, struct.pack('<QQQQ', req['code'], 0, 0, 0)))
    text = str(t)
    want = 'errno: %s(%d)' % (req['want'], req['code']) if req.get('want') else 'errno: %d' % req['code']
    return {'violates': want not in text, 'text': text, 'what': 'close() failing with error %d reads %r, Darwin names it %r' % (req['code'], text, want)}


def do_named_parameter_case(req):
    import struct
    from pykdebugparser.traces_parser import TracesParser
    from spec import darwin
    codes = _cached_codes()
    inv = {v: k for k, v in codes.items()}
    table = getattr(darwin, req['table'])
    for value, nm in sorted(table.items()):
        p = TracesParser(codes, {}, {})
        vals = [1, 1, 0, 0]
        vals[req['position']] = value
        try:
            p.feed(_ev_raw(inv[req['decoder']], 5, 1, struct.pack('<QQQQ', *vals)))
            t = p.feed(_ev_raw(inv[req['decoder']], 5, 2, struct.pack('<QQQQ', 0, 3, 0, 0)))
            text = str(t)
        except BaseException as ex:  # noqa
            return {'violates': True, 'what': '%s with parameter %d = %d raised %s' % (req['decoder'], req['position'], value, type(ex).__name__)}
        if nm not in text:
            return {'violates': True, 'text': text, 'what': '%s with parameter %d = %d reads %r, Darwin names the value %s' % (req['decoder'], req['position'], value, text, nm)}
    return {'violates': False}


HANDLERS.update({'errno_text_case': do_errno_text_case, 'named_parameter_case': do_named_parameter_case})


def do_fault_record_case(req):
    import struct
    from pykdebugparser.traces_parser import TracesParser
    codes = _cached_codes()
    inv = {v: k for k, v in codes.items()}
    p = TracesParser(codes, {}, {})
    vals = (0x7000, (0x21 << 16) | (3 << 8) | 2, 0x4000, 321)
    t = p.feed(_ev_raw(inv[req['name']], 5, 0, struct.pack('<QQQQ', *vals)))
    got = {k: getattr(t, k, None) for k in ('vaddr', 'user_tag', 'offset', 'pid')}
    want = {'vaddr': 0x7000, 'user_tag': 0x21, 'offset': 0x4000, 'pid': 321}
    return {'violates': got != want, 'what': '%s with the arguments %r decodes to %r, the kernel logs %r' % (req['name'], vals, got, want)}


HANDLERS['fault_record_case'] = do_fault_record_case


def do_headless_window_case(req):
    """a dump that starts in the middle of an operation: single records and bare END records of the decoder's code, through
    formatted_traces with and without filters"""
    import io
    import struct
    from spec import container as S
    from pykdebugparser.pykdebugparser import PyKdebugParser
    inv = {v: k for k, v in _cached_codes().items()}
    name = req['decoder']
    # argument words: the first choice that every enum parameter of the decoder accepts (a word outside the range a decoder names
    # is not an input the property speaks about)
    for words in ((77, 0x61626364, 0, 0), (0, 0, 0, 0), (1, 1, 1, 1), (2, 2, 2, 2), (4, 4, 4, 4)):
        recs = []
        for i, q in enumerate((0, 2, 3, 1, 2)):
            recs.append(struct.pack('<Q32sQIIQ', 10 + i, struct.pack('<QQQQ', *words), 5, inv[name] | q, 0, 0))
        data = S.build_v2([(5, 10, 'proc')], 0, recs)
        out_of_domain = False
        for cfg in ({}, {'filter_class': [inv[name] >> 24]}, {'filter_process': 'proc'}):
            p = PyKdebugParser()
            p.color = False
            for k, v in cfg.items():
                setattr(p, k, v)
            try:
                list(p.formatted_traces(io.BytesIO(data)))
            except ValueError as ex:
                if ' is not a valid ' in str(ex):
                    out_of_domain = True
                    break
                return {'violates': True, 'what': 'formatted_traces%s over a dump that begins with headless %s records raised %s: %s' % (
                    ' with %r' % cfg if cfg else '', name, type(ex).__name__, ex)}
            except BaseException as ex:  # noqa
                return {'violates': True, 'what': 'formatted_traces%s over a dump that begins with headless %s records raised %s: %s' % (
                    ' with %r' % cfg if cfg else '', name, type(ex).__name__, ex)}
        if not out_of_domain:
            return {'violates': False}
    return {'violates': False, 'note': 'no argument words in the range of every enum parameter found'}


HANDLERS['headless_window_case'] = do_headless_window_case


# ------------------------------------------------------------------------------ refute searches behind unsupported constructs
def do_kd_buf_search(req):
    """C01: structured and random 64-byte records against the kd_buf layout (spec/kdebug.py)"""
    import random
    import struct
    from pykdebugparser.kevent import from_kd_buf
    rnd = random.Random(req.get('seed', 0))
    recs = [bytes(64), b'\xff' * 64]
    # bytes that text-oriented helpers treat specially: ASCII whitespace, NUL-terminated prefixes, quotes, digits, high bytes
    for fill in (b' ', b'\t', b'\n', b'\r', b'\x0b', b'\x0c', b'0', b'"', b'\x7f', b'\x80', b'a'):
        recs.append(fill * 64)
        recs.append(bytes(8) + fill * 32 + bytes(24))
        recs.append(b'\x01' * 8 + (fill * 7 + b'\x00') * 4 + b'\x02' * 24)
    recs.append(bytes(8) + b' \t\n\r\x0b\x0c' * 5 + b'  ' + bytes(24))
    for i in range(512):
        b = bytearray(64)
        b[i // 8] |= 1 << (i % 8)
        recs.append(bytes(b))
        recs.append(bytes(x ^ 0xff for x in b))
    for _ in range(req.get('budget', 2000)):
        b = bytearray(rnd.getrandbits(8) for _ in range(64))
        for lo, hi in ((48, 52), (52, 56), (0, 8), (40, 48), (8, 40)):
            if rnd.random() < 0.25:
                b[lo:hi] = bytes(hi - lo)
        recs.append(bytes(b))
    tried = 0
    for b in recs:
        tried += 1
        ts, data, tid, dbg, cpu, un = struct.unpack('<Q32sQIIQ', b)
        want = {'timestamp': ts, 'data': data, 'values': struct.unpack('<QQQQ', data), 'tid': tid, 'debugid': dbg, 'eventid': dbg & 0xfffffffc,
                'func_qualifier': dbg & 3}
        try:
            e = from_kd_buf(b)
        except BaseException as ex:  # noqa
            return {'tried': tried, 'found': {'violates': True, 'request': {'kind': 'kd_buf_case', 'record': b.hex()},
                                              'what': 'from_kd_buf raised %s on the 64-byte record %s' % (type(ex).__name__, b.hex())}}
        got = {k: getattr(e, k, None) for k in want}
        if got != want:
            k = next(k for k in want if got[k] != want[k])
            return {'tried': tried, 'found': {'violates': True, 'request': {'kind': 'kd_buf_case', 'record': b.hex()},
                                              'what': 'record %s decodes with %s = %r, its bytes say %r' % (b.hex(), k, got[k], want[k])}}
    return {'tried': tried, 'found': None}


def do_kd_buf_case(req):
    r = do_kd_buf_search({'budget': 0})
    import struct
    from pykdebugparser.kevent import from_kd_buf
    b = bytes.fromhex(req['record'])
    ts, data, tid, dbg, cpu, un = struct.unpack('<Q32sQIIQ', b)
    try:
        e = from_kd_buf(b)
    except BaseException as ex:  # noqa
        return {'violates': True, 'what': 'from_kd_buf raised %s' % type(ex).__name__}
    bad = (e.timestamp, e.data, e.tid, e.debugid, e.eventid, e.func_qualifier) != (ts, data, tid, dbg, dbg & 0xfffffffc, dbg & 3)
    return {'violates': bad, 'what': 'decoded %r' % (e,) if bad else ''}


def do_flags_search(req):
    """C11: every flag decoder over single bits, zero, all ones and mixed words against spec/darwin.py (relaxed for field
    values the headers do not define, as the contract is)"""
    import random
    from spec import darwin
    sys.path.insert(0, os.path.dirname(os.path.dirname(os.path.abspath(__file__))))
    from contracts import flags as C
    rnd = random.Random(req.get('seed', 0))
    words = [0, (1 << 64) - 1, (1 << 32) - 1, 1 << 31, (1 << 31) | 1, 0x80000001] + [1 << i for i in range(64)] + [rnd.getrandbits(64) for _ in range(60)] \
        + [rnd.getrandbits(20) for _ in range(60)]
    tried = 0
    for mod, fn, ecls, tname, fname, zero in C.FUNCTIONS:
        if req.get('functions') and fn not in req['functions']:
            continue
        f = _resolve('pykdebugparser.trace_handlers.' + mod, fn)
        tbl = getattr(darwin, tname)
        fields = getattr(darwin, fname) if fname else None
        fmask = fields['mask'] if fields else 0
        for w in words:
            tried += 1
            try:
                names = [m.name for m in f(w)]
            except BaseException as ex:  # noqa
                return {'tried': tried, 'found': {'violates': True, 'request': {'kind': 'flags', 'module': 'pykdebugparser.trace_handlers.' + mod, 'func': fn, 'word': w,
                                                                                'probe': {'raises': False}},
                                                  'what': '%s(%#x) raised %s' % (fn, w, type(ex).__name__)}}
            declared = {m.name: m.value for m in _resolve('pykdebugparser.trace_handlers.' + mod, ecls).__members__.values()}
            for n, v in declared.items():
                if tbl.get(n) != v:
                    return {'tried': tried, 'found': {'violates': True, 'request': {'kind': 'flags_case', 'function': fn, 'word': w},
                                                      'what': '%s.%s = %#x, Darwin defines %r' % (ecls, n, v, tbl.get(n))}}
                if n in C.MASK_NAMES or (fmask and v & fmask) or v == 0 or v & (v - 1):
                    continue
                if bool(w & v) != (n in names):
                    return {'tried': tried, 'found': {'violates': True, 'request': {'kind': 'flags_case', 'function': fn, 'word': w},
                                                      'what': '%s(%#x) = %r: %s (%#x) is %s' % (fn, w, names, n, v, 'set but not shown' if w & v else 'shown but not set')}}
            if zero is not None:
                any_bit = any(v and not v & (v - 1) and w & v for v in declared.values())
                if (zero in names) and any_bit:
                    return {'tried': tried, 'found': {'violates': True, 'request': {'kind': 'flags_case', 'function': fn, 'word': w},
                                                      'what': '%s(%#x) = %r shows the zero name %s although declared bits are set' % (fn, w, names, zero)}}
    import struct
    from pykdebugparser.traces_parser import TracesParser
    codes = _cached_codes()
    inv = {v: k for k, v in codes.items()}
    for dname, field, widx, mod, ecls, tname in C.INLINE:
        if dname not in inv:
            continue
        declared = {m.name: m.value for m in _resolve('pykdebugparser.trace_handlers.' + mod, ecls).__members__.values()}
        for n, v in declared.items():
            if not v or v & (v - 1):
                continue
            for w in (v, v | 1, (1 << 32) - 1):
                tried += 1
                vals = [3, 0x7000, 16, 0]
                vals[widx] = w
                p = TracesParser(codes, {}, {})
                try:
                    p.feed(_ev_raw(inv[dname], 5, 1, struct.pack('<QQQQ', *vals)))
                    t = p.feed(_ev_raw(inv[dname], 5, 2, struct.pack('<QQQQ', 0, 16, 0, 0)))
                    names = [getattr(m, 'name', str(m)) for m in getattr(t, field)]
                except BaseException as ex:  # noqa
                    return {'tried': tried, 'found': {'violates': True, 'request': {'kind': 'flags_search'},
                                                      'what': '%s with %s word %#x raised %s' % (dname, field, w, type(ex).__name__)}}
                if n not in names:
                    return {'tried': tried, 'found': {'violates': True, 'request': {'kind': 'flags_search'},
                                                      'what': '%s with the %s word %#x shows %r: %s (%#x) is set but not shown' % (dname, field, w, names, n, v)}}
    return {'tried': tried, 'found': None}


def do_arg_fidelity_search(req):
    """C09 refute mode: for the given decoders the call part is a function of the START record alone: decoding the same START
    with two different END records must give the same text up to the closing parenthesis of the call"""
    import struct
    from pykdebugparser.traces_parser import TracesParser
    codes = _cached_codes()
    inv = {v: k for k, v in codes.items()}
    starts = [(0x1111111111, 0x2222222222, 0x3333333333, 0x4444444444), (3, 0x7000, 128, 0xffffffffffffffff), (1 << 63, 1, (1 << 64) - 1, 5)]
    ends = [(0, 0x7777777777, 0x8888888888, 0x9999999999), (0, 5, 6, 7), (0, 0, 0, 0)]
    tried = 0

    def call_part(name, sv, ev):
        p = TracesParser(codes, {}, {})
        p.feed(_ev_raw(inv[name], 5, 1, struct.pack('<QQQQ', *sv)))
        t = p.feed(_ev_raw(inv[name], 5, 2, struct.pack('<QQQQ', *ev)))
        text = str(t) if t is not None else ''
        if '(' not in text:
            return text, text
        depth = 0
        for i, ch in enumerate(text):
            depth += ch == '('
            depth -= ch == ')'
            if ch == ')' and depth == 0:
                return text[:i + 1], text
        return text, text
    import re
    for name in req['decoders']:
        if name not in inv or not (name.startswith('BSC_') or name.startswith('MSC_')):
            continue            # the property speaks about system calls and Mach traps rendered as name(p0, p1, ...)
        for sv in starts:
            parts = []
            for ev in ends:
                tried += 1
                try:
                    parts.append(call_part(name, sv, ev))
                except BaseException:  # noqa
                    parts.append((None, None))
            seen = [p for p in parts if p[0] is not None and re.match(r'^\w+\(', p[1] or '')]
            if len(set(p[0] for p in seen)) > 1:
                return {'tried': tried, 'found': {'violates': True, 'request': {'kind': 'arg_fidelity_search', 'decoders': [name]},
                                                  'what': '%s: with the same START record %r the call part depends on the END record: %r' % (
                                                      name, sv, sorted(set(p[1] for p in seen)))}}
    return {'tried': tried, 'found': None}


HANDLERS.update({'kd_buf_search': do_kd_buf_search, 'kd_buf_case': do_kd_buf_case, 'flags_search': do_flags_search,
                 'arg_fidelity_search': do_arg_fidelity_search})


def do_lookup_robustness_case(req):
    """a stream of individually well-formed records (lookup records and system calls of one or two threads, in any
    order) through the trace pipeline and str(): nothing may raise"""
    import io
    import struct
    from pykdebugparser.traces_parser import TracesParser
    from pykdebugparser.pykdebugparser import PyKdebugParser
    from spec import container as S
    codes = _cached_codes()
    inv = {v: k for k, v in codes.items()}
    evs = []
    for name, tid, q, text in req['stream']:
        data = text.encode().ljust(32, b'\0')[:32] if name in ('VFS_LOOKUP', 'TRACE_STRING_GLOBAL') else struct.pack('<QQQQ', 0, 3, 0, 0)
        evs.append(_ev_raw(inv[name], tid, q, data))
    p = TracesParser(codes, {}, {})
    try:
        for t in p.feed_generator(iter(evs)):
            str(t)
    except BaseException as ex:  # noqa
        return {'violates': True, 'what': 'feeding %d well-formed records %s raised %s: %s' % (
            len(evs), [(n, q) for n, _, q, _ in req['stream']], type(ex).__name__, ex)}
    return {'violates': False}


def do_lookup_robustness_search(req):
    import random
    rnd = random.Random(req.get('seed', 0))
    tried = 0
    texts = ['/a', '/private/var/tmp/some/file', 'x' * 32, 'abcdefgh' * 4, '']
    directed = [[('VFS_LOOKUP', 5, 0, '/a')], [('VFS_LOOKUP', 5, 2, '/a')], [('VFS_LOOKUP', 5, 0, 'x' * 32), ('VFS_LOOKUP', 5, 2, 'y')],
                [('BSC_open', 5, 1, ''), ('VFS_LOOKUP', 5, 0, 'mid'), ('VFS_LOOKUP', 5, 2, 'end'), ('BSC_open', 5, 2, '')],
                [('BSC_open', 5, 1, ''), ('VFS_LOOKUP', 5, 2, 'end'), ('VFS_LOOKUP', 5, 2, 'end'), ('BSC_open', 5, 2, '')],
                [('BSC_open', 5, 1, ''), ('VFS_LOOKUP', 5, 1, 'abcdefgh' * 4), ('BSC_open', 5, 2, '')],
                [('BSC_open', 5, 2, '')], [('TRACE_STRING_GLOBAL', 5, 0, 'abcdefgh' * 4)], [('TRACE_STRING_GLOBAL', 5, 2, 'abcdefgh' * 4)],
                [('TRACE_STRING_GLOBAL', 5, 1, 'abcdefgh' * 4), ('TRACE_STRING_GLOBAL', 5, 2, 'abcdefgh' * 4)]]
    for st in directed:
        tried += 1
        rq = {'kind': 'lookup_robustness_case', 'stream': [list(x) for x in st]}
        r = do_lookup_robustness_case(rq)
        if r['violates']:
            return {'tried': tried, 'bound': 'directed streams', 'found': dict(r, request=rq)}
    while tried < req.get('budget', 400):
        n = rnd.randint(1, 7)
        st = []
        for _ in range(n):
            name = rnd.choice(['VFS_LOOKUP', 'VFS_LOOKUP', 'BSC_open', 'BSC_stat64', 'TRACE_STRING_GLOBAL'])
            st.append([name, rnd.choice([5, 5, 6]), rnd.choice([0, 1, 2, 3]) if name != 'BSC_open' else rnd.choice([1, 2]), rnd.choice(texts)])
        tried += 1
        rq = {'kind': 'lookup_robustness_case', 'stream': st}
        r = do_lookup_robustness_case(rq)
        if r['violates']:
            return {'tried': tried, 'bound': '<= 7 records, 2 threads, lookup / string / system-call records with every qualifier', 'found': dict(r, request=rq)}
    return {'tried': tried, 'bound': '<= 7 records, 2 threads, lookup / string / system-call records with every qualifier', 'found': None}


HANDLERS.update({'lookup_robustness_case': do_lookup_robustness_case, 'lookup_robustness_search': do_lookup_robustness_search})


def do_darwin_names_search(req):
    """the names shown for error numbers and for the parameters Darwin names, against spec/darwin.py (refute mode)"""
    from contracts.decoders import C18_NAMED_PARAMETERS, C18_TABLES
    from spec import darwin
    tried = 0
    for code, nm in sorted(darwin.ERRNO.items()):
        tried += 1
        rq = {'kind': 'errno_text_case', 'code': code, 'want': nm}
        try:
            r = do_errno_text_case(rq)
        except BaseException as ex:  # noqa
            r = {'violates': True, 'what': 'close() failing with error %d raised %s' % (code, type(ex).__name__)}
        if r['violates']:
            return {'tried': tried, 'bound': 'every Darwin errno, every named parameter value', 'found': dict(r, request=rq)}
    for (name, k), cname in sorted(C18_NAMED_PARAMETERS.items()):
        tried += 1
        rq = {'kind': 'named_parameter_case', 'decoder': name, 'position': k, 'table': C18_TABLES[cname]}
        try:
            r = do_named_parameter_case(rq)
        except BaseException as ex:  # noqa
            continue
        if r['violates']:
            return {'tried': tried, 'bound': 'every Darwin errno, every named parameter value', 'found': dict(r, request=rq)}
    return {'tried': tried, 'bound': 'every Darwin errno, every named parameter value', 'found': None}


HANDLERS['darwin_names_search'] = do_darwin_names_search


def do_window_order_case(req):
    """C04: the trace a decoder returns carries the delivered window itself - the records from the START up to the END in
    stream order - also when timestamps run backwards and unrelated records lie in between"""
    import struct
    from pykdebugparser.traces_parser import TracesParser
    codes = _cached_codes()
    inv = {v: k for k, v in codes.items()}
    name = req['decoder']
    text = b'name'.ljust(32, b'\0')
    shapes = {'retrograde pair': [(name, 1, 900), (name, 2, 100)],
              'pair with a nested record': [(name, 1, 900), ('MACH_vmfault', 0, 500), (name, 2, 100)],
              'single': [(name, 0, 50)], 'single flagged both': [(name, 3, 50)]}
    for label, recs in shapes.items():
        p = TracesParser(codes, {}, {})
        evs = [_ev_raw(inv[n], 5, q, text if n.startswith('TRACE_STRING') else struct.pack('<QQQQ', 1, 2, 3, 4), ts=ts) for n, q, ts in recs]
        t = None
        try:
            for e in evs:
                t = p.feed(e)
        except BaseException:  # noqa
            continue            # totality is C07's clause
        if t is None or not hasattr(t, 'ktraces'):
            continue
        kt = list(t.ktraces)
        want = evs if recs[0][1] in (1,) else evs[-1:]
        # decoders of multi-record strings keep only the records of their own code: an order-preserving selection that
        # still begins with the first and ends with the last delivered record
        pos, ok = 0, True
        for a in kt:
            while pos < len(want) and want[pos] is not a:
                pos += 1
            if pos == len(want):
                ok = False
                break
            pos += 1
        if not ok or not kt or kt[0] is not want[0] or kt[-1] is not want[-1]:
            return {'violates': True, 'what': '%s (%s): the trace carries the records with timestamps %s, the delivered window is %s in stream order' % (
                name, label, [e.timestamp for e in kt], [e.timestamp for e in want])}
    return {'violates': False}


HANDLERS['window_order_case'] = do_window_order_case
