"""Path exploration by re-execution (DFS over recorded branch decisions), path condition,
obligations, and the per-path trail used for if-merging."""
import time
import z3

from .values import Trail, Mutable, Unsupported


class Restart(Exception):
    """restart the exploration (e.g. a merge site must be forked instead)."""


class PathAbort(Exception):
    """path pruned (infeasible or assumed away)."""


class PathCut(Exception):
    """path deliberately ended (e.g. after the inductive step of a loop rule); its obligations count."""


class Obligation:
    __slots__ = ('name', 'pc', 'goal', 'info', 'kind')

    def __init__(self, name, pc, goal, info=None, kind='post'):
        self.name = name
        self.pc = list(pc)
        self.goal = goal
        self.info = info or {}
        self.kind = kind


class Stats:
    def __init__(self):
        self.solver_calls = 0
        self.solver_ms = 0.0
        self.paths = 0


STATS = Stats()


_sat_cache = {}


def check_sat(formulas, timeout_ms=5000):
    """sat / unsat / unknown for a conjunction (memoised: paths are explored by re-execution, so the same
    queries recur; the formulas are kept alive with the entry so that ast ids stay unique)."""
    key = (tuple(sorted(f.get_id() for f in formulas)), timeout_ms)
    hit = _sat_cache.get(key)
    if hit is not None:
        return hit[0], None
    r, s = _check_sat(formulas, timeout_ms)
    if r != z3.unknown or timeout_ms >= 4000:
        _sat_cache[key] = (r, list(formulas))
    return r, s


def _check_sat(formulas, timeout_ms=5000):
    s = z3.Solver()
    s.set('timeout', timeout_ms)
    for f in formulas:
        s.add(f)
    t0 = time.time()
    r = s.check()
    STATS.solver_calls += 1
    STATS.solver_ms += (time.time() - t0) * 1000
    return r, s


_qcache = {}


def _has_quantifier(t):
    k = t.get_id()
    if k in _qcache:
        return _qcache[k]
    seen = set()
    stack = [t]
    res = False
    while stack:
        x = stack.pop()
        if x.get_id() in seen:
            continue
        seen.add(x.get_id())
        if z3.is_quantifier(x):
            res = True
            break
        stack.extend(x.children())
    _qcache[k] = res
    return res


class PathCtx:
    """state of the path currently being executed."""

    def __init__(self, explorer, decisions):
        self.explorer = explorer
        self.decisions = list(decisions)
        self.idx = 0
        self.pc = []
        self.facts = []            # unscoped facts about fresh constants (ranges); never weakened by merging
        self.ranges = {}           # z3 ast id -> (term, lo, hi): ranges declared together with a fact
        self.assumptions = []      # named assumptions (in-domain premises) added to pc
        self.obligations = []      # Obligation objects emitted on this path
        self.discharged_sites = [] # raise sites proved unreachable on this path: (site, kind, ms)
        self.trail = Trail()
        self.fresh_counter = 0
        self.notes = {}
        self.consumed_gens = []
        self.nomerge_scope = 0

    def fresh(self, prefix):
        self.fresh_counter += 1
        return '%s!%d' % (prefix, self.fresh_counter)

    def assume(self, f, name=None):
        self.pc.append(f)
        if name:
            self.assumptions.append((name, f))

    def declare_range(self, t, lo, hi):
        """fact lo <= t <= hi about a fresh constant / total function application."""
        self.facts.append(z3.And(t >= lo, t <= hi))
        self.ranges[t.get_id()] = (t, lo, hi)

    def full_pc(self):
        return self.facts + self.pc

    def feasible(self, f, careful=False):
        """may the path continue under f?  Quantified hypotheses are left out (solvers rarely answer sat
        on them): that over-approximates feasibility, so at worst an infeasible path is explored."""
        allf = self.facts + self.pc + [f]
        fs = [g for g in allf if not _has_quantifier(g)]
        r, _ = check_sat(fs, self.explorer.feas_timeout)
        if r == z3.unsat:
            return False
        if len(fs) == len(allf) or not careful:
            return True
        # a raise site that the quantifier-free hypotheses do not exclude: try to refute it with all hypotheses
        # (refutations are fast when they exist), first with a short, then with a real budget
        r2, _ = check_sat(allf, 400)
        if r2 == z3.unknown:
            r2, _ = check_sat(allf, 6000)
        return r2 != z3.unsat

    def branch(self, cond, careful=False):
        """decide a symbolic condition (z3 Bool) on this path; returns Python bool."""
        cond = z3.simplify(cond)
        if z3.is_true(cond):
            return True
        if z3.is_false(cond):
            return False
        if self.idx < len(self.decisions):
            d = self.decisions[self.idx]
            self.idx += 1
            self.pc.append(cond if d else z3.Not(cond))
            return d
        ft = self.feasible(cond, careful)
        ff = self.feasible(z3.Not(cond))
        if not ft and not ff:
            raise PathAbort('infeasible path')
        if ft and ff:
            self.explorer.pending.append(self.decisions + [False])
            d = True
        else:
            d = ft
        self.decisions.append(d)
        self.idx += 1
        self.pc.append(cond if d else z3.Not(cond))
        return d

    def oblige(self, name, goal, info=None, kind='post'):
        self.obligations.append(Obligation(name, self.facts + self.pc, goal, info, kind))


class PathResult:
    def __init__(self, ctx, outcome, value=None, exc=None):
        self.pc = list(ctx.facts) + list(ctx.pc)
        self.branch_pc = list(ctx.pc)      # decisions and assumptions only (without the facts about fresh symbols)
        self.assumptions = list(ctx.assumptions)
        self.obligations = ctx.obligations
        self.discharged_sites = ctx.discharged_sites
        self.outcome = outcome      # 'return' | 'raise'
        self.value = value
        self.exc = exc
        self.decisions = list(ctx.decisions)
        self.notes = ctx.notes


class Explorer:
    def __init__(self, max_paths=4096, feas_timeout=4000):
        self.max_paths = max_paths
        self.feas_timeout = feas_timeout
        self.pending = []
        self.nomerge_sites = set()
        self.cur = None

    def explore(self, thunk):
        """thunk(ctx) runs the program once from scratch under ctx and returns its value
        (or raises PyExc).  Returns list[PathResult]."""
        from .values import PyExc
        return self._explore(thunk, PyExc)

    def _explore(self, thunk, PyExc):
        self.pending = [[]]
        results = []
        while self.pending:
            decisions = self.pending.pop()
            mark = len(self.pending)
            ctx = PathCtx(self, decisions)
            self.cur = ctx
            Mutable.trail = ctx.trail
            try:
                v = thunk(ctx)
                results.append(PathResult(ctx, 'return', value=v))
            except Restart:
                # a merge site turned out not to be mergeable: only this path is re-run (the site now forks);
                # alternatives this attempt had queued are dropped, the re-run queues them again
                del self.pending[mark:]
                self.pending.append(list(decisions))
                continue
            except PyExc as e:
                results.append(PathResult(ctx, 'raise', exc=e))
            except PathCut:
                results.append(PathResult(ctx, 'cut'))
            except PathAbort:
                pass
            finally:
                Mutable.trail = None
                self.cur = None
                # module-level objects (and shared default arguments) go back to their state before the path: every
                # path starts from the repository's import state
                from .values import GLOBAL_OBJS
                for g_ in ctx.consumed_gens:
                    g_.consumed = False
                for idx in range(len(ctx.trail.log) - 1, -1, -1):
                    obj, key, old = ctx.trail.log[idx]
                    if id(obj) in GLOBAL_OBJS and idx not in ctx.trail.loading:
                        try:
                            obj._loc_set_raw(key, old)
                        except Exception:  # noqa
                            pass
            STATS.paths += 1
            if len(results) + len(self.pending) > self.max_paths:
                raise Unsupported('path explosion (> %d paths)' % self.max_paths)
        return results
