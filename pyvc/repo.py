"""Loads the real source of /repo as ASTs and evaluates module top levels with the interpreter.

What extraction drops (and nothing else): comments, docstrings, type annotations, decorators other than
@dataclass/@staticmethod/@classmethod/@property (click decorators of the CLI commands), the
`if __name__ == '__main__'` guard, and module-level assignments whose right-hand side is outside the
subset (recorded in Repo.dropped; a function under contract that then reads such a name is Unsupported).
"""
import ast
import hashlib
import os

from .values import ModuleVal, Frame, FuncVal, Unsupported, PyExc, MISSING, ClassVal, LOADING, register_global, WRITTEN_GLOBALS, GLOBAL_OBJS, DROPPED


class Unknown:
    def __init__(self, why):
        self.why = why

    def __repr__(self):
        return 'Unknown(%s)' % self.why


class HostOpaque:
    """module-level value computed from a host module (errno/signal/socket) that extraction could not
    evaluate: everything read from it is a host symbol."""

    def __init__(self, name):
        self.name = name


class Repo:
    def __init__(self, root='/repo', pkg='pykdebugparser'):
        self.root = root
        self.pkg = pkg
        self.modules = {}
        self.hashes = {}
        self.dropped = []
        self.interp = None
        self.extra_paths = {}     # module name -> file path (spec modules from /verif/spec)

    def file_of(self, name):
        if name in self.extra_paths:
            return self.extra_paths[name]
        parts = name.split('.')
        p = os.path.join(self.root, *parts)
        if os.path.isdir(p):
            return os.path.join(p, '__init__.py')
        return p + '.py'

    def is_source_module(self, name):
        return name == self.pkg or name.startswith(self.pkg + '.') or name in self.extra_paths

    def import_module(self, name):
        if name in self.modules:
            return self.modules[name]
        if not self.is_source_module(name):
            m = self.interp.lib.stub_module(self.interp, name)
            self.modules[name] = m
            return m
        path = self.file_of(name)
        src = open(path, 'rb').read()
        self.hashes[os.path.relpath(path, self.root) if path.startswith(self.root) else path] = hashlib.sha256(src).hexdigest()
        tree = ast.parse(src, filename=path)
        m = ModuleVal(name)
        m.path = path
        m.tree = tree
        m.frame = Frame({'$module': m, '__name__': name, '__file__': path})
        m.ns = m.frame.vars
        self.modules[name] = m
        for fn in ast.walk(tree):
            if isinstance(fn, (ast.FunctionDef, ast.AsyncFunctionDef)):
                for st in ast.walk(fn):
                    if isinstance(st, ast.Global):
                        for nm in st.names:
                            WRITTEN_GLOBALS.add((name, nm))
        LOADING[0] += 1
        try:
            self.exec_module(m)
        finally:
            LOADING[0] -= 1
        if name.startswith(self.pkg):
            GLOBAL_OBJS[id(m.frame)] = ('%s.<module variables>' % name, m.frame)
            for k, v in list(m.ns.items()):
                if k.startswith('$') or k.startswith('__'):
                    continue
                register_global('%s.%s' % (name, k), v)
                if isinstance(v, ClassVal) and getattr(v, 'module', None) is m:
                    for a, av in list(v.attrs.items()):
                        register_global('%s.%s.%s' % (name, k, a), av)
        return m

    def module_attr(self, mod, name):
        if name in mod.ns:
            return mod.ns[name]
        if mod.kind == 'repo':
            # submodule import: from pkg import sub
            sub = mod.name + '.' + name
            if os.path.exists(self.file_of(sub)):
                return self.import_module(sub)
        return self.interp.lib.getattr_(self.interp, mod, name, None)

    def exec_module(self, m):
        it = self.interp
        for s in m.tree.body:
            try:
                if isinstance(s, ast.If) and _is_main_guard(s):
                    continue
                if isinstance(s, ast.Expr) and isinstance(s.value, ast.Constant):
                    continue
                if isinstance(s, ast.FunctionDef):
                    f = FuncVal(s, m)
                    f.decorators = s.decorator_list
                    m.ns[s.name] = f
                    continue
                it.exec_stmt(s, m.frame)
            except (Unsupported, PyExc) as e:
                names = _assigned_names(s)
                self.dropped.append((m.name, getattr(s, 'lineno', 0), names, str(e)))
                if m.name.startswith(self.pkg) and (m.name, getattr(s, 'lineno', 0)) not in [(x[0], x[1]) for x in DROPPED]:
                    DROPPED.append((m.name, getattr(s, 'lineno', 0), names, str(e)))
                tainted = self._mentions_host(s, m)
                for n in names:
                    m.ns[n] = HostOpaque('%s.%s' % (m.name.split('.')[-1], n)) if tainted else Unknown(str(e))

    def _mentions_host(self, stmt, m):
        for n in ast.walk(stmt):
            if isinstance(n, ast.Name) and n.id in m.ns:
                v = m.ns[n.id]
                if isinstance(v, HostOpaque):
                    return True
                if isinstance(v, ModuleVal) and v.ns.get('$host'):
                    return True
                if getattr(v, 'kind', None) == 'host-enum':
                    return True
        return False

    def func(self, qual):
        """'pykdebugparser.kevent:from_kd_buf' or 'mod:Class.method' -> FuncVal"""
        modname, _, path = qual.partition(':')
        m = self.import_module(modname)
        v = m.ns.get(path.split('.')[0], MISSING)
        for part in path.split('.')[1:]:
            v = v.lookup(part)
        if v is MISSING:
            raise KeyError(qual)
        return v


def _is_main_guard(s):
    t = s.test
    return (isinstance(t, ast.Compare) and isinstance(t.left, ast.Name) and t.left.id == '__name__')


def _assigned_names(s):
    out = []
    if isinstance(s, ast.Assign):
        for t in s.targets:
            for n in ast.walk(t):
                if isinstance(n, ast.Name):
                    out.append(n.id)
    elif isinstance(s, (ast.ClassDef, ast.FunctionDef)):
        out.append(s.name)
    return out
