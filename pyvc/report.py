"""Collecting verdicts, replays, known findings, evidence and exit codes."""
import fnmatch
import json
import os
import re
import subprocess
import sys
import time

VERIF = os.path.dirname(os.path.dirname(os.path.abspath(__file__)))
NATIVE_PY = '/venv/bin/python'
REPO = os.environ.get('PYVC_REPO', '/repo')


def sanitize(name):
    return re.sub(r'[^A-Za-z0-9_.@-]+', '_', name)[:150]


def native(request, timeout=120):
    """run a request in the child interpreter that has the repository's dependencies."""
    env = dict(os.environ)
    env['PYTHONPATH'] = REPO + os.pathsep + VERIF
    env['PYVC_REPO'] = REPO
    try:
        p = subprocess.run([NATIVE_PY, os.path.join(VERIF, 'pyvc', 'native.py')], input=json.dumps(request),
                           capture_output=True, text=True, timeout=timeout, env=env, cwd=REPO)
    except subprocess.TimeoutExpired:
        return {'error': 'native child timed out after %ss' % timeout, 'timeout': True}
    if p.returncode != 0 and not p.stdout.strip():
        return {'error': 'native child failed', 'stderr': p.stderr[-2000:]}
    try:
        return json.loads(p.stdout.strip().splitlines()[-1])
    except Exception:
        return {'error': 'bad native output', 'stdout': p.stdout[-2000:], 'stderr': p.stderr[-2000:]}


class Run:
    def __init__(self, pid, tier='quick', seed=0, level='proof'):
        self.pid = pid
        self.tier = tier
        self.seed = seed
        self.level = level
        self.t0 = time.time()
        self.obligations = []
        self.violations = []
        self.undecided = []
        self.engine_errors = []
        self.known_printed = []
        self.bounded = []
        self.assumptions = []
        self.trusted = []
        self.functions = {}
        self.samples = []
        self.extra = {}
        self.known = load_known(pid)
        self.solver_ms = 0.0
        self.hashes = {}
        self.global_writes = {}     # shipped back by worker processes
        self.dropped = []           # module-level statements dropped in worker processes
        self.native_replays = 0     # replays of decoder refutations are capped per run (the rest is reported without a replayed input)
        os.makedirs(os.path.join(VERIF, 'replays', pid), exist_ok=True)

    # ---------------------------------------------------------------- recording
    def add(self, name, status, backend='', ms=0.0, function=None, detail='', kind='post'):
        self.obligations.append({'name': name, 'status': status, 'backend': backend, 'ms': round(ms, 2),
                                 'function': function, 'detail': detail, 'kind': kind})
        self.solver_ms += ms
        if function:
            self.functions.setdefault(function, 0)
            self.functions[function] += 1

    def known_for(self, obname):
        out = []
        for k in self.known:
            if k.get('status') == 'fixed':
                continue
            if fnmatch.fnmatchcase(obname, k['obligation']):
                out.append(k)
        return out

    def violation(self, obname, replay, reproduced, what=''):
        """a refuted obligation. replay: dict written to the replay file."""
        path = os.path.join(VERIF, 'replays', self.pid, sanitize(obname) + '.json')
        replay = dict(replay)
        replay.update({'property': self.pid, 'obligation': obname, 'reproduced_natively': bool(reproduced)})
        with open(path, 'w') as f:
            json.dump(replay, f, indent=1, default=str)
        ks = self.known_for(obname)
        matched = None
        for k in ks:
            sel = k.get('match')
            if sel is None or _match_sel(sel, replay):
                matched = k
                break
        if matched is not None:
            line = 'KNOWN-FINDING: property=%s %s' % (self.pid, matched['what'])
            if line not in self.known_printed:
                self.known_printed.append(line)
            return path
        if not any(v[0] == obname and v[3] == what for v in self.violations):
            self.violations.append((obname, path, reproduced, what))
        return path

    def undecide(self, obname, why):
        self.undecided.append((obname, why))

    def engine_error(self, why):
        self.engine_errors.append(why)

    # ---------------------------------------------------------------- finish
    def frame_obligation(self):
        """frame condition behind every per-function analysis: the functions under contract write no module- or
        class-level state of the repository (pyvc.values.GLOBAL_WRITES logs such writes on every explored path).  A write is
        not a refutation by itself (a complete-key cache is harmless): the native history search decides; without a failing
        history the property is undecided, because the analysis in isolation is no longer justified."""
        from . import values
        if not values.GLOBAL_OBJS and not self.global_writes:
            return
        writes = dict(values.GLOBAL_WRITES)
        writes.update(self.global_writes)
        for k, v in values.GLOBAL_READS.items():
            writes['read of the rebindable module variable ' + k] = v
        name = '%s/frame/no-module-level-state-is-written' % self.pid
        fn = 'every function executed under contract'
        if not writes:
            self.add(name, 'proved', 'write tracking on every explored path (%d registered containers)' % len(values.GLOBAL_OBJS), 0, fn, kind='frame')
            return
        what = 'module-level state written while decoding: %s' % ', '.join(sorted(writes))
        out = native({'kind': 'api_history_case'}, timeout=900)
        req = {'kind': 'api_history_case'}
        if not out.get('violates'):
            out = native({'kind': 'history_case'}, timeout=900)
            req = {'kind': 'history_case', 'window': out.get('window'), 'order': out.get('order')}
        if out.get('violates'):
            self.add(name, 'refuted', 'write tracking + native history search', 0, fn, what, kind='frame')
            self.violation(name, {'request': req, 'native': out, 'solver_output': what}, True, what=out.get('what', ''))
        else:
            self.add(name, 'unknown', 'write tracking', 0, fn, what, kind='frame')
            self.undecide(name, what + ' (no failing history found: the per-function analysis assumes state-free functions)')

    def extraction_obligation(self):
        """the verified text is the code that runs only if every module-level statement of the repository was interpreted: a
        dropped statement (construct outside the subset) may have built part of a table, so the run is undecided"""
        from . import values
        dropped = [list(d) for d in values.DROPPED]
        for d in self.dropped:
            if d not in dropped:
                dropped.append(d)
        name = '%s/extraction/every-module-level-statement-interpreted' % self.pid
        if getattr(self, '_extraction_done', False):
            return
        self._extraction_done = True
        if not values.GLOBAL_OBJS and not dropped:
            return
        if not dropped:
            self.add(name, 'proved', 'module loader', 0, 'module top levels of the repository', kind='extraction')
        else:
            why = '; '.join('%s line %s (%s)' % (d[0], d[1], d[3]) for d in dropped[:5])
            self.add(name, 'unsupported', 'module loader', 0, 'module top levels of the repository', why, kind='extraction')
            self.undecide(name, 'module-level statements outside the subset were dropped: ' + why)
            # what was refuted on an incomplete model of the modules (a dropped statement may have built or patched a table)
            # and does not reproduce on the real code is undecided, not a violation
            keep = []
            for v in self.violations:
                if v[2]:
                    keep.append(v)
                    continue
                self.undecide(v[0], 'refuted on an incomplete model of the module (dropped module-level statement) and not reproduced on the real code')
                for o in self.obligations:
                    if o['name'] == v[0] and o['status'] == 'refuted':
                        o['status'] = 'unsupported'
            self.violations = keep

    def finish(self, checker_cmd=None):
        try:
            self.extraction_obligation()
        except Exception as ex:  # noqa
            self.engine_error('extraction obligation crashed: %r' % (ex,))
        try:
            self.frame_obligation()
        except Exception as ex:  # noqa
            self.engine_error('frame obligation crashed: %r' % (ex,))
        # obligations of an open, listed finding are reported separately (they are proved outside the finding's class
        # by their sibling obligations); the proof count is over everything else
        n = sum(1 for o in self.obligations if o['status'] != 'known-finding')
        proved = sum(1 for o in self.obligations if o['status'] == 'proved')
        wall = time.time() - self.t0
        code = 0
        if n == 0:
            self.engine_errors.append('no obligations were generated (vacuous run)')
        for line in self.known_printed:
            print(line)
        for obname, path, reproduced, what in self.violations:
            tail = '' if reproduced else ' no-failing-input-found'
            print('VIOLATION property=%s replay=%s obligation=%s%s%s' % (
                self.pid, path, obname, (' ' + what) if what else '', tail))
        for obname, why in self.undecided:
            print('UNDECIDED property=%s obligation=%s %s' % (self.pid, obname, why))
        for e in self.engine_errors:
            print('ENGINE-ERROR property=%s %s' % (self.pid, e))
        if any(v[2] for v in self.violations):
            code = 1        # a failing input replayed on the real code stands whatever else went wrong in the run
        elif self.engine_errors:
            code = 3
        elif self.violations:
            code = 1
        elif self.undecided:
            code = 2
        known_ob = sum(1 for o in self.obligations if o['status'] == 'known-finding')
        ev = {
            'property_id': self.pid, 'tier': self.tier, 'seed': self.seed, 'level': self.level,
            'coverage': {
                'obligations': n,
                'discharged': proved,
                'known_finding_obligations': known_ob,
                'checker_cmd': checker_cmd or ('python3-vt check.py %s --tier %s' % (self.pid, self.tier)),
                'trusted_base': self.trusted,
                'functions_under_contract': sorted(self.functions),
                'solver_ms_total': round(self.solver_ms, 1),
                'backends': sorted(set(o['backend'] for o in self.obligations if o['backend'])),
                'samples': self.samples[:12] or [o for o in self.obligations[:5]],
                'per_obligation': self.obligations if n <= 400 else self.obligations[:400],
                'per_obligation_truncated': n > 400,
                'bounded_standins': self.bounded,
                'known_findings_reported': self.known_printed,
                'source_sha256': self.hashes,
                'explanation': self.extra.get('explanation', ''),
            },
            'assumptions': self.assumptions,
            'wall_s': round(wall, 2),
            'violations': len(self.violations),
        }
        ev['coverage'].update({k: v for k, v in self.extra.items() if k != 'explanation'})
        evdir = os.environ.get('PYVC_EVIDENCE_DIR') or os.path.join(VERIF, 'evidence')
        os.makedirs(evdir, exist_ok=True)
        with open(os.path.join(evdir, self.pid + '.json'), 'w') as f:
            json.dump(ev, f, indent=1, default=str)
        print('%s: %d obligations, %d proved, %d known-finding, %d violations, %d undecided, %.1fs (exit %d)' % (
            self.pid, n, proved, known_ob, len(self.violations), len(self.undecided), wall, code))
        return code


def _match_sel(sel, replay):
    """selector: dict of key -> expected value looked up in the replay record (dotted paths)."""
    for k, v in sel.items():
        cur = replay
        for part in k.split('.'):
            if isinstance(cur, dict) and part in cur:
                cur = cur[part]
            else:
                cur = None
                break
        if cur != v:
            return False
    return True


def load_known(pid):
    path = os.path.join(VERIF, 'known_findings.json')
    if not os.path.exists(path):
        return []
    data = json.load(open(path))
    return [k for k in data.get('findings', []) if k.get('property') == pid]
