"""Discharging obligations: z3 (API) first, cvc5 / z3-4.8 CLIs through SMT-LIB2 on unknown or, in the
thorough tier, on every obligation.  Every call has a timeout.  Verdicts: proved / refuted / unknown."""
import os
import subprocess
import tempfile
import time
import z3

CVC5 = '/usr/bin/cvc5'
Z3OLD = '/usr/bin/z3'


class Verdict:
    __slots__ = ('status', 'model', 'ms', 'backend', 'detail')

    def __init__(self, status, model=None, ms=0.0, backend='z3', detail=''):
        self.status = status
        self.model = model
        self.ms = ms
        self.backend = backend
        self.detail = detail


def _solver(timeout_ms, seed=0):
    s = z3.Solver()
    s.set('timeout', timeout_ms)
    if seed:
        s.set('random_seed', seed)
    return s


def to_smt2(formulas):
    s = z3.Solver()
    for f in formulas:
        s.add(f)
    txt = s.to_smt2()
    return '(set-logic ALL)\n' + txt


def run_cli(cmd, smt2, timeout_s):
    with tempfile.NamedTemporaryFile('w', suffix='.smt2', delete=False) as f:
        f.write(smt2)
        path = f.name
    try:
        t0 = time.time()
        try:
            out = subprocess.run(cmd + [path], capture_output=True, text=True, timeout=timeout_s + 5).stdout
        except subprocess.TimeoutExpired:
            return 'unknown', (time.time() - t0) * 1000
        first = out.strip().splitlines()[0].strip() if out.strip() else 'unknown'
        if first not in ('sat', 'unsat'):
            first = 'unknown'
        return first, (time.time() - t0) * 1000
    finally:
        os.unlink(path)


def cvc5_check(formulas, timeout_s=20):
    smt2 = to_smt2(formulas)
    return run_cli([CVC5, '--tlimit=%d' % (timeout_s * 1000), '--lang=smt2'], smt2, timeout_s)


def z3old_check(formulas, timeout_s=20):
    smt2 = to_smt2(formulas)
    return run_cli([Z3OLD, '-T:%d' % timeout_s], smt2, timeout_s)


def prove(pc, goal, timeout_ms=20000, tier='quick', want_model=True):
    """is (and pc) => goal valid?  A conjunction is split into one query per conjunct."""
    parts = None
    if z3.is_and(goal) and goal.num_args() > 1:
        parts = goal.children()
    elif z3.is_not(goal) and z3.is_or(goal.arg(0)) and goal.arg(0).num_args() > 1:
        parts = [z3.Not(c) for c in goal.arg(0).children()]
    if parts:
        total = Verdict('proved', None, 0.0, '')
        backends = set()
        for c in parts:
            v = prove(pc, c, timeout_ms, tier, want_model)
            total.ms += v.ms
            backends.add(v.backend)
            if v.status != 'proved':
                v.ms = total.ms
                return v
        total.backend = '; '.join(sorted(backends))
        return total
    return prove1(pc, goal, timeout_ms, tier, want_model)


_proved_cache = {}


def prove1(pc, goal, timeout_ms=20000, tier='quick', want_model=True):
    """memoised on (hypotheses, goal): paths explored by re-execution re-emit the obligations stated before a fork"""
    key = (tuple(sorted(f.get_id() for f in pc)), goal.get_id(), tier)
    hit = _proved_cache.get(key)
    if hit is not None:
        return Verdict('proved', None, 0.0, hit[0])
    v = _prove1(pc, goal, timeout_ms, tier, want_model)
    if v.status == 'proved':
        _proved_cache[key] = (v.backend, list(pc), goal)
    return v


def _prove1(pc, goal, timeout_ms=20000, tier='quick', want_model=True):
    if z3.is_false(z3.simplify(goal)):
        # the goal is plainly false: it is refuted as soon as the hypotheses are satisfiable; solvers rarely answer sat
        # on quantified hypotheses, so decide satisfiability on their quantifier-free part (a superset of models)
        from .paths import _has_quantifier
        qf = [f for f in pc if not _has_quantifier(f)]
        t0 = time.time()
        s0 = _solver(min(timeout_ms, 5000))
        s0.add(*qf)
        r0 = s0.check()
        if r0 == z3.sat and len(qf) == len(pc):
            return Verdict('refuted', s0.model(), (time.time() - t0) * 1000, 'z3-5.1')
        if r0 == z3.sat:
            return Verdict('refuted', s0.model(), (time.time() - t0) * 1000, 'z3-5.1 (quantifier-free part of the hypotheses)',
                           detail='goal is False and the quantifier-free hypotheses are satisfiable')
        if r0 == z3.unsat:
            return Verdict('proved', None, (time.time() - t0) * 1000, 'z3-5.1 (hypotheses contradictory)')
    fs = list(pc) + [z3.Not(goal)]
    t0 = time.time()
    # first with the quantifier-free hypotheses only (fewer hypotheses: a proof from them is a proof from all);
    # quantified layout facts that the goal does not need otherwise distract the solver for tens of seconds
    from .paths import _has_quantifier
    qf = [f for f in pc if not _has_quantifier(f)]
    if len(qf) != len(pc) and not _has_quantifier(goal):
        s1 = _solver(min(3000, timeout_ms))
        s1.add(*(qf + [z3.Not(goal)]))
        if s1.check() == z3.unsat:
            return Verdict('proved', None, (time.time() - t0) * 1000, 'z3-5.1 (from the quantifier-free hypotheses)') if tier != 'thorough' \
                else _second_opinion(Verdict('proved', None, (time.time() - t0) * 1000, 'z3-5.1'), qf + [z3.Not(goal)])
    s = _solver(timeout_ms)
    s.add(*fs)
    r = s.check()
    if r == z3.unknown:
        s = _solver(timeout_ms, seed=7)
        s.add(*fs)
        r = s.check()
    ms = (time.time() - t0) * 1000
    if r == z3.unsat:
        v = Verdict('proved', None, ms, 'z3-5.1')
        if tier == 'thorough':
            return _second_opinion(v, fs)
        return v
    return _after_z3(r, s, fs, ms, timeout_ms, tier, want_model)


def _second_opinion(v, fs):
    if True:
        if True:
            r2, ms2 = cvc5_check(fs, 60)
            v.ms += ms2
            if r2 == 'unsat':
                v.backend = 'z3-5.1+cvc5-1.0.3'
            elif r2 == 'sat':
                v.status = 'disagree'
                v.detail = 'z3 unsat, cvc5 sat'
            else:
                r3, ms3 = z3old_check(fs, 60)
                v.ms += ms3
                if r3 == 'unsat':
                    v.backend = 'z3-5.1+z3-4.8.12 (cvc5 unknown)'
                elif r3 == 'sat':
                    v.status = 'disagree'
                    v.detail = 'z3-5.1 unsat, z3-4.8.12 sat'
                else:
                    v.backend = 'z3-5.1 (cvc5, z3-4.8.12 unknown)'
        return v


def _after_z3(r, s, fs, ms, timeout_ms, tier, want_model):
    if r == z3.sat:
        return Verdict('refuted', s.model() if want_model else None, ms, 'z3-5.1')
    # unknown: other back ends
    budget = 8 if tier == 'quick' else max(10, timeout_ms // 1000)
    r2, ms2 = cvc5_check(fs, budget)
    if r2 == 'unsat':
        return Verdict('proved', None, ms + ms2, 'cvc5-1.0.3 (z3 unknown)')
    r3, ms3 = z3old_check(fs, budget)
    if r3 == 'unsat':
        return Verdict('proved', None, ms + ms2 + ms3, 'z3-4.8.12 (z3-5.1, cvc5 unknown)')
    if r2 == 'sat' or r3 == 'sat':
        return Verdict('refuted', None, ms + ms2 + ms3, 'cvc5/z3-4.8 (no model kept)', detail='sat without model')
    return Verdict('unknown', None, ms + ms2 + ms3, 'all', detail=str(s.reason_unknown()))


def satisfiable(fs, timeout_ms=10000):
    s = _solver(timeout_ms)
    s.add(*fs)
    r = s.check()
    return r, (s.model() if r == z3.sat else None)


def model_int(model, term, default=0):
    v = model.eval(term, model_completion=True)
    try:
        return v.as_long()
    except Exception:
        return default
