"""File / reader model for the dump parsers: a file is (Array Int -> byte, length N); a reader has a
position.  read(n) returns a slice of the file (FBytes) - never fabricated bytes - and advances by what
was actually available.  Assumed contract of io.BytesIO / file objects opened 'rb'."""
import z3

from .values import *  # noqa

I = z3.IntSort()
AII = z3.ArraySort(I, I)


class FileModel:
    def __init__(self, name, ctx):
        self.name = name
        self.F = z3.Const(name + '.bytes', AII)
        self.N = z3.Int(name + '.len')
        ctx.facts.append(self.N >= 0)

    def byte(self, i):
        # the i-th byte; `% 256` keeps every byte in 0..255 without a quantified range axiom
        return z3.Select(self.F, i) % 256

    def le(self, off, n):
        return z3.Sum([self.byte(off + k) * (1 << (8 * k)) for k in range(n)])


class FBytes:
    """bytes object that is the slice file[start : start+length] (length >= 0)"""

    def __init__(self, file, start, length):
        self.file = file
        self.start = z3.simplify(start) if not isinstance(start, int) else z3.IntVal(start)
        self.length = z3.simplify(length) if not isinstance(length, int) else z3.IntVal(length)

    def py_len(self, it):
        return mk_int(self.length)

    def py_truth(self, it):
        return self.length > 0

    def py_getitem(self, it, i, node=None):
        t = zi(i)
        it.raise_if(z3.Or(t >= self.length, t < -self.length), 'IndexError', 'bytes-index', node)
        return mk_int(self.file.byte(self.start + z3.If(t >= 0, t, self.length + t)))

    def slice(self, it, lo, hi):
        L = self.length

        def clamp(x, default):
            if x is None:
                return default
            t = zi(x)
            return z3.If(t < 0, z3.If(L + t < 0, 0, L + t), z3.If(t > L, L, t))
        a = clamp(lo, z3.IntVal(0))
        b = clamp(hi, L)
        n = z3.If(b - a > 0, b - a, 0)
        return FBytes(self.file, self.start + a, n)

    def equals_const(self, b):
        cs = [self.length == len(b)]
        for k, x in enumerate(b):
            cs.append(self.file.byte(self.start + k) == x)
        return z3.And(cs)

    def py_getattr(self, it, name, node=None):
        if name == 'decode':
            def decode(it_, a, k, n):
                it.raise_if(z3.Not(ValidText(self.file.F, self.start, self.length)), 'UnicodeDecodeError', 'decode', n)
                return atom_str(TextOf(self.file.F, self.start, self.length))
            return Builtin('bytes.decode', decode)
        raise Unsupported('method %s of a file slice' % name)


ValidText = z3.Function('file.valid_text', AII, I, I, z3.BoolSort())
TextOf = z3.Function('file.text', AII, I, I, I)


class Reader(Mutable):
    def __init__(self, file, pos=0):
        self.file = file
        self.pos = z3.IntVal(pos) if isinstance(pos, int) else pos
        self.reads = z3.IntVal(0)
        self.nbytes = z3.IntVal(0)     # ghost: bytes handed out by the stream (construct parsing)
        self.limit = None         # substream end (Prefixed), else file.N

    def _loc_get(self, key):
        return getattr(self, key)

    def _loc_set_raw(self, key, val):
        setattr(self, key, val)

    def end(self):
        return self.limit if self.limit is not None else self.file.N

    def read_n(self, it, n):
        """FBytes of what is available (<= n) and advance"""
        nt = zi(n)
        avail = self.end() - self.pos
        k = z3.If(nt <= avail, nt, z3.If(avail > 0, avail, 0))
        k = z3.simplify(z3.If(nt < 0, z3.If(avail > 0, avail, 0), k))
        ctx = it.ctx
        if ctx is not None and not z3.is_int_value(k):
            # when the path condition already guarantees that n bytes are left, the result has exactly n bytes
            from .paths import check_sat, _has_quantifier
            qf = [g for g in ctx.full_pc() if not _has_quantifier(g)]
            r, _ = check_sat(qf + [z3.Or(nt < 0, nt > avail)], 1500)
            if r == z3.unsat:
                k = z3.simplify(nt)
        b = FBytes(self.file, self.pos, k)
        self._write('pos', z3.simplify(self.pos + k))
        self._write('reads', z3.simplify(self.reads + 1))
        return b

    def py_getattr(self, it, name, node=None):
        if name == 'read':
            def read(it_, a, k, n):
                if not a or a[0] is None:
                    return self.read_n(it, -1)
                return self.read_n(it, a[0])
            return Builtin('reader.read', read)
        if name == 'seek':
            def seek(it_, a, k, n):
                off = zi(a[0])
                whence = a[1] if len(a) > 1 else 0
                if whence == 0:
                    it.raise_if(off < 0, 'ValueError', 'seek-negative', n)
                    self._write('pos', z3.simplify(off))
                elif whence == 1:
                    new = self.pos + off
                    it.raise_if(new < 0, 'OSError', 'seek-negative', n)
                    self._write('pos', z3.simplify(new))
                elif whence == 2:
                    self._write('pos', z3.simplify(self.file.N + off))
                else:
                    raise Unsupported('seek whence')
                return mk_int(self.pos)
            return Builtin('reader.seek', seek)
        if name == 'tell':
            return Builtin('reader.tell', lambda it_, a, k, n: mk_int(self.pos))
        raise Unsupported('reader method %s' % name)


def fbytes_concat(it, a, b):
    """a + b for file slices: supported when b starts where a ends (the common re-assembly pattern)"""
    if isinstance(a, FBytes) and isinstance(b, FBytes) and a.file is b.file:
        contiguous = z3.simplify(a.start + a.length == b.start)
        if z3.is_true(contiguous):
            return FBytes(a.file, a.start, a.length + b.length)
        # also fine when one of them is empty
        ctx = it.ctx
        from .paths import check_sat
        r, _ = check_sat(ctx.full_pc() + [z3.Not(z3.Or(a.start + a.length == b.start, b.length == 0, a.length == 0))], 3000)
        if r == z3.unsat:
            start = z3.If(a.length == 0, b.start, a.start)
            return FBytes(a.file, z3.simplify(start), a.length + b.length)
    raise Unsupported('concatenation of non-adjacent file slices')
