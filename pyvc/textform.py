"""Token-level structure of rendered text: flattening of conditional tokens, the `name(slots) tail`
shape of syscall renderings, variables mentioned by tokens."""
import z3

from .values import SStr, to_sstr


def flatten(text, limit=512):
    """[(conds:list[z3 Bool], toks:list)] -- 'cond' and 'pad'/'lower' wrappers expanded; join kept."""
    if isinstance(text, str):
        return [([], [('lit', text)])]
    alts = [([], [])]
    for tk in to_sstr(text).toks:
        if tk[0] == 'cond':
            a = flatten(tk[2], limit)
            b = flatten(tk[3], limit)
            new = []
            for cs, ts in alts:
                for ca, ta in a:
                    new.append((cs + [tk[1]] + ca, ts + ta))
                for cb, tb in b:
                    new.append((cs + [z3.Not(tk[1])] + cb, ts + tb))
            alts = new
        elif tk[0] == 'pad':
            inner = flatten(tk[1], limit)
            new = []
            for cs, ts in alts:
                for ci, ti in inner:
                    new.append((cs + ci, ts + [('padopen', tk[2], tk[3])] + ti + [('padclose',)]))
            alts = new
        elif tk[0] == 'lower':
            inner = flatten(tk[1], limit)
            new = []
            for cs, ts in alts:
                for ci, ti in inner:
                    new.append((cs + ci, ts + [('loweropen',)] + ti + [('lowerclose',)]))
            alts = new
        else:
            alts = [(cs, ts + [tk]) for cs, ts in alts]
        if len(alts) > limit:
            raise OverflowError('too many text alternatives')
    out = []
    for cs, ts in alts:
        out.append((cs, merge_lits(ts)))
    return out


def merge_lits(ts):
    out = []
    for tk in ts:
        if tk[0] == 'lit' and out and out[-1][0] == 'lit':
            out[-1] = ('lit', out[-1][1] + tk[1])
        elif tk[0] == 'lit' and tk[1] == '':
            continue
        else:
            out.append(tk)
    return out


def token_terms(tk):
    """z3 terms a token's text depends on (data), incl. guards of joins."""
    k = tk[0]
    if k in ('dec', 'hex', 'hexraw', 'atom'):
        return [tk[1]]
    if k == 'hexpad':
        return [tk[1]]
    if k in ('ename', 'flagname'):
        return [tk[2]]
    if k == 'join':
        out = []
        for g, s in tk[2]:
            if g is not True:
                out.append(g)
            for t2 in to_sstr(s).toks:
                out.extend(token_terms(t2))
        return out
    if k == 'opaque':
        out = []
        for a in tk[2]:
            if isinstance(a, z3.ExprRef):
                out.append(a)
            else:
                out.extend(value_terms(a))
        return out
    if k == 'cond':
        out = [tk[1]]
        for s in (tk[2], tk[3]):
            for t2 in to_sstr(s).toks:
                out.extend(token_terms(t2))
        return out
    if k in ('pad', 'lower'):
        out = []
        for t2 in to_sstr(tk[1]).toks:
            out.extend(token_terms(t2))
        return out
    return []


def value_terms(v):
    """z3 terms inside an arbitrary symbolic value (best effort, for dependence analyses)."""
    from .values import SInt, SBool, SOpt, SEnum, SBytes, OBytes, PList, Obj, SymList
    if isinstance(v, (SInt, SBool)):
        return [v.t]
    if isinstance(v, SEnum):
        return [v.t]
    if isinstance(v, OBytes):
        return [v.t]
    if isinstance(v, SStr):
        out = []
        for tk in v.toks:
            out.extend(token_terms(tk))
        return out
    if isinstance(v, SOpt):
        return [v.present] + value_terms(v.val)
    if isinstance(v, SBytes):
        out = []
        for e in v.elems:
            out.extend(value_terms(e))
        return out
    if isinstance(v, (tuple, list)):
        out = []
        for e in v:
            out.extend(value_terms(e))
        return out
    if isinstance(v, PList):
        out = []
        for g, e in v.items:
            if g is not True:
                out.append(g)
            out.extend(value_terms(e))
        return out
    if isinstance(v, SymList):
        return [v.length]
    if hasattr(v, 'args') and hasattr(v, 'kind'):   # OpaqueVal
        out = []
        for a in v.args:
            if isinstance(a, z3.ExprRef):
                out.append(a)
            else:
                out.extend(value_terms(a))
        return out
    return []


class CallShape:
    """name(slot0, slot1, ...)tail"""

    def __init__(self, name, slots, tail, ok=True, why=''):
        self.name = name
        self.slots = slots
        self.tail = tail
        self.ok = ok
        self.why = why


def split_call(toks):
    """split flat tokens at the first top-level '(' ... matching ')' ; slots at top-level ', '.
    Characters inside double quotes and inside /* */ do not count; non-literal tokens are opaque."""
    name = ''
    i = 0
    # name = leading literal up to '('
    if not toks or toks[0][0] != 'lit' or '(' not in toks[0][1]:
        return CallShape(None, [], toks, ok=False, why='text does not start with name(')
    first = toks[0][1]
    p = first.index('(')
    name = first[:p]
    rest = [('lit', first[p + 1:])] + list(toks[1:])
    slots = [[]]
    depth = 1
    inq = False
    incomment = False
    tail = None
    for ti, tk in enumerate(rest):
        if tk[0] != 'lit':
            slots[-1].append(('incomment', tk) if incomment else tk)
            continue
        s = tk[1]
        buf = ''
        j = 0
        while j < len(s):
            ch = s[j]
            if incomment:
                buf += ch
                if s.startswith('*/', j):
                    buf += '/'
                    j += 2
                    incomment = False
                    continue
                j += 1
                continue
            if inq:
                buf += ch
                if ch == '"':
                    inq = False
                j += 1
                continue
            if ch == '"':
                inq = True
                buf += ch
            elif s.startswith('/*', j):
                incomment = True
                buf += '/*'
                j += 2
                continue
            elif ch == '(':
                depth += 1
                buf += ch
            elif ch == ')':
                depth -= 1
                if depth == 0:
                    if buf:
                        slots[-1].append(('lit', buf))
                    tail = [('lit', s[j + 1:])] + list(rest[ti + 1:])
                    tail = merge_lits(tail)
                    if slots == [[]]:
                        slots = []
                    return CallShape(name, slots, tail)
                buf += ch
            elif depth == 1 and s.startswith(', ', j):
                if buf:
                    slots[-1].append(('lit', buf))
                buf = ''
                slots.append([])
                j += 2
                continue
            else:
                buf += ch
            j += 1
        if buf:
            slots[-1].append(('lit', buf))
    return CallShape(name, slots, [], ok=False, why='unbalanced parentheses')


def toks_repr(toks):
    out = []
    for tk in toks:
        if tk[0] == 'lit':
            out.append(tk[1])
        elif tk[0] in ('dec', 'hex', 'hexraw', 'atom'):
            out.append('<%s %s>' % (tk[0], str(tk[1]).replace('\n', ' ')[:80]))
        elif tk[0] == 'ename':
            out.append('<name %s(%s)>' % (tk[1].name, str(tk[2]).replace('\n', ' ')[:60]))
        elif tk[0] == 'join':
            out.append('<join %r of %d guarded>' % (tk[1], len(tk[2])))
        else:
            out.append('<%s>' % tk[0])
    return ''.join(out)
