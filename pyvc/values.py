"""Symbolic Python values used by the pyvc interpreter.

Concrete Python ints/bools/str/bytes/None/tuples stay native.  Everything that can be
symbolic or mutable has a class here.  Mutations of mutable values go through the
trail of the current path context so that an `if` can be executed on both sides and
merged (see interp.exec_if).
"""
import z3

Z = z3


class Unsupported(Exception):
    """Construct outside the accepted subset -> obligations of that function are undecided."""


class MergeFail(Exception):
    pass


MISSING = object()


# ----------------------------------------------------------------------------- scalars
class SInt:
    __slots__ = ('t',)

    def __init__(self, t):
        self.t = t

    def __repr__(self):
        return 'SInt(%s)' % self.t


class SBool:
    __slots__ = ('t',)

    def __init__(self, t):
        self.t = t

    def __repr__(self):
        return 'SBool(%s)' % self.t


def mk_int(t):
    t = z3.simplify(t) if not isinstance(t, int) else t
    if isinstance(t, int):
        return t
    if z3.is_int_value(t):
        return t.as_long()
    return SInt(t)


def mk_bool(t):
    if isinstance(t, bool):
        return t
    t = z3.simplify(t)
    if z3.is_true(t):
        return True
    if z3.is_false(t):
        return False
    return SBool(t)


def zi(v):
    """z3 Int term of an int-like value."""
    if isinstance(v, bool):
        return z3.IntVal(1 if v else 0)
    if isinstance(v, int):
        return z3.IntVal(v)
    if isinstance(v, SInt):
        return v.t
    if isinstance(v, SBool):
        return z3.If(v.t, z3.IntVal(1), z3.IntVal(0))
    raise Unsupported('not an int: %r' % (v,))


def zb(v):
    if isinstance(v, bool):
        return z3.BoolVal(v)
    if isinstance(v, SBool):
        return v.t
    raise Unsupported('not a bool: %r' % (v,))


def is_intlike(v):
    return isinstance(v, (int, SInt, SBool))


# ----------------------------------------------------------------------------- strings
_intern = {}
_intern_rev = {}


def intern_str(s):
    """Literal strings as integer atoms (only equality is ever needed on them)."""
    if s not in _intern:
        k = len(_intern) + 1
        _intern[s] = k
        _intern_rev[k] = s
    return _intern[s]


def interned(k):
    return _intern_rev.get(k)


StrNonEmpty = z3.Function('str_nonempty', z3.IntSort(), z3.BoolSort())


class SStr:
    """Rendered text / symbolic string: a tuple of tokens.

    tokens:  ('lit', str) ('dec', zterm) ('hex', zterm) ('hexpad', zterm, width)
             ('ename', enumcls, zterm) ('atom', zterm)  -- opaque string identified by an Int term
             ('cond', zbool, SStr, SStr) ('join', sep:str, [(guard, SStr)])
             ('pad', SStr, n, align) ('lower', SStr) ('opaque', fname, (args...))
    """
    __slots__ = ('toks',)

    def __init__(self, toks):
        out = []
        for tk in toks:
            if tk[0] == 'lit':
                if tk[1] == '':
                    continue
                if out and out[-1][0] == 'lit':
                    out[-1] = ('lit', out[-1][1] + tk[1])
                    continue
            if tk[0] in ('dec',) and z3.is_int_value(tk[1]):
                tk = ('lit', str(tk[1].as_long()))
                if out and out[-1][0] == 'lit':
                    out[-1] = ('lit', out[-1][1] + tk[1])
                    continue
            if tk[0] == 'hex' and z3.is_int_value(tk[1]):
                tk = ('lit', hex(tk[1].as_long()))
                if out and out[-1][0] == 'lit':
                    out[-1] = ('lit', out[-1][1] + tk[1])
                    continue
            out.append(tk)
        self.toks = tuple(out)

    def __repr__(self):
        return 'SStr%r' % (self.toks,)


def to_sstr(v):
    if isinstance(v, SStr):
        return v
    if isinstance(v, str):
        return SStr([('lit', v)])
    raise Unsupported('not a str: %r' % (v,))


def str_concat(a, b):
    if isinstance(a, str) and isinstance(b, str):
        return a + b
    r = SStr(to_sstr(a).toks + to_sstr(b).toks)
    return norm_str(r)


def norm_str(s):
    if isinstance(s, SStr):
        if not s.toks:
            return ''
        if len(s.toks) == 1 and s.toks[0][0] == 'lit':
            return s.toks[0][1]
    return s


def atom_str(t):
    if z3.is_int_value(t) and interned(t.as_long()) is not None:
        return interned(t.as_long())
    return SStr([('atom', t)])


def is_strlike(v):
    return isinstance(v, (str, SStr))


# ----------------------------------------------------------------------------- bytes
class SBytes:
    """bytes of concrete length with int-like elements (0..255)."""
    __slots__ = ('elems',)

    def __init__(self, elems):
        self.elems = tuple(elems)

    def __len__(self):
        return len(self.elems)

    def __repr__(self):
        return 'SBytes(%d)' % len(self.elems)


class OBytes:
    """Opaque bytes value identified by an Int term (symbolic length/content)."""
    __slots__ = ('t', 'origin')

    def __init__(self, t, origin=None):
        self.t = t
        self.origin = origin

    def __repr__(self):
        return 'OBytes(%s)' % self.t


# ----------------------------------------------------------------------------- optional
class SOpt:
    """value-or-None: `present` is a z3 Bool, `val` the value when present."""
    __slots__ = ('present', 'val')

    def __init__(self, present, val):
        self.present = present
        self.val = val

    def __repr__(self):
        return 'SOpt(%s,%r)' % (self.present, self.val)


# ----------------------------------------------------------------------------- enums
class EnumVal:
    __slots__ = ('cls', 'name', 'value')

    def __init__(self, cls, name, value):
        self.cls = cls
        self.name = name
        self.value = value

    def __repr__(self):
        return '<%s.%s>' % (self.cls.name, self.name)

    def __hash__(self):
        return hash((id(self.cls), self.name))

    def __eq__(self, o):
        return isinstance(o, EnumVal) and o.cls is self.cls and o.name == self.name


class SEnum:
    """member of enum class `cls` chosen by symbolic value term (known to be in domain);
    for flag kinds any int (boundary KEEP) and `flag` is True."""
    __slots__ = ('cls', 't')

    def __init__(self, cls, t):
        self.cls = cls
        self.t = t

    def __repr__(self):
        return 'SEnum(%s,%s)' % (self.cls.name, self.t)


# ----------------------------------------------------------------------------- containers
class Trail:
    def __init__(self):
        self.log = []
        self.loading = set()     # indices of entries written while module-level code was running (imports during a path)

    def record(self, obj, key, old):
        if LOADING[0]:
            self.loading.add(len(self.log))
        self.log.append((obj, key, old))


# frame condition "no module-level state is written": containers that live in a module or class namespace of the
# repository are registered after their module has been loaded; a write to one of them during an exploration is logged
GLOBAL_OBJS = {}      # id(value) -> (qualified name, value)
GLOBAL_WRITES = {}    # qualified name -> number of writes seen
GLOBAL_READS = {}     # module.name of a module-level variable that some function rebinds (`global`) -> reads seen
WRITTEN_GLOBALS = set()   # (module name, variable) declared `global` in some function of the repository (static scan)
LOADING = [0]         # >0 while module-level code is being executed
DROPPED = []          # (module, line, names, reason) of module-level statements of the repository that could not be interpreted


def register_global(name, v, depth=0):
    if not isinstance(v, Mutable) or id(v) in GLOBAL_OBJS or depth > 2:
        return
    GLOBAL_OBJS[id(v)] = (name, v)
    items = []
    if type(v).__name__ == 'PList':
        items = [x for _, x in getattr(v, 'items', ())]
    elif type(v).__name__ == 'PDict':
        items = [e[1] for e in getattr(v, 'd', {}).values() if isinstance(e, tuple) and len(e) > 1]
    elif type(v).__name__ == 'Obj':
        items = list(getattr(v, 'fields', {}).values())
    for x in items:
        register_global(name + '[..]', x, depth + 1)


class FrameViolation(Unsupported):
    """the code under analysis touched state its contract's frame excludes (reported as a refuted frame clause)"""


class GuardedState:
    """stands for a piece of state a function's frame excludes: any use raises FrameViolation"""

    def __init__(self, what):
        self.what = what

    def _touch(self, *a, **k):
        raise FrameViolation(self.what)
    py_getattr = py_getitem = py_setitem = py_len = py_truth = py_iter = py_contains = py_delitem = _touch


def note_global_write(obj):
    if not LOADING[0] and id(obj) in GLOBAL_OBJS:
        nm = GLOBAL_OBJS[id(obj)][0]
        GLOBAL_WRITES[nm] = GLOBAL_WRITES.get(nm, 0) + 1


class Mutable:
    """base for trail-logged mutable values; locations are (self, key)."""
    trail = None  # set by the path context (class attribute: one path runs at a time)

    def _loc_get(self, key):
        raise NotImplementedError

    def _loc_set_raw(self, key, val):
        raise NotImplementedError

    def _write(self, key, val):
        tr = Mutable.trail
        if tr is not None:
            tr.record(self, key, self._loc_get(key))
        if not LOADING[0] and id(self) in GLOBAL_OBJS:
            nm = GLOBAL_OBJS[id(self)][0]
            GLOBAL_WRITES[nm] = GLOBAL_WRITES.get(nm, 0) + 1
        self._loc_set_raw(key, val)


class PList(Mutable):
    """Python list; items is an immutable tuple of (guard, value), guard True or z3 Bool."""

    def __init__(self, values=(), guarded=None):
        if guarded is not None:
            self.items = tuple(guarded)
        else:
            self.items = tuple((True, v) for v in values)

    def _loc_get(self, key):
        return self.items

    def _loc_set_raw(self, key, val):
        self.items = val

    def set_items(self, items):
        self._write('items', tuple(items))

    def is_concrete(self):
        return all(g is True for g, _ in self.items)

    def values(self):
        if not self.is_concrete():
            raise Unsupported('guarded list used as concrete')
        return [v for _, v in self.items]

    def append(self, v):
        self.set_items(self.items + ((True, v),))

    def __repr__(self):
        return 'PList(%r)' % (self.items,)


class PDict(Mutable):
    """Python dict with concrete hashable keys; each entry (guard, value)."""

    def __init__(self, pairs=()):
        self.d = {}
        self.order = ()
        for k, v in pairs:
            self.d[k] = (True, v)
            if k not in self.order:
                self.order = self.order + (k,)

    def _loc_get(self, key):
        if key == '__order__':
            return self.order
        return self.d.get(key[1], MISSING)

    def _loc_set_raw(self, key, val):
        if key == '__order__':
            self.order = val
        elif val is MISSING:
            self.d.pop(key[1], None)
        else:
            self.d[key[1]] = val

    def set_entry(self, k, guard, val):
        if k not in self.d:
            self._write('__order__', self.order + (k,))
        self._write(('k', k), (guard, val))

    def del_entry(self, k):
        self._write(('k', k), MISSING)
        self._write('__order__', tuple(x for x in self.order if x != k))

    def get_entry(self, k):
        return self.d.get(k, MISSING)

    def keys(self):
        return [k for k in self.order if k in self.d]

    def __repr__(self):
        return 'PDict(%r)' % ({k: self.d[k] for k in self.keys()},)


class Obj(Mutable):
    """instance of a repo class (dataclass, plain class) or a namedtuple (immutable by use)."""

    def __init__(self, cls, fields):
        self.cls = cls
        self.fields = dict(fields)

    def _loc_get(self, key):
        return self.fields.get(key, MISSING)

    def _loc_set_raw(self, key, val):
        if val is MISSING:
            self.fields.pop(key, None)
        else:
            self.fields[key] = val

    def setattr(self, k, v):
        self._write(k, v)

    def __repr__(self):
        return 'Obj(%s)' % self.cls.name


class Frame(Mutable):
    """local variables of one activation."""

    def __init__(self, init=None, parent=None):
        self.vars = dict(init or {})
        self.parent = parent

    def _loc_get(self, key):
        return self.vars.get(key, MISSING)

    def _loc_set_raw(self, key, val):
        if val is MISSING:
            self.vars.pop(key, None)
        else:
            self.vars[key] = val

    def set(self, k, v):
        nl = self.vars.get('$nonlocals')
        if nl and k in nl:
            # `nonlocal k`: the assignment rebinds the variable of the nearest enclosing function that has it
            f = self.parent
            while f is not None and '$module' not in f.vars:
                if k in f.vars:
                    f._write(k, v)
                    return
                f = f.parent
            raise Unsupported('nonlocal %s without an enclosing binding' % k)
        g = self.vars.get('$globals')
        if g and k in g:
            # `global k` in this function: the assignment rebinds the module-level variable
            f = self
            while f is not None and '$module' not in f.vars:
                f = f.parent
            if f is not None:
                if not LOADING[0]:
                    nm = '%s.%s' % (f.vars['$module'].name, k)
                    GLOBAL_WRITES[nm] = GLOBAL_WRITES.get(nm, 0) + 1
                f._write(k, v)
                return
        self._write(k, v)


class SymMap:
    """table with symbolic keys: dom/val given by z3 functions or arrays, functional updates.
    dom: z3 Array(K->Bool), val: Array(K->V); key/val adapters convert python values."""

    def __init__(self, name, dom, val, ksort='int', vkind='int', origin=None):
        self.name = name
        self.dom = dom
        self.val = val
        self.ksort = ksort
        self.vkind = vkind   # 'int' | 'atom' (string atom) | 'obj:<tag>'
        self.origin = origin or name
        self.writes = []     # log of (key term, value) for frame/footprint analyses

    def __repr__(self):
        return 'SymMap(%s)' % self.name


class SymList(Mutable):
    """list of symbolic length: length z3 Int, elem(i) by index term."""

    def _loc_get(self, key):
        return getattr(self, key)

    def _loc_set_raw(self, key, val):
        setattr(self, key, val)

    def append(self, v):
        old_len, old_fn, old_cache = self.length, self.elem_fn, self.cache

        def elem(j, old_len=old_len, old_fn=old_fn, v=v):
            js = z3.simplify(j == old_len)
            if z3.is_true(js):
                return v
            if z3.is_false(js) or z3.is_true(z3.simplify(j < old_len)):
                return old_fn(j)
            raise Unsupported('index into appended symbolic list')
        self._write('elem_fn', elem)
        self._write('cache', {})
        self._write('length', z3.simplify(old_len + 1))

    def __init__(self, name, length, elem_fn, origin=None):
        self.name = name
        self.length = length
        self.elem_fn = elem_fn
        self.cache = {}
        self.origin = origin

    def elem(self, key):
        k = key.sexpr() if hasattr(key, 'sexpr') else key
        if k not in self.cache:
            self.cache[k] = self.elem_fn(key)
        return self.cache[k]

    def __repr__(self):
        return 'SymList(%s)' % self.name


class SymSet:
    """finite set of ints known only through its membership predicate (z3 Bool of an int-like value)."""

    def __init__(self, contains_fn, name='set'):
        self.contains_fn = contains_fn
        self.name = name


# ----------------------------------------------------------------------------- callables / classes
class FuncVal:
    def __init__(self, node, module, name=None, cls=None, closure=None):
        self.node = node
        self.module = module
        self.name = name or getattr(node, 'name', '<lambda>')
        self.cls = cls
        self.closure = closure
        self.decorators = []

    @property
    def qualname(self):
        return '%s:%s%s' % (self.module.name, (self.cls.name + '.') if self.cls else '', self.name)

    def __repr__(self):
        return 'FuncVal(%s)' % self.qualname


class BoundMethod:
    def __init__(self, func, self_val):
        self.func = func
        self.self_val = self_val


class PartialVal:
    def __init__(self, func, args, kwargs):
        self.func = func
        self.args = list(args)
        self.kwargs = dict(kwargs)


class Builtin:
    def __init__(self, name, impl):
        self.name = name
        self.impl = impl

    def __repr__(self):
        return 'Builtin(%s)' % self.name


class ClassVal:
    def __init__(self, name, module, kind='plain'):
        self.name = name
        self.module = module
        self.kind = kind        # plain | dataclass | namedtuple | enum | flag | intflag | intenum | exception | host-enum
        self.attrs = {}         # methods / class attrs
        self.fields = []        # dataclass / namedtuple: [(name, default or MISSING)]
        self.members = []       # enums: [(name, value)] in definition order (incl. aliases flagged)
        self.bases = []
        self.node = None

    def lookup(self, name):
        if name in self.attrs:
            return self.attrs[name]
        for b in self.bases:
            if isinstance(b, ClassVal):
                r = b.lookup(name)
                if r is not MISSING:
                    return r
        return MISSING

    def canonical_members(self):
        """non-alias members in definition order."""
        seen = set()
        out = []
        for n, v in self.members:
            if v in seen:
                continue
            seen.add(v)
            out.append((n, v))
        return out

    def iter_members(self):
        """what `for m in Cls` yields (CPython >= 3.11): enums: non-alias members in definition
        order; Flag/IntFlag: canonical single-bit members only."""
        ms = self.canonical_members()
        if self.kind in ('flag', 'intflag'):
            ms = [(n, v) for n, v in ms if isinstance(v, int) and v > 0 and v & (v - 1) == 0]
        return ms

    def __repr__(self):
        return 'ClassVal(%s)' % self.name


class ModuleVal:
    def __init__(self, name, kind='repo'):
        self.name = name
        self.kind = kind
        self.ns = {}
        self.tree = None
        self.path = None

    def __repr__(self):
        return 'ModuleVal(%s)' % self.name


class PyExc(Exception):
    """a Python exception raised by the analysed program."""

    def __init__(self, cls_name, msg='', site=None, kind=None):
        Exception.__init__(self, cls_name, msg)
        self.cls_name = cls_name
        self.msg = msg
        self.site = site
        self.kind = kind


EXC_PARENTS = {
    'IndexError': 'LookupError', 'KeyError': 'LookupError', 'LookupError': 'Exception',
    'ValueError': 'Exception', 'TypeError': 'Exception', 'AttributeError': 'Exception',
    'UnicodeDecodeError': 'ValueError', 'struct.error': 'Exception', 'error': 'Exception',
    'StopIteration': 'Exception', 'ZeroDivisionError': 'ArithmeticError', 'ArithmeticError': 'Exception',
    'AssertionError': 'Exception', 'Exception': 'BaseException', 'OverflowError': 'ArithmeticError',
    'StreamError': 'Exception', 'ConstError': 'Exception', 'OSError': 'Exception', 'EOFError': 'Exception',
}


def exc_matches(raised, handler_name):
    n = raised
    while n is not None:
        if n == handler_name:
            return True
        n = EXC_PARENTS.get(n)
    return False


# ----------------------------------------------------------------------------- merging
def merge(c, a, b):
    """value that is `a` when z3 Bool c holds, else `b`."""
    if a is b:
        return a
    if isinstance(a, (bool, SBool)) and isinstance(b, (bool, SBool)):
        return mk_bool(z3.If(c, zb(a), zb(b)))
    if is_intlike(a) and is_intlike(b):
        if isinstance(a, int) and isinstance(b, int) and a == b and type(a) is type(b):
            return a
        return mk_int(z3.If(c, zi(a), zi(b)))
    if is_strlike(a) and is_strlike(b):
        sa, sb = to_sstr(a), to_sstr(b)
        if sa.toks == sb.toks or _toks_equal(sa.toks, sb.toks):
            return a
        # atoms merge into an atom
        if len(sa.toks) <= 1 and len(sb.toks) <= 1:
            ta = _atom_term(sa)
            tb = _atom_term(sb)
            if ta is not None and tb is not None:
                return atom_str(z3.simplify(z3.If(c, ta, tb)))
        return SStr([('cond', c, sa, sb)])
    if a is None and b is None:
        return None
    if a is None or b is None:
        if a is None:
            v, g = b, z3.Not(c)
        else:
            v, g = a, c
        if isinstance(v, SOpt):
            return SOpt(z3.simplify(z3.And(g, v.present)), v.val)
        return SOpt(z3.simplify(g), v)
    if isinstance(a, SOpt) or isinstance(b, SOpt):
        pa = a.present if isinstance(a, SOpt) else z3.BoolVal(True)
        pb = b.present if isinstance(b, SOpt) else z3.BoolVal(True)
        va = a.val if isinstance(a, SOpt) else a
        vb = b.val if isinstance(b, SOpt) else b
        return SOpt(z3.simplify(z3.If(c, pa, pb)), merge(c, va, vb))
    if isinstance(a, EnumVal) and isinstance(b, EnumVal):
        if a == b:
            return a
        if a.cls is b.cls and isinstance(a.value, int) and isinstance(b.value, int):
            return SEnum(a.cls, z3.If(c, z3.IntVal(a.value), z3.IntVal(b.value)))
    if isinstance(a, (EnumVal, SEnum)) and isinstance(b, (EnumVal, SEnum)) and a.cls is b.cls:
        ta = a.t if isinstance(a, SEnum) else z3.IntVal(a.value)
        tb = b.t if isinstance(b, SEnum) else z3.IntVal(b.value)
        return SEnum(a.cls, z3.simplify(z3.If(c, ta, tb)))
    if isinstance(a, tuple) and isinstance(b, tuple) and len(a) == len(b):
        return tuple(merge(c, x, y) for x, y in zip(a, b))
    if isinstance(a, SBytes) and isinstance(b, SBytes) and len(a) == len(b):
        return SBytes([merge(c, x, y) for x, y in zip(a.elems, b.elems)])
    if isinstance(a, PList) and isinstance(b, PList):
        return PList(guarded=merge_items(c, a.items, b.items))
    if isinstance(a, PDict) and isinstance(b, PDict):
        out = PDict()
        keys = list(a.keys()) + [k for k in b.keys() if k not in a.d]
        nc = z3.Not(c)
        for k in keys:
            ea, eb = a.d.get(k), b.d.get(k)
            if ea is not None and eb is not None:
                ga = z3.BoolVal(True) if ea[0] is True else ea[0]
                gb = z3.BoolVal(True) if eb[0] is True else eb[0]
                g = z3.simplify(z3.If(c, ga, gb))
                out.set_entry(k, True if z3.is_true(g) else g, merge(c, ea[1], eb[1]))
            elif ea is not None:
                out.set_entry(k, _and(c, ea[0]), ea[1])
            else:
                out.set_entry(k, _and(nc, eb[0]), eb[1])
        return out
    raise MergeFail('cannot merge %r / %r' % (type(a).__name__, type(b).__name__))


def _atom_term(s):
    if not s.toks:
        return z3.IntVal(intern_str(''))
    tk = s.toks[0]
    if tk[0] == 'lit':
        return z3.IntVal(intern_str(tk[1]))
    if tk[0] == 'atom':
        return tk[1]
    return None


def _toks_equal(ta, tb):
    if len(ta) != len(tb):
        return False
    for x, y in zip(ta, tb):
        if x[0] != y[0]:
            return False
        if x[0] == 'lit':
            if x[1] != y[1]:
                return False
        elif x[0] in ('dec', 'hex', 'atom'):
            if not x[1].eq(y[1]):
                return False
        else:
            if x is not y:
                return False
    return True


def merge_items(c, ia, ib):
    """merge two guarded item tuples sharing a common prefix."""
    n = 0
    while n < len(ia) and n < len(ib) and ia[n] is ib[n]:
        n += 1
    # also accept structurally identical prefix entries
    while n < len(ia) and n < len(ib) and ia[n][1] is ib[n][1] and _guard_eq(ia[n][0], ib[n][0]):
        n += 1
    out = list(ia[:n])
    for g, v in ia[n:]:
        out.append((_and(c, g), v))
    nc = z3.Not(c)
    for g, v in ib[n:]:
        out.append((_and(nc, g), v))
    return tuple(out)


def _guard_eq(a, b):
    if a is True and b is True:
        return True
    if a is True or b is True:
        return False
    return a.eq(b)


def _and(c, g):
    if g is True:
        return z3.simplify(c)
    return z3.simplify(z3.And(c, g))
