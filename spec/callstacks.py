"""Specification of callstack attribution (C15), from the property statement.
ops: ('image', addr, uuid) | ('launch', [(addr, uuid), ...]) | ('sample', ts, tid, [frames]) | ('other',)"""


def expected(ops):
    images = {}          # addr -> uuid, first announcement wins
    out = []
    for op in ops:
        if op[0] == 'image':
            images.setdefault(op[1], op[2])
        elif op[0] == 'launch':
            for a, u in op[1]:
                images.setdefault(a, u)
        elif op[0] == 'sample':
            frames = []
            for f in op[3]:
                below = [a for a in images if a <= f]
                if below:
                    a = max(below)
                    frames.append((f, images[a], f - a))
                else:
                    frames.append((f, None, None))
            out.append((op[1], op[2], frames))
    return out
