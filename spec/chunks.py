"""How the kernel splits long texts over kdebug records (bsd/vfs/vfs_lookup.c kdebug_lookup_gen_events, bsd/kern/kdebug.c
kernel_debug_string_internal, thread-name tracepoints) - the specification side of C08.
A record is (qualifier, 32 data bytes); qualifiers NONE 0, START 1, END 2, both 3."""
import struct

MAX_PATH_BYTES = 184


def split(first_room, data):
    """payload chunks: first_room bytes in the first record, 32 in every further one, NUL padded"""
    chunks = [data[:first_room].ljust(first_room, b'\0')]
    rest = data[first_room:]
    while rest:
        chunks.append(rest[:32].ljust(32, b'\0'))
        rest = rest[32:]
    return chunks


def quals(n):
    return [3] if n == 1 else [1] + [0] * (n - 2) + [2]


def enc_lookup(vnode, text):
    ch = split(24, text.encode())
    ch[0] = struct.pack('<Q', vnode) + ch[0]
    return list(zip(quals(len(ch)), ch))


def enc_global_string(debugid, str_id, text):
    ch = split(16, text.encode())
    ch[0] = struct.pack('<QQ', debugid, str_id) + ch[0]
    return list(zip(quals(len(ch)), ch))


def enc_thread_name(text):
    ch = split(32, text.encode())
    return list(zip(quals(len(ch)), ch))
