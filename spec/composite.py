"""Specification of the composite decoders (C20), written from the property statement.

Windows are lists of events with .eventid, .values, .func_qualifier; `codes` maps event id -> name.
Used natively as the oracle in replays and as the statement the structural obligations are read from."""

REAL_FAULT_LO = 0x1320008
REAL_FAULT_HI = 0x1320014


def first_real_fault(window, codes=None):
    """first nested real-fault-address record: strictly inside the window, named RealFaultAddress* by the code table"""
    for e in window[1:-1]:
        if codes is None:
            if REAL_FAULT_LO <= e.eventid <= REAL_FAULT_HI:
                return e
        elif (codes.get(e.eventid) or '').startswith('RealFaultAddress'):
            return e
    return None


def vmfault_expected(window, codes, decodable):
    """(result, fault_type_value or None, has_pid)"""
    end = window[-1]
    result = end.values[2]
    nested = first_real_fault(window, codes)
    has = result == 0 and nested is not None and codes.get(nested.eventid) in decodable
    return result, (end.values[3] if result == 0 else None), has, nested


def launch_expected(window, codes):
    """load addresses of every nested image-map / shared-cache-map record, sorted"""
    addrs = []
    for e in window:
        if codes.get(e.eventid) == 'DYLD_uuid_map_a':
            addrs.append(e.values[2])
    for e in window:
        if codes.get(e.eventid) == 'DYLD_uuid_shared_cache_a':
            addrs.append(e.values[2])
    return sorted(addrs)


SAMPLER_TH_INFO = 0x01
SAMPLER_USTACK = 0x08


def sampler_expected(window, codes):
    """(has_th_info, frames or None)"""
    flags = window[0].values[0]
    thd = [e for e in window if codes.get(e.eventid) == 'PERF_THD_Data']
    hdr = [e for e in window if codes.get(e.eventid) == 'PERF_STK_UHdr']
    has_th = bool(flags & SAMPLER_TH_INFO) and bool(thd)
    frames = None
    if flags & SAMPLER_USTACK and hdr:
        words = []
        for e in window:
            if codes.get(e.eventid) == 'PERF_STK_UData':
                words.extend(e.values)
        frames = words[:hdr[0].values[1]]
    return has_th, frames
