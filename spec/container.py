"""Specification of the RAW_VERSION2 kdebug container (C02/C06), from XNU bsd/kern/kdebug.c:

    00 02 aa 55 | RAW_header: int thread_count; 8+4 bytes; int is_64_bit; uint64 tick_frequency; 0x100 bytes
    | thread_count x kd_threadmap {uint64 thread; int32 valid(pid); char command[20]} | zero padding | kd_buf x m"""
import struct


def build_v2(threads, pad, records, tick=24000000):
    """threads: [(tid, pid, name)], pad: number of zero bytes, records: [64-byte records]"""
    out = b'\x00\x02\xaa\x55' + struct.pack('<I', len(threads)) + bytes(12) + struct.pack('<I', 1) + struct.pack('<Q', tick) + bytes(0x100)
    for tid, pid, name in threads:
        out += struct.pack('<QI', tid, pid) + name.encode().ljust(20, b'\0')[:20]
    out += bytes(pad)
    for r in records:
        out += r
    return out


def expected_tables(threads):
    tp, pn = {}, {}
    for tid, pid, name in threads:
        tp[tid] = pid
        pn[pid] = name
    return tp, pn
