"""Specification of the RAW_VERSION2 kdebug container (C02/C06), from XNU bsd/kern/kdebug.c:

    00 02 aa 55 | RAW_header: int thread_count; 8+4 bytes; int is_64_bit; uint64 tick_frequency; 0x100 bytes
    | thread_count x kd_threadmap {uint64 thread; int32 valid(pid); char command[20]} | zero padding | kd_buf x m"""
import struct


def build_v2(threads, pad, records, tick=24000000, is_64bit=1):
    """threads: [(tid, pid, name)], pad: number of zero bytes, records: [64-byte records]"""
    out = b'\x00\x02\xaa\x55' + struct.pack('<I', len(threads)) + bytes(12) + struct.pack('<I', is_64bit) + struct.pack('<Q', tick) + bytes(0x100)
    for tid, pid, name in threads:
        out += struct.pack('<QI', tid, pid) + name.encode().ljust(20, b'\0')[:20]
    out += bytes(pad)
    for r in records:
        out += r
    return out


def expected_tables(threads):
    tp, pn = {}, {}
    for tid, pid, name in threads:
        tp[tid] = pid
        pn[pid] = name.split('\x00')[0]        # char command[20] is a C string
    return tp, pn


# RAW_VERSION3 (ktrace file as written by `ktrace`/CoreProfile; layout as the parser scans it)
TAG_THREADMAP = b'\x00\x1d' + bytes(6)
TAG_EVENTS = b'\x00\x1e' + bytes(6)
TAG_MORE = b'\x00\x20' + bytes(6)
TAGS = {
    'dyld_modules': b'\x01\x80' + bytes(6), 'trace_codes': b'\x0f\x80' + bytes(6), 'processes': b'\x10\x80' + bytes(6),
    'log_events': b'\x11\x80' + bytes(6), 'log_strings': b'\x12\x80' + bytes(6), 'kernel_extensions': b'\x05\x80' + bytes(6),
    'images': b'\x04\x80\x00\x00\x01\x00\x00\x00',
}


def build_v3(threads, chunks, blocks, filler=b'stackshot-junk', gap=b'', aligned=True, chunk_gaps=None, flags=0):
    """threads: [(tid, pid, name)]; chunks: [[64-byte records]] (>= 1 chunk); blocks: [(kind, payload bytes)]"""
    import plistlib
    cpu = plistlib.dumps({'cpu': 1}, fmt=plistlib.FMT_BINARY)
    hdr = struct.pack('<IIQIIQQIIIII', 0x55aa0300, 0, 0, 125, 3, 1000, 1600000000, 0, 0, 0, flags, 0x8002)
    out = b'\x00\x03\xaa\x55' + hdr + struct.pack('<Q', len(cpu)) + cpu
    out += bytes((-(len(out) - 4)) % 8)
    out += bytes(4)
    out += filler + b'stackshot_out_fl' + gap
    tm = b''.join(struct.pack('<QI', t, p) + n.encode().ljust(20, b'\0')[:20] for t, p, n in threads)
    out += TAG_THREADMAP + struct.pack('<Q', len(tm)) + tm
    for i, recs in enumerate(chunks):
        if i:
            out += TAG_MORE + bytes(8)
        if chunk_gaps:
            out += chunk_gaps[i % len(chunk_gaps)]      # arbitrary bytes (not containing the tag) may precede a chunk
        out += TAG_EVENTS + struct.pack('<Q', 8 + 64 * len(recs)) + bytes(8) + b''.join(recs)
    for bi, (kind, payload) in enumerate(blocks):
        out += TAGS[kind] + struct.pack('<Q', len(payload)) + payload
        # chunks are padded to 8 bytes; only the very last one may lack its padding (end of file)
        if aligned or bi < len(blocks) - 1:
            out += bytes((-(8 + len(payload))) % 8)
    return out
