"""Independent specification of the XNU kd_buf record (bsd/sys/kdebug.h, 64-bit layout):

    struct kd_buf { uint64_t timestamp; uintptr_t arg1, arg2, arg3, arg4; uintptr_t arg5 /* tid */;
                    uint32_t debugid; uint32_t cpuid; uintptr_t unused; };   /* 64 bytes, little endian */

One text, two uses: these definitions are executed natively in replays and symbolically executed by
pyvc when a contract clause mentions them.  They use only +, *, //, %, slicing."""


def le(bs):
    """little-endian value of a byte string"""
    total = 0
    i = 0
    for b in bs:
        total = total + b * (256 ** i)
        i = i + 1
    return total


def byte_of(v, i):
    """i-th little-endian byte of a non-negative integer"""
    return (v // (256 ** i)) % 256


def le_bytes(v, n):
    return bytes([byte_of(v, i) for i in range(n)])


def pack_kd_buf52(ev):
    """first 52 bytes of the record that decodes to event `ev` (timestamp, 4 args via data, tid, debugid)"""
    return le_bytes(ev.timestamp, 8) + ev.data + le_bytes(ev.tid, 8) + le_bytes(ev.eventid + ev.func_qualifier, 4)


def spec_eventid(debugid):
    return 4 * (debugid // 4)


def spec_qualifier(debugid):
    return debugid % 4
