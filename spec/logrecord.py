"""Specification of raw log record decoding (C16), from the property statement and the ktrace log chunk
format: mandatory keys cm t s tid ns mct b piu ud utz; every other key optional.  String-valued keys go
through the string index.  The trace identifier packs (libkern/firehose/firehose_types_private.h):
byte 0 namespace, byte 1 type, bits 16..31 flags (bit0 has_current_aid, bits1-3 pc_style, bit4 has_unique_pid,
bit5 has_large_offset, bits 8..15 namespace-specific flags), bits 32..63 code."""
from datetime import datetime, timezone, timedelta

STRING_KEYS = {'pip': 'process_image_path', 'p': 'process', 'sip': 'sender_image_path', 'send': 'sender', 'sub': 'subsystem',
               'cat': 'category', 'f': 'format_string', 'sn': 'signpost_name'}
INT_KEYS = {'sio': 'sender_image_offset', 'siu': 'sender_image_uuid', 'ttl': 'time_to_live', 'pid': 'process_identifier',
            'aid': 'activity_identifier', 'paid': 'parent_activity_identifier', 'tai': 'transition_activity_identifier',
            'cai': 'creator_activity_identifier', 'cpui': 'creator_process_unique_identifier', 'si': 'signpost_identifier',
            'st': 'signpost_type', 'ss': 'signpost_scope', 'lsmct': 'loss_start_mach_continuous_timestamp',
            'lemct': 'loss_end_mach_continuous_timestamp', 'lsud': 'loss_start_unix_date', 'leud': 'loss_end_unix_date'}


def unpack_trace_identifier(w):
    fl = (w >> 16) & 0xffff
    return {'namespace': w & 0xff, 'type': (w >> 8) & 0xff, 'has_current_aid': bool(fl & 1), 'pc_style': (fl >> 1) & 7,
            'has_unique_pid': bool(fl & 0x10), 'has_large_offset': bool(fl & 0x20), 'flags': (fl >> 8) & 0xff, 'code': w >> 32}


def expected(raw, strings):
    """field -> value for the fields the record determines"""
    out = {'composed_message': strings[raw['cm']], 'type_': raw['t'], 'size': raw['s'], 'thread_identifier': raw['tid'],
           'continuous_nanoseconds_since_boot': raw['ns'], 'mach_continuous_timestamp': raw['mct'], 'boot_uuid': raw['b'],
           'process_image_uuid': raw['piu'],
           'unix_date': datetime(1970, 1, 1, tzinfo=timezone.utc) + timedelta(seconds=raw['ud']['sec'], microseconds=raw['ud']['usec']),
           'unix_timezone': {'minutes_west': raw['utz']['mw'], 'dst_time': raw['utz']['dt']}}
    for k, f in STRING_KEYS.items():
        if k in raw:
            out[f] = strings[raw[k]]
    for k, f in INT_KEYS.items():
        if k in raw:
            out[f] = raw[k]
    if 'lt' in raw:
        out['log_type'] = raw['lt']
    for k, f in (('lsutz', 'loss_start_unix_timezone'), ('leutz', 'loss_end_unix_timezone')):
        if k in raw:
            out[f] = {'minutes_west': raw[k]['mw'], 'dst_time': raw[k]['dt']}
    if 'bt' in raw:
        out['backtrace'] = [{'image_uuid': l['iu'], 'image_offset': l['io']} for l in raw['bt']]
    if 'lc' in raw:
        out['loss_count'] = {'count': raw['lc']['c'], 'unknown': raw['lc']['s']}
    return out
