"""Specification of START/END pairing (property C04), written from the statement.

An event is (tid, code, qual) with qual NONE 0 / START 1 / END 2 / ALL 3; `domain(code)` is 'trace' for the
kernel trace-string/data codes and 'event' otherwise; `decodable(code)` says whether the code's name has a
decoder.  expected(stream) returns, per position, None (nothing may be emitted) or a dict
  {'must': [indices that must be in the window, in order], 'may': [indices that may additionally appear],
   'optional': bool (the trace itself may be swallowed: continuation fragments, see C08)}"""


def expected(stream, domain, decodable, fragment_codes=()):
    out = []
    open_start = {}          # (tid, code) -> index of the most recent START still open
    for i, (tid, code, qual) in enumerate(stream):
        exp = None
        if qual == 1:
            open_start[(tid, code)] = i
        elif qual == 2:
            s = open_start.pop((tid, code), None)
            if s is not None and decodable(code):
                must, may = [s], []
                for j in range(s + 1, i):
                    t2, c2, q2 = stream[j]
                    if t2 != tid or domain(c2) != domain(code):
                        continue
                    stray = q2 == 2 and not _has_open_start(stream, j)
                    if stray:
                        may.append(j)
                    else:
                        must.append(j)
                must.append(i)
                exp = {'must': must, 'may': may, 'optional': False}
        else:
            if decodable(code):
                # a NONE record whose own code is open on the thread is a continuation fragment (C08): it may be swallowed
                cont = qual == 0 and (tid, code) in open_start
                exp = {'must': [i], 'may': [], 'optional': cont or code in fragment_codes}
        out.append(exp)
    return out


def _has_open_start(stream, j):
    """is there, before position j, a START of the same thread and code not yet closed by an END?"""
    tid, code, _ = stream[j]
    opened = False
    for k in range(j):
        t, c, q = stream[k]
        if (t, c) != (tid, code):
            continue
        if q == 1:
            opened = True
        elif q == 2:
            opened = False
    return opened


def window_ok(exp, got):
    """got: list of stream indices in the emitted trace's event list"""
    if exp is None:
        return got is None
    if got is None:
        return exp['optional']
    if len(set(got)) != len(got) or got != sorted(got):
        return False
    allowed = set(exp['must']) | set(exp['may'])
    if any(g not in allowed for g in got):
        return False
    return all(m in got for m in exp['must']) and got[0] == exp['must'][0] and got[-1] == exp['must'][-1]
