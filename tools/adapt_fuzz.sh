#!/bin/bash
# adapt_fuzz.sh <seed ids...>: re-apply a seeded patch with fuzz on the repaired HEAD, confirm (demo passes without, 69 tests pass, demo fails with), write patch_on_fixed_tree.diff
for ID in "$@"; do
  WT=$(mktemp -d /tmp/adapt_wt.XXXXXX); git -C /repo worktree add -q --detach $WT HEAD
  cp /verif/seeded/$ID/demo.py $WT/demo.py
  (cd $WT && timeout 600 /venv/bin/python demo.py > /tmp/adapt_pre.txt 2>&1); PRE=$?
  (cd $WT && patch -p1 --fuzz=3 -s < /verif/seeded/$ID/patch.diff >/dev/null 2>&1) || { echo "$ID reject"; git -C /repo worktree remove --force $WT; continue; }
  find $WT -name '*.orig' -delete
  T=$(cd $WT && /venv/bin/python -m pytest -q -p no:cacheprovider 2>&1 | tail -1)
  (cd $WT && timeout 600 /venv/bin/python demo.py > /tmp/adapt_post.txt 2>&1); POST=$?
  echo "$ID demo_pristine=$PRE tests='$T' demo_patched=$POST"
  if [ $PRE -eq 0 ] && [ $POST -ne 0 ] && echo "$T" | grep -q "69 passed"; then
    rm -f $WT/demo.py; git -C $WT add -N . ; git -C $WT diff -- pykdebugparser > /verif/seeded/$ID/patch_on_fixed_tree.diff
  fi
  git -C /repo worktree remove --force $WT
done
