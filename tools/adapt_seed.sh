#!/bin/bash
# adapt_seed.sh <seed id> <sed-script or ''>: apply seeded patch (3way) on HEAD worktree, optionally edit, run tests + demo, write patch_on_fixed_tree.diff
ID=$1; EDIT=$2
WT=$(mktemp -d /tmp/adapt_wt.XXXXXX); git -C /repo worktree add -q --detach $WT HEAD
cp /verif/seeded/$ID/demo.py $WT/demo.py
(cd $WT && /venv/bin/python demo.py > /tmp/adapt_pre.txt 2>&1); echo "demo on fixed tree (no patch): exit=$? $(tail -1 /tmp/adapt_pre.txt)"
git -C $WT apply --3way /verif/seeded/$ID/patch.diff 2>/dev/null || echo "3way apply failed"
git -C $WT reset -q
if [ -n "$EDIT" ]; then (cd $WT && eval "$EDIT"); fi
(cd $WT && /venv/bin/python -m pytest -q -p no:cacheprovider 2>&1 | tail -1)
(cd $WT && /venv/bin/python demo.py > /tmp/adapt_post.txt 2>&1); echo "demo with patch: exit=$? $(tail -2 /tmp/adapt_post.txt | tr '\n' ' ' | cut -c1-200)"
git -C $WT diff -- pykdebugparser > /verif/seeded/$ID/patch_on_fixed_tree.diff
wc -l /verif/seeded/$ID/patch_on_fixed_tree.diff
git -C /repo worktree remove --force $WT
