#!/bin/bash
# confirm each candidate change from /tmp/seeded_out in a scratch worktree and keep confirmed ones under /verif/seeded/
OUT=/tmp/seeded_out
for P in $(ls $OUT | grep '^C'); do for X in a b; do
  D=$OUT/$P/$X; [ -f $D/patch.diff ] || continue
  ID=${P}${X}
  WT=$(mktemp -d /tmp/confirm_wt.XXXXXX)
  git -C /repo worktree add -q --detach $WT 96e377d >/dev/null 2>&1
  cp $D/demo.py $WT/demo.py
  (cd $WT && /venv/bin/python demo.py >/tmp/confirm_pre.txt 2>&1); PRE=$?
  if ! git -C $WT apply $D/patch.diff 2>/dev/null; then echo "$ID patch-does-not-apply"; git -C /repo worktree remove --force $WT; continue; fi
  (cd $WT && /venv/bin/python -m pytest -q -p no:cacheprovider >/tmp/confirm_tests.txt 2>&1); T=$?
  (cd $WT && /venv/bin/python demo.py >/tmp/confirm_post.txt 2>&1); POST=$?
  NPASS=$(grep -o '[0-9]* passed' /tmp/confirm_tests.txt | head -1)
  echo "$ID demo_pristine_exit=$PRE tests_exit=$T ($NPASS) demo_patched_exit=$POST"
  if [ $PRE -eq 0 ] && [ $T -eq 0 ] && [ $POST -ne 0 ]; then
    mkdir -p /verif/seeded/$ID
    cp $D/patch.diff $D/demo.py /verif/seeded/$ID/
    [ -f $D/notes.md ] && cp $D/notes.md /verif/seeded/$ID/notes.md
    python3 - "$ID" "$P" "$NPASS" <<PY
import json,sys
i,p,n=sys.argv[1:4]
notes=open('/verif/seeded/%s/notes.md'%i).read() if __import__('os').path.exists('/verif/seeded/%s/notes.md'%i) else ''
json.dump({'id':i,'breaks_property':p,'needs_to_manifest':notes.strip()[:1500],
 'confirmed':{'base_commit':'96e377d','ran':['demo.py on pristine worktree -> exit 0 (PASS)','pytest -q on patched worktree -> %s, exit 0'%n,'demo.py on patched worktree -> exit !=0 (FAIL)']},
 'origin':'independent sub-agent given only the property text and a scratch worktree'},open('/verif/seeded/%s/meta.json'%i,'w'),indent=1)
PY
  fi
  git -C /repo worktree remove --force $WT
done; done
