#!/bin/bash
# usage: confirm_seeded2.sh <outdir> "<suffixes>" <base-commit> [ids...]
# confirm candidate changes (outdir/Cnn/<suffix>/{patch.diff,demo.py,notes.md}) in a scratch worktree of /repo at
# <base-commit>; keep confirmed ones under /verif/seeded/Cnn<suffix>/
OUT=$1; SUF=$2; BASE=$3; shift 3
IDS=${@:-$(ls $OUT | grep '^C')}
for P in $IDS; do for X in $SUF; do
  D=$OUT/$P/$X; [ -f $D/patch.diff ] || { echo "$P$X missing"; continue; }
  ID=${P}${X}
  WT=$(mktemp -d /tmp/confirm_wt.XXXXXX)
  git -C /repo worktree add -q --detach $WT $BASE >/dev/null 2>&1
  cp $D/demo.py $WT/demo.py
  (cd $WT && timeout 600 /venv/bin/python demo.py >/tmp/confirm_pre.txt 2>&1); PRE=$?
  if ! git -C $WT apply $D/patch.diff 2>/dev/null; then echo "$ID patch-does-not-apply"; git -C /repo worktree remove --force $WT; continue; fi
  TOUCH=$(git -C $WT diff --name-only | grep -v '^pykdebugparser/' | tr '\n' ' ')
  (cd $WT && timeout 900 /venv/bin/python -m pytest -q -p no:cacheprovider >/tmp/confirm_tests.txt 2>&1); T=$?
  (cd $WT && timeout 600 /venv/bin/python demo.py >/tmp/confirm_post.txt 2>&1); POST=$?
  NPASS=$(grep -o '[0-9]* passed' /tmp/confirm_tests.txt | head -1)
  echo "$ID demo_pristine_exit=$PRE tests_exit=$T ($NPASS) demo_patched_exit=$POST outside_pkg='$TOUCH'"
  if [ $PRE -eq 0 ] && [ $T -eq 0 ] && [ $POST -ne 0 ] && [ $POST -ne 124 ] && [ -z "$TOUCH" ]; then
    mkdir -p /verif/seeded/$ID
    cp $D/patch.diff $D/demo.py /verif/seeded/$ID/
    [ -f $D/notes.md ] && cp $D/notes.md /verif/seeded/$ID/notes.md
    python3 - "$ID" "$P" "$NPASS" "$BASE" <<PY
import json,sys,os
i,p,n,b=sys.argv[1:5]
notes=open('/verif/seeded/%s/notes.md'%i).read() if os.path.exists('/verif/seeded/%s/notes.md'%i) else ''
json.dump({'id':i,'breaks_property':p,'needs_to_manifest':notes.strip()[:1500],
 'confirmed':{'base_commit':b,'ran':['demo.py on pristine worktree -> exit 0 (PASS)','pytest -q on patched worktree -> %s, exit 0'%n,'demo.py on patched worktree -> exit !=0 (FAIL)']},
 'origin':'independent sub-agent given only the property text and a scratch worktree (round 2, on the repaired tree)'},open('/verif/seeded/%s/meta.json'%i,'w'),indent=1)
PY
  fi
  git -C /repo worktree remove --force $WT
done; done
