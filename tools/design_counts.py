#!/usr/bin/env python3
"""refresh the obligations / time columns of the per-property table of DESIGN.md (section 5) from evidence/*.json"""
import json, os, re
V = os.path.dirname(os.path.dirname(os.path.abspath(__file__)))
s = open(os.path.join(V, 'DESIGN.md')).read()
for i in range(1, 21):
    pid = 'C%02d' % i
    ev = json.load(open(os.path.join(V, 'evidence', pid + '.json')))
    n, kf, wall = ev['coverage']['obligations'], ev['coverage'].get('known_finding_obligations', 0), ev['wall_s']
    def rep(m):
        cells = m.group(0).split('|')
        cells[3] = ' %d%s ' % (n, ' (+%d known finding)' % kf if kf else '')
        cells[4] = ' %d s ' % round(wall)
        return '|'.join(cells)
    s = re.sub(r'^\| %s \|[^\n]*$' % pid, rep, s, count=1, flags=re.M)
open(os.path.join(V, 'DESIGN.md'), 'w').write(s)
print('ok')
