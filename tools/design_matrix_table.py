#!/usr/bin/env python3
"""regenerate the seeded-change table of DESIGN.md (between the MATRIX markers) from seeded/MATRIX.tsv and the notes"""
import json, os, re
V = os.path.dirname(os.path.dirname(os.path.abspath(__file__)))
rows = []
for ln in open(os.path.join(V, 'seeded', 'MATRIX.tsv')).read().splitlines()[1:]:
    p = ln.split('\t')
    if len(p) < 7:
        continue
    rows.append(p)
rows.sort()
out = ['| seeded change | what it does | check | exit | VIOLATION lines | with native failing input |', '|---|---|---|---|---|---|']
for sid, kind, pid, rc, nv, nr, secs in rows:
    notes = ''
    f = os.path.join(V, 'seeded', sid, 'notes.md')
    if os.path.exists(f):
        first = [l.strip('# ').strip() for l in open(f).read().splitlines() if l.strip()]
        notes = first[0] if first else ''
        notes = re.sub(r'^C\d\d\s*/\s*\w\s*[-–—:]+\s*', '', notes)
        notes = re.sub(r'^C\d\d-\w:\s*', '', notes)
    notes = notes.replace('|', '/')[:150]
    out.append('| %s%s | %s | %s | %s | %s | %s |' % (sid, ' (adapted)' if kind.startswith('adapted') else '', notes, pid, rc, nv, nr))
s = open(os.path.join(V, 'DESIGN.md')).read()
a, b = s.index('<!-- MATRIX-BEGIN -->'), s.index('<!-- MATRIX-END -->')
s = s[:a] + '<!-- MATRIX-BEGIN -->\n' + '\n'.join(out) + '\n' + s[b:]
open(os.path.join(V, 'DESIGN.md'), 'w').write(s)
print(len(rows), 'rows')
