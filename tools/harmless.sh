#!/bin/bash
# usage: harmless.sh <harmless diff> [ids...]  - every check must stay exit 0 on a tree with the behaviour-preserving change applied
P=$(realpath $1); shift
IDS=${@:-$(seq -w 1 20 | sed 's/^/C/')}
printf "%s\n" $IDS | xargs -P ${JOBS:-5} -I{} sh -c "/verif/tools/try_patch.sh {} $P 2>&1 | grep -E '^(VIOLATION|C[0-9]+:|exit=|PATCH)' | tr '\n' ' '; echo"
