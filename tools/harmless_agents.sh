#!/bin/bash
# usage: harmless_agents.sh <out.tsv> [patch ids...]   - all 20 checks against each behaviour-preserving change written by
# independent sub-agents (seeded/harmless_agents/*.diff); one row per (patch, check): exit code (0 expected; 2 = undecided)
OUT=$1; shift
IDS=${@:-$(ls /verif/seeded/harmless_agents/*.diff | xargs -n1 basename | sed 's/.diff//')}
one() {
  LOG=$(/verif/tools/try_patch.sh $2 /verif/seeded/harmless_agents/$1.diff 2>&1)
  RC=$(echo "$LOG" | grep -o "^exit=[0-9]*" | tail -1 | cut -d= -f2)
  mkdir -p /tmp/hres; echo "$LOG" > /tmp/hres/$1_$2.log
  echo -e "$1\t$2\t$RC\t$(echo "$LOG" | grep -c '^VIOLATION')"
}
export -f one
for i in $IDS; do for c in $(seq -w 1 20); do echo "$i C$c"; done; done | xargs -P ${JOBS:-5} -L 1 bash -c 'one $0 $1' >> $OUT
