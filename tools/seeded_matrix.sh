#!/bin/bash
# runs every seeded change against the check of the property it breaks; writes /verif/seeded/MATRIX.tsv
OUT=/verif/seeded/MATRIX.tsv
echo -e "seed\tpatch\tproperty\texit\tviolations\treproduced_natively\tseconds" > $OUT
for D in /verif/seeded/C*/; do
  ID=$(basename $D); P=${ID:0:3}
  PATCH=$D/patch.diff; KIND=original
  if [ -f $D/patch_on_fixed_tree.diff ]; then PATCH=$D/patch_on_fixed_tree.diff; KIND=adapted-to-fixed-tree; fi
  T0=$(date +%s)
  LOG=$(/verif/tools/try_patch.sh $P $PATCH 2>&1)
  RC=$(echo "$LOG" | grep -o "^exit=[0-9]*" | tail -1 | cut -d= -f2)
  NV=$(echo "$LOG" | grep -c "^VIOLATION")
  NR=$(echo "$LOG" | grep "^VIOLATION" | grep -vc "no-failing-input-found")
  echo -e "$ID\t$KIND\t$P\t$RC\t$NV\t$NR\t$(( $(date +%s) - T0 ))" >> $OUT
done
echo done >> $OUT
