#!/bin/bash
# usage: seeded_matrix2.sh <out.tsv> <seed ids...>   - one row per seed: exit code of its property's check on the changed tree
OUT=$1; shift
row() {
  ID=$1; D=/verif/seeded/$ID; P=${ID:0:3}
  PATCH=$D/patch.diff; KIND=original
  if [ -f $D/patch_on_fixed_tree.diff ]; then PATCH=$D/patch_on_fixed_tree.diff; KIND=adapted-to-fixed-tree; fi
  T0=$(date +%s)
  LOG=$(/verif/tools/try_patch.sh $P $PATCH 2>&1)
  RC=$(echo "$LOG" | grep -o "^exit=[0-9]*" | tail -1 | cut -d= -f2)
  NV=$(echo "$LOG" | grep -c "^VIOLATION")
  NR=$(echo "$LOG" | grep "^VIOLATION" | grep -vc "no-failing-input-found")
  echo "$LOG" > /tmp/matrix_logs/$ID.log
  echo -e "$ID\t$KIND\t$P\t$RC\t$NV\t$NR\t$(( $(date +%s) - T0 ))"
}
export -f row
mkdir -p /tmp/matrix_logs
printf "%s\n" "$@" | xargs -P ${JOBS:-3} -I{} bash -c 'row {}' >> $OUT
