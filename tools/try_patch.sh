#!/bin/bash
# usage: try_patch.sh <Cnn> <patch.diff> [tier]   -- applies the patch to a scratch worktree of /repo, runs the check there
set -u
PID=$1; PATCH=$(realpath $2); TIER=${3:-quick}
WT=$(mktemp -d /tmp/pyvc_wt.XXXXXX)
git -C /repo worktree add -q --detach "$WT" HEAD >/dev/null 2>&1
# carry uncommitted repo state too
git -C /repo diff HEAD | git -C "$WT" apply 2>/dev/null
if ! git -C "$WT" apply --3way "$PATCH" 2>/dev/null; then echo "PATCH DOES NOT APPLY"; git -C /repo worktree remove --force "$WT"; exit 9; fi
PYVC_REPO="$WT" PYVC_EVIDENCE_DIR="$WT/.evidence" python3-vt /verif/check.py "$PID" --tier "$TIER"
RC=$?
[ -n "${KEEP_EVIDENCE:-}" ] && cp -r "$WT/.evidence" "$KEEP_EVIDENCE"
git -C /repo worktree remove --force "$WT"
echo "exit=$RC"
exit $RC
